/-
  Composition lemmas that do not depend on the protocol version (used by
  Proofs/V3Compose.lean for C06/C07/C08/C14, and meant to be reused for v5):

  * `ErrSat Q P`   — every error the reader `P` can return satisfies `Q` (closure
                     algebra in the style of `NoPanic`; instantiated with "is not an
                     `IoError`").
  * `Poll.spec`    — unfolding lemma, behaviour on strict prefixes of an accepted
                     frame, inversion lemmas for `finishHeader`/`finishBody`.
  * `Poll.Lenient` — what a lenient (async) decoder `hdr >>= body` has to satisfy
                     with respect to a `Poll.Family` for the strict decoder and the
                     lenient one to agree (C06), with the two agreement theorems.
  * `stream_generic` — the induction behind C08 (back-to-back packets).
-/
import Proofs.Parser
import Proofs.Poll

namespace Mqtt

/-! ## error-class algebra -/

/-- Every error the reader returns satisfies `Q`. -/
structure ErrSat {ε α : Type} (Q : ε → Prop) (P : Parser ε α) : Prop where
  sat : ∀ bs e, P bs = .err e → Q e

namespace ErrSat
variable {ε ε' α β : Type} {Q : ε → Prop}

theorem pure (a : α) : ErrSat Q (Parser.pure a : Parser ε α) :=
  ⟨by intro bs e h; cases h⟩

theorem pure' (a : α) : ErrSat Q (Pure.pure a : Parser ε α) := pure a

theorem fail {e : ε} (hq : Q e) : ErrSat Q (Parser.fail e : Parser ε α) :=
  ⟨by intro bs e' h; simp only [Parser.fail] at h; cases h; exact hq⟩

theorem panic' (s : String) : ErrSat Q (Parser.panic s : Parser ε α) :=
  ⟨by intro bs e h; cases h⟩

theorem bind {p : Parser ε α} {f : α → Parser ε β} (hp : ErrSat Q p) (hf : ∀ a, ErrSat Q (f a)) :
    ErrSat Q (Parser.bind p f) := by
  constructor
  intro bs e h
  simp only [Parser.bind] at h
  cases hpb : p bs with
  | ok a r => rw [hpb] at h; exact (hf a).sat r e h
  | more => rw [hpb] at h; cases h
  | err e' => rw [hpb] at h; cases h; exact hp.sat bs _ hpb
  | panic s => rw [hpb] at h; cases h

theorem bind' {p : Parser ε α} {f : α → Parser ε β} (hp : ErrSat Q p) (hf : ∀ a, ErrSat Q (f a)) :
    ErrSat Q (p >>= f) := bind hp hf

theorem mapErr {Q' : ε' → Prop} {p : Parser ε α} (g : ε → ε') (hp : ErrSat (fun e => Q' (g e)) p) :
    ErrSat Q' (Parser.mapErr g p) := by
  constructor
  intro bs e h
  simp only [Parser.mapErr] at h
  cases hpb : p bs with
  | ok a r => rw [hpb] at h; cases h
  | more => rw [hpb] at h; cases h
  | err e' => rw [hpb] at h; cases h; exact hp.sat bs _ hpb
  | panic s => rw [hpb] at h; cases h

theorem ite {c : Prop} [Decidable c] {p q : Parser ε α} (hp : ErrSat Q p) (hq : ErrSat Q q) :
    ErrSat Q (if c then p else q) := by
  split <;> assumption

theorem take (n : Nat) : ErrSat Q (Mqtt.take n : Parser ε Bytes) :=
  ⟨by intro bs e h; simp only [Mqtt.take] at h; split at h <;> cases h⟩

theorem readU8 : ErrSat Q (Mqtt.readU8 : Parser ε UInt8) :=
  ⟨by intro bs e h; cases bs <;> cases h⟩

theorem readU16 : ErrSat Q (Mqtt.readU16 : Parser ε UInt16) := by
  constructor
  intro bs e h
  match bs, h with
  | _ :: _ :: _, h => cases h
  | [], h => cases h
  | [_], h => cases h

theorem readU32 : ErrSat Q (Mqtt.readU32 : Parser ε UInt32) := by
  constructor
  intro bs e h
  match bs, h with
  | _ :: _ :: _ :: _ :: _, h => cases h
  | [], h => cases h
  | [_], h => cases h
  | [_, _], h => cases h
  | [_, _, _], h => cases h

theorem readBytes : ErrSat Q (Mqtt.readBytes : Parser ε Bytes) := by
  rw [readBytes_eq_bind]
  exact bind readU16 (fun _ => take _)

theorem liftExcept {x : Except ε α} (hx : ∀ e, x = .error e → Q e) :
    ErrSat Q (Mqtt.liftExcept x) := by
  cases x with
  | ok a => exact pure a
  | error e => exact fail (hx e rfl)

theorem checkedSub (x y : Nat) {e : ε} (hq : Q e) : ErrSat Q (Mqtt.checkedSub x y e) := by
  unfold Mqtt.checkedSub
  exact ite (pure _) (fail hq)

theorem decodeVarIntAux {inv : ε} (hq : Q inv) :
    ∀ i acc, ErrSat Q (Mqtt.decodeVarIntAux inv i acc) := by
  suffices h : ∀ (bs : Bytes) (i acc : Nat) (e : ε),
      Mqtt.decodeVarIntAux inv i acc bs = .err e → Q e from fun i acc => ⟨fun bs e => h bs i acc e⟩
  intro bs
  induction bs with
  | nil => intro i acc e h; simp [Mqtt.decodeVarIntAux] at h
  | cons b rest ih =>
    intro i acc e h
    simp only [Mqtt.decodeVarIntAux] at h
    split at h
    · cases h
    · split at h
      · exact ih _ _ _ h
      · cases h; exact hq

end ErrSat

/-- Side conditions `Q e` of `ErrSat.fail`/`ErrSat.checkedSub`; extended per error type. -/
syntax "errsat_side" : tactic
macro_rules | `(tactic| errsat_side) => `(tactic| assumption)

/-- Closes `ErrSat Q _` goals for readers built from the primitives (cf. `nopanic_tac`). -/
syntax "errsat_step" : tactic
macro_rules | `(tactic| errsat_step) => `(tactic| assumption)
macro "errsat_tac" : tactic => `(tactic| repeat' (first
  | errsat_step
  | exact ErrSat.pure _ | exact ErrSat.pure' _ | exact ErrSat.panic' _
  | exact ErrSat.fail (by errsat_side)
  | exact ErrSat.take _ | exact ErrSat.readU8 | exact ErrSat.readU16 | exact ErrSat.readU32
  | exact ErrSat.readBytes | exact ErrSat.checkedSub _ _ (by errsat_side)
  | apply ErrSat.bind' | apply ErrSat.bind
  | intro _ | split))

end Mqtt

namespace Mqtt.Poll
open Mqtt

variable {H P E : Type}

/-! ## `spec`: unfolding, inversion -/

theorem termErr_io (fam : Family H P E) (term : Term) :
    ∃ k, termErr fam term = fam.ofCommon (.ioError k) := by
  cases term with
  | eof => exact ⟨_, rfl⟩
  | err k => exact ⟨k, rfl⟩

theorem spec_nil (fam : Family H P E) (term : Term) :
    spec fam [] term = (.err (termErr fam term), 0) := by
  cases term <;> rfl

theorem spec_cons (fam : Family H P E) (cb : UInt8) (rest : Bytes) (term : Term) :
    spec fam (cb :: rest) term =
      match decodeVarIntAux (fam.ofCommon .invalidVarByteInt) 0 0 rest with
      | .more => (.err (termErr fam term), rest.length + 1)
      | .err e => (.err e, 5)
      | .panic p => (.panic p, 0)
      | .ok (v, k) rest' =>
        match finishHeader fam cb (k - 1) v with
        | .inr r => (r, 1 + k)
        | .inl (.body h total len _) =>
          if len ≤ rest'.length then (finishBody fam h total (rest'.take len), 1 + k + len)
          else (.err (termErr fam term), rest.length + 1)
        | .inl (.header _) => (.panic "unreachable", 0) := by
  cases term <;> rfl

/-- `finishHeader` answering with a packet: an empty packet type with remaining length 0. -/
theorem finishHeader_inr_ok_full (fam : Family H P E) (cb : UInt8) (vi v : Nat) (t : Nat)
    (b : Bytes) (p : P) (hr : finishHeader fam cb vi v = .inr (.ok t b p)) :
    ∃ hd, fam.newWith cb v = .ok hd ∧ fam.buildEmpty hd = some p ∧ fam.remainingLen hd = 0 ∧
      t = 1 + 1 + vi ∧ b = [] := by
  unfold finishHeader at hr
  split at hr
  · simp at hr
  · rename_i hd hnw
    split at hr
    · rename_i p' hbe
      split at hr
      · simp at hr
      · rename_i hrl
        simp only [Sum.inr.injEq, Ready.ok.injEq] at hr
        obtain ⟨rfl, rfl, rfl⟩ := hr
        refine ⟨hd, hnw, hbe, ?_, rfl, rfl⟩
        simpa using hrl
    · split at hr <;> simp at hr

/-- `finishHeader` answering with an error: `newWith` refused, or a length mismatch. -/
theorem finishHeader_inr_err (fam : Family H P E) (cb : UInt8) (vi v : Nat) (e : E)
    (hr : finishHeader fam cb vi v = .inr (.err e)) :
    fam.newWith cb v = .error e ∨ e = fam.ofCommon .invalidRemainingLength := by
  unfold finishHeader at hr
  split at hr
  · rename_i e' hnw
    simp only [Sum.inr.injEq, Ready.err.injEq] at hr
    subst hr
    exact .inl hnw
  · split at hr
    · split at hr
      · simp only [Sum.inr.injEq, Ready.err.injEq] at hr; exact .inr hr.symm
      · simp at hr
    · split at hr
      · simp only [Sum.inr.injEq, Ready.err.injEq] at hr; exact .inr hr.symm
      · simp at hr

/-- `finishBody` accepting: the body decoder consumed exactly the body. -/
theorem finishBody_ok_full (fam : Family H P E) (h : H) (total : Nat) (buf : Bytes) (t : Nat)
    (b : Bytes) (p : P) (hr : finishBody fam h total buf = .ok t b p) :
    fam.blockDecode h buf = .ok p [] ∧ t = total ∧ b = buf := by
  unfold finishBody at hr
  split at hr
  · rename_i p' rest hbd
    split at hr
    · rename_i hemp
      simp only [Ready.ok.injEq] at hr
      obtain ⟨rfl, rfl, rfl⟩ := hr
      have : rest = [] := by simpa using hemp
      subst this
      exact ⟨hbd, rfl, rfl⟩
    · simp at hr
  · simp at hr
  · split at hr <;> simp at hr
  · simp at hr

/-- `finishBody` rejecting: a length mismatch, or the body decoder's own error. -/
theorem finishBody_err (fam : Family H P E) (h : H) (total : Nat) (buf : Bytes) (e : E)
    (hr : finishBody fam h total buf = .err e) :
    e = fam.ofCommon .invalidRemainingLength ∨ fam.blockDecode h buf = .err e := by
  unfold finishBody at hr
  split at hr
  · split at hr
    · simp at hr
    · simp only [Ready.err.injEq] at hr; exact .inl hr.symm
  · simp only [Ready.err.injEq] at hr; exact .inl hr.symm
  · rename_i e' hbd
    split at hr
    · simp only [Ready.err.injEq] at hr; exact .inl hr.symm
    · simp only [Ready.err.injEq] at hr; subst hr; exact .inr hbd
  · simp at hr

/-! ## `spec` on a strict prefix of an accepted frame -/

/-- The length bytes cut after `j` bytes. -/
theorem decodeVarIntAux_take {ε} (inv : ε) : ∀ (rest : Bytes) (i acc v k : Nat) (rest' : Bytes),
    decodeVarIntAux inv i acc rest = .ok (v, k) rest' → ∀ j,
      decodeVarIntAux inv i acc (rest.take j) =
        if j < k - i then .more else .ok (v, k) (rest'.take (j - (k - i))) := by
  intro rest
  induction rest with
  | nil => intro i acc v k rest' h; simp [decodeVarIntAux] at h
  | cons b rest ih =>
    intro i acc v k rest' h j
    have hk := (decodeVarIntAux_ok inv _ _ _ _ _ _ h).1
    cases j with
    | zero =>
      simp only [List.take_zero, decodeVarIntAux]
      rw [if_pos (by omega)]
    | succ j =>
      simp only [List.take_succ_cons, decodeVarIntAux] at h ⊢
      by_cases hb : b.toNat < 128
      · simp only [hb, if_true] at h ⊢
        simp only [Res.ok.injEq, Prod.mk.injEq] at h
        obtain ⟨⟨rfl, rfl⟩, rfl⟩ := h
        have e : i + 1 - i = 1 := by omega
        rw [e, if_neg (by omega), Nat.add_sub_cancel]
      · simp only [hb, if_false] at h ⊢
        by_cases hi : i < 3
        · simp only [hi, if_true] at h ⊢
          have hk' := (decodeVarIntAux_ok inv _ _ _ _ _ _ h).1
          rw [ih _ _ _ _ _ h j]
          by_cases hj : j < k - (i + 1)
          · rw [if_pos hj, if_pos (by omega)]
          · rw [if_neg hj, if_neg (by omega)]
            have e : j + 1 - (k - i) = j - (k - (i + 1)) := by omega
            rw [e]
        · simp only [hi, if_false] at h
          cases h

/-- If the strict decoder accepts a frame of `total` bytes at the head of `s`, then on
the first `j < total` bytes of `s` alone it reports the transport's terminal event
(whatever that is), having consumed all `j` bytes: never a packet, never another error. -/
theorem spec_strict_prefix (fam : Family H P E) (s : Bytes) (term : Term) (total : Nat)
    (body : Bytes) (p : P) (h : (spec fam s term).1 = .ok total body p)
    (j : Nat) (hj : j < total) (term' : Term) :
    spec fam (s.take j) term' = (.err (termErr fam term'), j) := by
  have hlen := (spec_ok fam s term total body p h).2.1
  cases s with
  | nil => rw [spec_nil] at h; cases h
  | cons cb rest =>
    rw [spec_cons] at h
    simp only [List.length_cons] at hlen
    cases j with
    | zero => rw [List.take_zero, spec_nil]
    | succ j =>
      rw [List.take_succ_cons, spec_cons]
      have hjl : (rest.take j).length = j := by rw [List.length_take]; omega
      cases hd : decodeVarIntAux (fam.ofCommon .invalidVarByteInt) 0 0 rest with
      | more => rw [hd] at h; cases h
      | err e => rw [hd] at h; cases h
      | panic q => rw [hd] at h; cases h
      | ok a rest' =>
        obtain ⟨v, k⟩ := a
        obtain ⟨hk, hkl, -⟩ := decodeVarIntAux_ok _ _ _ _ _ _ _ hd
        rw [decodeVarIntAux_take _ _ _ _ _ _ _ hd j, Nat.sub_zero]
        rw [hd] at h
        simp only [] at h
        by_cases hjk : j < k
        · rw [if_pos hjk, hjl]
        · rw [if_neg hjk]
          simp only []
          cases hf : finishHeader fam cb (k - 1) v with
          | inr r =>
            rw [hf] at h
            simp only [] at h
            subst h
            obtain ⟨rfl, -⟩ := finishHeader_inr_ok _ _ _ _ _ _ _ hf
            omega
          | inl st =>
            obtain ⟨hd', -, -, hne, rfl⟩ := finishHeader_inl _ _ _ _ _ hf
            rw [hf] at h
            simp only [] at h ⊢
            split at h
            · obtain ⟨rfl, -⟩ := finishBody_ok _ _ _ _ _ _ _ h
              rw [if_neg (by rw [List.length_take]; omega), hjl]
            · cases h

/-- In particular the result on a strict prefix is the terminal event. -/
theorem spec_strict_prefix_result (fam : Family H P E) (s : Bytes) (term : Term) (total : Nat)
    (body : Bytes) (p : P) (h : (spec fam s term).1 = .ok total body p)
    (j : Nat) (hj : j < total) (term' : Term) :
    (spec fam (s.take j) term').1 = .err (termErr fam term') := by
  rw [spec_strict_prefix fam s term total body p h j hj term']

/-- The same for the machine under every delivery schedule (by C05). -/
theorem run_strict_prefix (fam : Family H P E) (debug : Bool) (s : Bytes) (term : Term)
    (total : Nat) (body : Bytes) (p : P) (h : (spec fam s term).1 = .ok total body p)
    (j : Nat) (hj : j < total) (sched : List Sched) (term' : Term) :
    (run fam debug (s.take j) sched term').result = .err (termErr fam term') ∧
    (run fam debug (s.take j) sched term').consumed = j := by
  have hr := run_out_eq_spec fam debug (s.take j) sched term'
  rw [spec_strict_prefix fam s term total body p h j hj term'] at hr
  exact ⟨congrArg Prod.fst hr, congrArg Prod.snd hr⟩

/-! ## strict versus lenient -/

/-- What ties a lenient decoder `hdr >>= body` to the strict decoder of the family:
the same fixed-header reading, body decoders that extend, the same answer on empty
packet types and the same body decoder on the others. -/
structure Lenient (fam : Family H P E) (hdr : Parser E H) (body : H → Parser E P) : Prop where
  hdr_cons : ∀ cb rest, hdr (cb :: rest) =
    match decodeVarIntAux (fam.ofCommon .invalidVarByteInt) 0 0 rest with
    | .ok (v, _) rest' =>
      (match fam.newWith cb v with
       | .ok h => .ok h rest'
       | .error e => .err e)
    | .more => .more
    | .err e => .err e
    | .panic s => .panic s
  ext : ∀ h, Extends (body h)
  empty : ∀ cb v h p, fam.newWith cb v = .ok h → fam.buildEmpty h = some p →
    fam.remainingLen h = 0 → ∀ bs, body h bs = .ok p bs
  block : ∀ cb v h, fam.newWith cb v = .ok h → fam.buildEmpty h = none →
    fam.blockDecode h = body h

/-- Whenever the strict decoder accepts, the lenient decoder returns the same packet
and leaves exactly the bytes after the reported total unread. -/
theorem Lenient.accepts {fam : Family H P E} {hdr : Parser E H} {body : H → Parser E P}
    (L : Lenient fam hdr body) (bs : Bytes) (term : Term) (total : Nat) (bd : Bytes) (p : P)
    (h : (spec fam bs term).1 = .ok total bd p) :
    Parser.bind hdr body bs = .ok p (bs.drop total) ∧ total ≤ bs.length := by
  refine ⟨?_, (spec_ok fam bs term total bd p h).2.1⟩
  cases bs with
  | nil => rw [spec_nil] at h; cases h
  | cons cb rest =>
    rw [spec_cons] at h
    simp only [Parser.bind, L.hdr_cons]
    cases hd : decodeVarIntAux (fam.ofCommon .invalidVarByteInt) 0 0 rest with
    | more => rw [hd] at h; cases h
    | err e => rw [hd] at h; cases h
    | panic q => rw [hd] at h; cases h
    | ok a rest' =>
      obtain ⟨v, k⟩ := a
      obtain ⟨hk, hkl, hrest'⟩ := decodeVarIntAux_ok _ _ _ _ _ _ _ hd
      rw [Nat.sub_zero] at hrest'
      rw [hd] at h
      simp only [] at h ⊢
      cases hf : finishHeader fam cb (k - 1) v with
      | inr r =>
        rw [hf] at h
        simp only [] at h
        subst h
        obtain ⟨hd', hnw, hbe, hrl, rfl, -⟩ := finishHeader_inr_ok_full _ _ _ _ _ _ _ hf
        rw [hnw]
        simp only [Res.bind]
        rw [L.empty cb v hd' p hnw hbe hrl rest']
        have e : 1 + 1 + (k - 1) = k + 1 := by omega
        rw [e, List.drop_succ_cons, hrest']
      | inl st =>
        obtain ⟨hd', hnw, hbe, hne, rfl⟩ := finishHeader_inl _ _ _ _ _ hf
        rw [hf] at h
        simp only [] at h
        split at h
        · rename_i hle
          obtain ⟨hbd, rfl, -⟩ := finishBody_ok_full _ _ _ _ _ _ _ h
          rw [hnw]
          simp only [Res.bind]
          rw [L.block cb v hd' hnw hbe] at hbd
          have := (L.ext hd').ok _ _ _ (rest'.drop (fam.remainingLen hd')) hbd
          rw [List.take_append_drop, List.nil_append] at this
          rw [this]
          have e : 1 + 1 + (k - 1) + fam.remainingLen hd' = (k + fam.remainingLen hd') + 1 := by
            omega
          rw [e, List.drop_succ_cons, hrest', List.drop_drop]
        · cases h

/-- Whenever the strict decoder rejects with an error other than a remaining-length
mismatch and other than the transport's terminal event, the lenient decoder returns
that same error. -/
theorem Lenient.rejects {fam : Family H P E} {hdr : Parser E H} {body : H → Parser E P}
    (L : Lenient fam hdr body) (bs : Bytes) (term : Term) (e : E)
    (h : (spec fam bs term).1 = .err e)
    (hne : e ≠ fam.ofCommon .invalidRemainingLength)
    (hio : ∀ k, e ≠ fam.ofCommon (.ioError k)) :
    Parser.bind hdr body bs = .err e := by
  have hterm : e ≠ termErr fam term := by
    obtain ⟨k, hk⟩ := termErr_io fam term
    rw [hk]; exact hio k
  cases bs with
  | nil => rw [spec_nil] at h; simp only [Ready.err.injEq] at h; exact absurd h.symm hterm
  | cons cb rest =>
    rw [spec_cons] at h
    simp only [Parser.bind, L.hdr_cons]
    cases hd : decodeVarIntAux (fam.ofCommon .invalidVarByteInt) 0 0 rest with
    | more =>
      rw [hd] at h; simp only [Ready.err.injEq] at h; exact absurd h.symm hterm
    | err e' => rw [hd] at h; simp only [Ready.err.injEq] at h; subst h; rfl
    | panic q => rw [hd] at h; cases h
    | ok a rest' =>
      obtain ⟨v, k⟩ := a
      rw [hd] at h
      simp only [] at h ⊢
      cases hf : finishHeader fam cb (k - 1) v with
      | inr r =>
        rw [hf] at h
        simp only [] at h
        subst h
        rcases finishHeader_inr_err _ _ _ _ _ hf with hnw | he
        · rw [hnw]; rfl
        · exact absurd he hne
      | inl st =>
        obtain ⟨hd', hnw, hbe, hne', rfl⟩ := finishHeader_inl _ _ _ _ _ hf
        rw [hf] at h
        simp only [] at h
        split at h
        · rename_i hle
          rcases finishBody_err _ _ _ _ _ h with he | hbd
          · exact absurd he hne
          · rw [hnw]
            simp only [Res.bind]
            rw [L.block cb v hd' hnw hbe] at hbd
            have := (L.ext hd').err _ _ (rest'.drop (fam.remainingLen hd')) hbd
            rw [List.take_append_drop] at this
            exact this
        · simp only [Ready.err.injEq] at h; exact absurd h.symm hterm

end Mqtt.Poll

namespace Mqtt

/-! ## back-to-back packets -/

/-- `encs` are encodings of the packets `ps`, one each, as far as a one-packet step
function `step` (returning packet, bytes consumed, unread input) is concerned: every
encoding is non-empty, and `step` on it followed by anything returns its packet, its
length and exactly what follows. -/
inductive Framed {α : Type} (step : Bytes → Option (α × Nat × Bytes)) : List α → List Bytes → Prop
  | nil : Framed step [] []
  | cons {p enc ps encs} : enc ≠ [] → (∀ t, step (enc ++ t) = some (p, enc.length, t)) →
      Framed step ps encs → Framed step (p :: ps) (enc :: encs)

/-- One round of the loop: record the packet and its byte count, go on with the rest. -/
def stepCons {α : Type} (k : Bytes → Option (List (α × Nat))) :
    Option (α × Nat × Bytes) → Option (List (α × Nat))
  | some (a, n, rest) => (k rest).map (fun l => (a, n) :: l)
  | none => none

/-- The induction behind C08.  `f` is a fuel-bounded "decode one packet after another"
loop over `step`; on the concatenation of the encodings it returns the packets in
order with their lengths. -/
theorem stream_generic {α : Type} (step : Bytes → Option (α × Nat × Bytes))
    (f : Nat → Bytes → Option (List (α × Nat)))
    (hf : ∀ fuel bs, f (fuel + 1) bs =
      if bs.isEmpty then some [] else stepCons (f fuel) (step bs))
    (ps : List α) (encs : List Bytes) (h : Framed step ps encs) :
    f (ps.length + 1) encs.flatten = some (ps.zip (encs.map List.length)) := by
  induction h with
  | nil => rw [hf]; rfl
  | @cons p enc ps encs hne hstep _ ih =>
    rw [List.length_cons, hf, List.flatten_cons, hstep]
    have : (enc ++ encs.flatten).isEmpty = false := by
      cases enc with
      | nil => exact absurd rfl hne
      | cons b enc => rfl
    rw [this]
    simp only [stepCons, ih, Bool.false_eq_true, if_false, Option.map_some, List.map_cons,
      List.zip_cons_cons]

/-- The byte counts add up to the stream length. -/
theorem sum_lengths_eq_flatten_length (encs : List Bytes) :
    (encs.map List.length).sum = encs.flatten.length := by
  rw [List.length_flatten]

end Mqtt
