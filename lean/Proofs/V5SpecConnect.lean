/-
  C04 (v5): CONNECT — the model's field-by-field decoder (properties, Will properties,
  `LastWill.decode`) against the specification's two-stage parse (variable header, then the
  payload described by the Connect Flags).
-/
import Proofs.V5SpecPublish

set_option linter.unusedSimpArgs false
set_option linter.unusedVariables false

namespace Mqtt.V5
open Mqtt

/-! ## shape -/

def mkWill5 (cf : UInt8) (topic payload : Bytes) (wps : Props) : LastWill :=
  { qos := UInt8.ofNat (Spec.bits cf 3 2), retain := Spec.bit cf 5, topicName := topic,
    payload := payload, properties := wps }

/-- The Will: properties, topic, payload — present iff the Will Flag is set. -/
def WillPart (RW : PRel) (cf : UInt8) (r2 : Bytes) (will : Option LastWill) (r3 : Bytes) : Prop :=
  (Spec.bit cf 2 = false ∧ will = none ∧ r3 = r2) ∨
  (Spec.bit cf 2 = true ∧ ∃ wps ra topic rb payload, RW r2 wps ra ∧
    Spec.lenPrefixed ra = some (topic, rb) ∧ Spec.isTopicName topic = true ∧
    Spec.lenPrefixed rb = some (payload, r3) ∧
    (wps.get 0x01 = some (.byte 1) → Utf8.valid payload = true) ∧
    will = some (mkWill5 cf topic payload wps))

def ConnectShape (R RW : PRel) (b : Bytes) (x : Connect) : Prop :=
  ∃ cf k1 k2 r0 ps r1 cid r2 will r3 us r4 pw,
    Spec.lenPrefixed b = some (MQTTN, 5 :: cf :: k1 :: k2 :: r0) ∧ Spec.bit cf 0 = false ∧
    Spec.bits cf 3 2 ≠ 3 ∧ (Spec.bit cf 2 = true ∨ Spec.bits cf 3 2 = 0) ∧
    R r0 ps r1 ∧ Spec.lenPrefixed r1 = some (cid, r2) ∧ Utf8.valid cid = true ∧
    WillPart RW cf r2 will r3 ∧
    V3.optLP (Spec.bit cf 7) r3 = some (us, r4) ∧ (∀ u ∈ us, Utf8.valid u = true) ∧
    V3.optLP (Spec.bit cf 6) r4 = some (pw, []) ∧
    x = ⟨.v500, Spec.bit cf 1, be16 k1 k2, ps, cid, will, us, pw⟩

theorem WillPart.mono {RW RW' : PRel} (h : ∀ bs ps rest, RW bs ps rest → RW' bs ps rest)
    {cf : UInt8} {r2 : Bytes} {will : Option LastWill} {r3 : Bytes} (hs : WillPart RW cf r2 will r3) :
    WillPart RW' cf r2 will r3 := by
  rcases hs with h1 | ⟨hb, wps, ra, topic, rb, payload, hr, h2⟩
  · exact .inl h1
  · exact .inr ⟨hb, wps, ra, topic, rb, payload, h _ _ _ hr, h2⟩

theorem ConnectShape.mono {R R' RW RW' : PRel} (h : ∀ bs ps rest, R bs ps rest → R' bs ps rest)
    (hw : ∀ bs ps rest, RW bs ps rest → RW' bs ps rest)
    {b : Bytes} {x : Connect} (hs : ConnectShape R RW b x) : ConnectShape R' RW' b x := by
  obtain ⟨cf, k1, k2, r0, ps, r1, cid, r2, will, r3, us, r4, pw, h1, h2, h3, h4, hr, h5, h6, hwp, h7⟩ := hs
  exact ⟨cf, k1, k2, r0, ps, r1, cid, r2, will, r3, us, r4, pw, h1, h2, h3, h4, h _ _ _ hr, h5, h6,
    hwp.mono hw, h7⟩

/-! ## the model's CONNECT decoder, cut into blocks -/

def willBlock5 (flags : UInt8) : Parser ErrorV5 (Option LastWill) :=
  if flags &&& 0b100 != 0 then do
    let qos ← liftExcept ((qosFromU8 ((flags &&& 0b11000) >>> 3)).mapError ErrorV5.common)
    let retain := (flags &&& 0b00100000) != 0
    let w ← LastWill.decode qos retain
    pure (some w)
  else if flags &&& 0b11000 != 0 then Parser.fail (.common (.invalidConnectFlags flags))
  else pure none

def userBlock5 (flags : UInt8) : Parser ErrorV5 (Option Bytes) :=
  if flags &&& 0b10000000 != 0 then do let u ← liftC readString; pure (some u)
  else pure none

def passBlock5 (flags : UInt8) : Parser ErrorV5 (Option Bytes) :=
  if flags &&& 0b01000000 != 0 then do let p ← liftC readBytes; pure (some p)
  else pure none

theorem decodeWithProtocol5_eq (h : Header) (protocol : Protocol) :
    Connect.decodeWithProtocol h protocol =
      (if protocol != .v500 then Parser.fail (.common (.unexpectedProtocol protocol)) else do
      let flags ← liftC readU8
      if flags &&& 1 != 0 then Parser.fail (.common (.invalidConnectFlags flags)) else do
      let keepAlive ← liftC readU16
      let properties ← decodeProps (.packet h.typ) connectProps
      let clientId ← liftC readString
      let lastWill ← willBlock5 flags
      let username ← userBlock5 flags
      let password ← passBlock5 flags
      pure { protocol := protocol, cleanStart := (flags &&& 0b10) != 0, keepAlive := keepAlive,
             properties := properties, clientId := clientId, lastWill := lastWill,
             username := username, password := password }) := rfl

theorem userBlock5_ok_iff (cf : UInt8) (bs : Bytes) (o : Option Bytes) (r : Bytes) :
    userBlock5 cf bs = .ok o r ↔
      V3.optLP (Spec.bit cf 7) bs = some (o, r) ∧ ∀ x ∈ o, Utf8.valid x = true := by
  unfold userBlock5
  rw [V3.cf_bit7]
  cases Spec.bit cf 7 with
  | false =>
    simp only [Bool.false_eq_true, if_false, pure_ok_iff, V3.optLP, Option.some.injEq, Prod.mk.injEq]
    constructor
    · rintro ⟨rfl, rfl⟩; exact ⟨⟨rfl, rfl⟩, by simp⟩
    · rintro ⟨⟨rfl, rfl⟩, -⟩; exact ⟨rfl, rfl⟩
  | true =>
    simp only [if_true, bind_ok_iff, pure_ok_iff, readString_ok_iff, V3.optLP, Option.map_eq_some_iff,
      Prod.mk.injEq]
    constructor
    · rintro ⟨a, r', ⟨hl, hv⟩, rfl, rfl⟩
      exact ⟨⟨(a, r'), hl, rfl, rfl⟩, by simpa using hv⟩
    · rintro ⟨⟨⟨a, r'⟩, hl, rfl, rfl⟩, hv⟩
      exact ⟨a, r', ⟨hl, by simpa using hv⟩, rfl, rfl⟩

theorem passBlock5_ok_iff (cf : UInt8) (bs : Bytes) (o : Option Bytes) (r : Bytes) :
    passBlock5 cf bs = .ok o r ↔ V3.optLP (Spec.bit cf 6) bs = some (o, r) := by
  unfold passBlock5
  rw [V3.cf_bit6]
  cases Spec.bit cf 6 with
  | false =>
    simp only [Bool.false_eq_true, if_false, pure_ok_iff, V3.optLP, Option.some.injEq, Prod.mk.injEq]
  | true =>
    simp only [if_true, bind_ok_iff, pure_ok_iff, readBytes_ok_iff, V3.optLP, Option.map_eq_some_iff,
      Prod.mk.injEq]
    constructor
    · rintro ⟨a, r', hl, rfl, rfl⟩
      exact ⟨(a, r'), hl, rfl, rfl⟩
    · rintro ⟨⟨a, r'⟩, hl, rfl, rfl⟩
      exact ⟨a, r', hl, rfl, rfl⟩

theorem qosMapped_ok_iff (cf d : UInt8) :
    (qosFromU8 ((cf &&& 0b11000) >>> 3)).mapError ErrorV5.common = .ok d ↔
      d = UInt8.ofNat (Spec.bits cf 3 2) ∧ Spec.bits cf 3 2 ≠ 3 := by
  rw [← V3.cf_qos]
  cases qosFromU8 ((cf &&& 0b11000) >>> 3) <;> simp [Except.mapError]

theorem lastWillDecode_ok_iff (qos : UInt8) (retain : Bool) (r2 : Bytes) (w : LastWill) (r3 : Bytes) :
    LastWill.decode qos retain r2 = .ok w r3 ↔
      ∃ wps ra topic rb payload, decodeProps .will willProps r2 = .ok wps ra ∧
        Spec.lenPrefixed ra = some (topic, rb) ∧ Spec.isTopicName topic = true ∧
        Spec.lenPrefixed rb = some (payload, r3) ∧
        (wps.get 0x01 = some (.byte 1) → Utf8.valid payload = true) ∧
        w = { qos := qos, retain := retain, topicName := topic, payload := payload,
              properties := wps } := by
  unfold LastWill.decode
  simp only [bind_ok_iff, readString_ok_iff, liftExcept_ok_iff, topicNameTryFrom_ok_iff,
    readBytes_ok_iff]
  constructor
  · rintro ⟨wps, ra, hdp, topic, rb, ⟨hl1, hv⟩, tn, rb', ⟨⟨htn, rfl⟩, rfl⟩, payload, r3', hl2, h⟩
    by_cases hc : (wps.get 0x01 == some (.byte 1) && !Utf8.valid payload) = true
    · rw [if_pos hc] at h; simp at h
    · rw [if_neg hc] at h
      simp only [pure_ok_iff] at h
      obtain ⟨rfl, rfl⟩ := h
      refine ⟨wps, ra, topic, rb, payload, hdp, hl1, htn, hl2, ?_, rfl⟩
      intro hg
      simp only [hg, beq_self_eq_true, Bool.true_and, Bool.not_eq_true', Bool.not_eq_false] at hc
      exact hc
  · rintro ⟨wps, ra, topic, rb, payload, hdp, hl1, htn, hl2, hutf, rfl⟩
    refine ⟨wps, ra, hdp, topic, rb, ⟨hl1, V3.isTopicName_valid htn⟩, topic, rb, ⟨⟨htn, rfl⟩, rfl⟩,
      payload, r3, hl2, ?_⟩
    have hc : ¬ ((wps.get 0x01 == some (.byte 1) && !Utf8.valid payload) = true) := by
      simp only [Bool.and_eq_true, beq_iff_eq, Bool.not_eq_true', not_and, Bool.not_eq_false]
      exact hutf
    rw [if_neg hc]
    simp

theorem willBlock5_ok_iff (cf : UInt8) (r2 : Bytes) (will : Option LastWill) (r3 : Bytes) :
    willBlock5 cf r2 = .ok will r3 ↔
      WillPart (ModelR .will willProps) cf r2 will r3 ∧ Spec.bits cf 3 2 ≠ 3 ∧
        (Spec.bit cf 2 = true ∨ Spec.bits cf 3 2 = 0) := by
  unfold willBlock5 WillPart ModelR
  rw [V3.cf_bit2, V3.cf_qosnz, V3.cf_bit5]
  cases hw : Spec.bit cf 2 with
  | false =>
    simp only [Bool.false_eq_true, if_false, false_and, or_false, false_or, true_and]
    by_cases hq : Spec.bits cf 3 2 = 0
    · simp only [hq, bne_self_eq_false, Bool.false_eq_true, if_false, pure_ok_iff]
      constructor
      · rintro ⟨rfl, rfl⟩; exact ⟨⟨rfl, rfl⟩, by omega, trivial⟩
      · rintro ⟨⟨rfl, rfl⟩, -, -⟩; exact ⟨rfl, rfl⟩
    · have : (Spec.bits cf 3 2 != 0) = true := by simpa using hq
      simp only [this, if_true, Parser.fail_apply, reduceCtorEq, false_iff]
      rintro ⟨-, -, h0⟩; exact hq h0
  | true =>
    simp only [if_true, bind_ok_iff, liftExcept_ok_iff, qosMapped_ok_iff, lastWillDecode_ok_iff,
      pure_ok_iff, Bool.true_eq_false, false_and, false_or, true_and, true_or, and_true]
    constructor
    · rintro ⟨q, r, ⟨⟨rfl, hq3⟩, rfl⟩, w, r', ⟨wps, ra, topic, rb, payload, hdp, hl1, htn, hl2, hutf, rfl⟩,
        rfl, rfl⟩
      exact ⟨⟨wps, ra, topic, rb, payload, hdp, hl1, htn, hl2, hutf, rfl⟩, hq3⟩
    · rintro ⟨⟨wps, ra, topic, rb, payload, hdp, hl1, htn, hl2, hutf, rfl⟩, hq3⟩
      exact ⟨_, r2, ⟨⟨rfl, hq3⟩, rfl⟩, _, r3, ⟨wps, ra, topic, rb, payload, hdp, hl1, htn, hl2, hutf, rfl⟩,
        rfl, rfl⟩

theorem protocolNew_v500 (name : Bytes) (level : UInt8) (proto : Protocol) :
    (Protocol.new name level = .ok proto ∧ ¬ (proto != .v500) = true) ↔
      (name = MQTTN ∧ level = 5 ∧ proto = .v500) := by
  unfold Protocol.new
  by_cases h1 : name = MQISDP ∧ level = 3
  · obtain ⟨rfl, rfl⟩ := h1
    rw [if_pos ⟨rfl, rfl⟩]
    constructor
    · rintro ⟨h, hne⟩
      simp only [Except.ok.injEq] at h
      subst h
      exact absurd (by decide) hne
    · rintro ⟨h, -⟩; exact absurd h (by decide)
  · by_cases h2 : name = MQTTN ∧ level = 4
    · obtain ⟨rfl, rfl⟩ := h2
      rw [if_neg h1, if_pos ⟨rfl, rfl⟩]
      constructor
      · rintro ⟨h, hne⟩
        simp only [Except.ok.injEq] at h
        subst h
        exact absurd (by decide) hne
      · rintro ⟨-, h, -⟩; exact absurd h (by decide)
    · by_cases h3 : name = MQTTN ∧ level = 5
      · obtain ⟨rfl, rfl⟩ := h3
        rw [if_neg h1, if_neg h2, if_pos ⟨rfl, rfl⟩]
        constructor
        · rintro ⟨h, -⟩
          simp only [Except.ok.injEq] at h
          exact ⟨rfl, rfl, h.symm⟩
        · rintro ⟨-, -, rfl⟩; exact ⟨rfl, by decide⟩
      · rw [if_neg h1, if_neg h2, if_neg h3]
        constructor
        · rintro ⟨h, -⟩
          split at h <;> cases h
        · rintro ⟨a, b, -⟩; exact absurd ⟨a, b⟩ h3

theorem connectModel (h : Header) (b : Bytes) (x : Connect) :
    Connect.decode h b = .ok x [] ↔
      ConnectShape (ModelR (.packet h.typ) connectProps) (ModelR .will willProps) b x := by
  unfold Connect.decode ConnectShape
  simp only [bind_ok_iff, liftC_ok_iff, V3.protocolDecode_ok_iff, decodeWithProtocol5_eq]
  constructor
  · rintro ⟨proto, r, ⟨name, level, hl, hp⟩, h2⟩
    by_cases hne : (proto != .v500) = true
    · rw [if_pos hne] at h2; simp at h2
    · rw [if_neg hne] at h2
      obtain ⟨rfl, rfl, rfl⟩ := (protocolNew_v500 name level proto).mp ⟨hp, hne⟩
      simp only [bind_ok_iff, readU8_ok_iff] at h2
      obtain ⟨cf, r1, rfl, h2⟩ := h2
      rw [V3.cf_bit0] at h2
      cases hb0 : Spec.bit cf 0 with
      | true => simp [hb0] at h2
      | false =>
        simp only [hb0, Bool.false_eq_true, if_false, bind_ok_iff, readU16_ok_iff,
          readString_ok_iff, willBlock5_ok_iff, userBlock5_ok_iff, passBlock5_ok_iff,
          pure_ok_iff, V3.cf_bit1] at h2
        obtain ⟨ka, r2, ⟨k1, k2, rfl, rfl⟩, ps, r3, hdp, cid, r4, ⟨hlc, hvc⟩, will, r5,
          ⟨hwp, hq3, hq0⟩, us, r6, ⟨hus, husv⟩, pw, r7, hpw, rfl, rfl⟩ := h2
        exact ⟨cf, k1, k2, r2, ps, r3, cid, r4, will, r5, us, r6, pw, hl, hb0, hq3, hq0, hdp, hlc,
          hvc, hwp, hus, husv, hpw, rfl⟩
  · rintro ⟨cf, k1, k2, r0, ps, r1, cid, r2, will, r3, us, r4, pw, hl, hb0, hq3, hq0, hdp, hlc, hvc,
      hwp, hus, husv, hpw, rfl⟩
    have hpn := (protocolNew_v500 MQTTN 5 .v500).mpr ⟨rfl, rfl, rfl⟩
    refine ⟨.v500, _, ⟨MQTTN, 5, hl, hpn.1⟩, ?_⟩
    rw [if_neg hpn.2]
    simp only [bind_ok_iff, readU8_ok_iff]
    refine ⟨cf, _, rfl, ?_⟩
    rw [V3.cf_bit0]
    simp only [hb0, Bool.false_eq_true, if_false, bind_ok_iff, readU16_ok_iff,
      readString_ok_iff, willBlock5_ok_iff, userBlock5_ok_iff, passBlock5_ok_iff,
      pure_ok_iff, V3.cf_bit1]
    exact ⟨_, r0, ⟨k1, k2, rfl, rfl⟩, ps, r1, hdp, cid, r2, ⟨hlc, hvc⟩, will, r3, ⟨hwp, hq3, hq0⟩,
      us, r4, ⟨hus, husv⟩, pw, [], hpw, rfl, rfl⟩

/-! ## the specification's CONNECT parse -/

/-- An optional property section. -/
def optProps (m c : Bool) (bs : Bytes) : Option (Option (List Spec.RawProp) × Bytes) :=
  if c then (Spec.parseProps m bs).map (fun x => (some x.1, x.2)) else some (none, bs)

def propsField : Option (List Spec.RawProp) → Spec.Field
  | some raw => .props raw
  | none => .absent

theorem parseItems_optProps (m c : Bool) (is : List Spec.Item) (bs : Bytes) (fs : List Spec.Field)
    (t : Bytes) :
    Spec.parseItems m ((if c = true then Spec.Item.props else .absent) :: is) bs = some (fs, t) ↔
      ∃ o r fs', optProps m c bs = some (o, r) ∧ Spec.parseItems m is r = some (fs', t) ∧
        fs = propsField o :: fs' := by
  cases c with
  | false =>
    simp only [Bool.false_eq_true, if_false, V3.parseItems_absent, optProps, Option.some.injEq,
      Prod.mk.injEq, Option.bind_eq_some_iff]
    constructor
    · rintro ⟨⟨fs', t'⟩, h, rfl, rfl⟩; exact ⟨none, bs, fs', ⟨rfl, rfl⟩, h, rfl⟩
    · rintro ⟨o, r, fs', ⟨rfl, rfl⟩, h, rfl⟩; exact ⟨(fs', t), h, rfl, rfl⟩
  | true =>
    simp only [if_true, parseItems_props, optProps, Option.some.injEq, Prod.mk.injEq,
      Option.bind_eq_some_iff, Option.map_eq_some_iff]
    constructor
    · rintro ⟨⟨raw, r⟩, hp, ⟨fs', t'⟩, h, rfl, rfl⟩
      exact ⟨some raw, r, fs', ⟨(raw, r), hp, rfl, rfl⟩, h, rfl⟩
    · rintro ⟨o, r, fs', ⟨⟨raw, r'⟩, hp, rfl, rfl⟩, h, rfl⟩
      exact ⟨(raw, r'), hp, (fs', t), h, rfl, rfl⟩

/-- The CONNECT payload cut into its fields. -/
def ConnSplit5 (m w u pw : Bool) (payload cid : Bytes) (wpo : Option (List Spec.RawProp))
    (wt wm us ps : Option Bytes) (t : Bytes) : Prop :=
  ∃ r2 ra rb r3 r4, Spec.lenPrefixed payload = some (cid, r2) ∧ optProps m w r2 = some (wpo, ra) ∧
    V3.optLP w ra = some (wt, rb) ∧ V3.optLP w rb = some (wm, r3) ∧
    V3.optLP u r3 = some (us, r4) ∧ V3.optLP pw r4 = some (ps, t)

theorem parseBody_connectPayload5 (m : Bool) (f : Spec.ConnectFlags) (payload : Bytes)
    (ps : List Spec.Field) :
    Spec.parseBody m (Spec.connectPayloadV5 f) payload = some ps ↔
      ∃ cid wpo wt wm us pw,
        ConnSplit5 m f.will f.username f.password payload cid wpo wt wm us pw [] ∧
        ps = [.val (.str cid), propsField wpo, V3.strField wt, V3.binField wm, V3.strField us,
          V3.binField pw] := by
  rw [parseBody_iff]
  unfold Spec.connectPayloadV5 ConnSplit5
  constructor
  · intro h
    rw [V3.parseItems_val] at h
    simp only [V3.parseWire_str, Option.bind_eq_some_iff, Option.map_eq_some_iff] at h
    obtain ⟨⟨vs, r1⟩, ⟨⟨cid, r1'⟩, hl, h1⟩, ⟨fs1, t1⟩, h, h2⟩ := h
    cases h1
    simp only [Option.some.injEq, Prod.mk.injEq] at h2
    obtain ⟨rfl, rfl⟩ := h2
    rw [parseItems_optProps] at h
    obtain ⟨wpo, ra, fs2, h0, h, rfl⟩ := h
    rw [V3.parseItems_optStr] at h
    obtain ⟨wt, rb, fs3, h1, h, rfl⟩ := h
    rw [V3.parseItems_optBin] at h
    obtain ⟨wm, r3, fs4, h2, h, rfl⟩ := h
    rw [V3.parseItems_optStr] at h
    obtain ⟨us, r4, fs5, h3, h, rfl⟩ := h
    rw [V3.parseItems_optBin] at h
    obtain ⟨pw, r5, fs6, h4, h, rfl⟩ := h
    simp only [V3.parseItems_nil, Option.some.injEq, Prod.mk.injEq] at h
    obtain ⟨rfl, rfl⟩ := h
    exact ⟨cid, wpo, wt, wm, us, pw, ⟨r1', ra, rb, r3, r4, hl, h0, h1, h2, h3, h4⟩, rfl⟩
  · rintro ⟨cid, wpo, wt, wm, us, pw, ⟨r2, ra, rb, r3, r4, hl, h0, h1, h2, h3, h4⟩, rfl⟩
    rw [V3.parseItems_val]
    simp only [V3.parseWire_str, Option.bind_eq_some_iff, Option.map_eq_some_iff]
    refine ⟨([.str cid], r2), ⟨(cid, r2), hl, rfl⟩,
      ([propsField wpo, V3.strField wt, V3.binField wm, V3.strField us, V3.binField pw], []), ?_, rfl⟩
    rw [parseItems_optProps]
    refine ⟨wpo, ra, _, h0, ?_, rfl⟩
    rw [V3.parseItems_optStr]
    refine ⟨wt, rb, _, h1, ?_, rfl⟩
    rw [V3.parseItems_optBin]
    refine ⟨wm, r3, _, h2, ?_, rfl⟩
    rw [V3.parseItems_optStr]
    refine ⟨us, r4, _, h3, ?_, rfl⟩
    rw [V3.parseItems_optBin]
    exact ⟨pw, [], _, h4, V3.parseItems_nil _ _, rfl⟩

theorem parseBody_connectHead5 (m : Bool) (flags : UInt8) (b : Bytes) (fs : List Spec.Field) :
    Spec.parseBody m (Spec.layoutV5 .connect flags b.length) b = some fs ↔
      ∃ name level cf k1 k2 r0 raw payload,
        Spec.lenPrefixed b = some (name, level :: cf :: k1 :: k2 :: r0) ∧
        Spec.parseProps m r0 = some (raw, payload) ∧
        fs = [.val (.str name), .val (.byte level), .val (.byte cf), .val (.u16 (be16 k1 k2)),
          .props raw, .rest payload] := by
  rw [parseBody_iff]
  simp only [Spec.layoutV5, V3.parseItems_val, V3.parseWire_str]
  cases hl : Spec.lenPrefixed b with
  | none => simp
  | some x =>
    obtain ⟨name, r⟩ := x
    simp only [Option.map_some, Option.bind_some]
    match r with
    | [] => simp [V3.parseWire_byte_nil]
    | [l] => simp [V3.parseWire_byte, V3.parseWire_byte_nil]
    | [l, cf] => simp [V3.parseWire_byte, V3.parseWire_u16_nil]
    | [l, cf, k1] => simp [V3.parseWire_byte, V3.parseWire_u16_one]
    | l :: cf :: k1 :: k2 :: r0 =>
      simp only [V3.parseWire_byte, V3.parseWire_u16, Option.bind_some, parseItems_props,
        parseItems_rest, V3.parseItems_nil, List.map_cons, List.map_nil, List.cons_append,
        List.nil_append, Option.some.injEq, Prod.mk.injEq, List.cons.injEq]
      constructor
      · intro h
        cases hpp : Spec.parseProps m r0 with
        | none => rw [hpp] at h; simp at h
        | some y =>
          obtain ⟨raw, payload⟩ := y
          rw [hpp] at h
          simp only [Option.bind_some, Option.some.injEq, Prod.mk.injEq, and_true] at h
          exact ⟨name, l, cf, k1, k2, r0, raw, payload, ⟨rfl, rfl, rfl, rfl, rfl, rfl⟩, hpp, h.symm⟩
      · rintro ⟨name', l', cf', k1', k2', r0', raw', payload', ⟨rfl, rfl, rfl, rfl, rfl, rfl⟩, hp, rfl⟩
        rw [hp]
        rfl

theorem fieldsOf5_connect_iff (m : Bool) (flags : UInt8) (b : Bytes) (fs : List Spec.Field) :
    fieldsOf5 m .connect flags b = some fs ↔
      ∃ name level cf k1 k2 r0 raw payload f cid wpo wt wm us pw,
        Spec.lenPrefixed b = some (name, level :: cf :: k1 :: k2 :: r0) ∧
        Spec.parseProps m r0 = some (raw, payload) ∧
        Spec.connectFlags? cf = some f ∧
        ConnSplit5 m f.will f.username f.password payload cid wpo wt wm us pw [] ∧
        fs = [.val (.str name), .val (.byte level), .val (.byte cf), .val (.u16 (be16 k1 k2)),
          .props raw, .val (.str cid), propsField wpo, V3.strField wt, V3.binField wm,
          V3.strField us, V3.binField pw] := by
  unfold fieldsOf5 Spec.fieldsV5
  simp only [Option.bind_eq_bind, Option.bind_eq_some_iff, parseBody_connectHead5]
  constructor
  · rintro ⟨fs0, ⟨name, level, cf, k1, k2, r0, raw, payload, hl, hpp, rfl⟩, h⟩
    simp only [Option.bind_eq_some_iff, parseBody_connectPayload5, Option.some.injEq] at h
    obtain ⟨f, hf, ps, ⟨cid, wpo, wt, wm, us, pw, hs, rfl⟩, rfl⟩ := h
    exact ⟨name, level, cf, k1, k2, r0, raw, payload, f, cid, wpo, wt, wm, us, pw, hl, hpp, hf, hs, rfl⟩
  · rintro ⟨name, level, cf, k1, k2, r0, raw, payload, f, cid, wpo, wt, wm, us, pw, hl, hpp, hf, hs, rfl⟩
    refine ⟨_, ⟨name, level, cf, k1, k2, r0, raw, payload, hl, hpp, rfl⟩, ?_⟩
    simp only [Option.bind_eq_some_iff, parseBody_connectPayload5, Option.some.injEq]
    exact ⟨f, hf, _, ⟨cid, wpo, wt, wm, us, pw, hs, rfl⟩, rfl⟩

theorem optProps_false (m : Bool) (bs : Bytes) (o : Option (List Spec.RawProp)) (r : Bytes) :
    optProps m false bs = some (o, r) ↔ o = none ∧ r = bs := by
  simp only [optProps, Bool.false_eq_true, if_false, Option.some.injEq, Prod.mk.injEq]
  constructor
  · rintro ⟨rfl, rfl⟩; exact ⟨rfl, rfl⟩
  · rintro ⟨rfl, rfl⟩; exact ⟨rfl, rfl⟩

theorem optProps_true (m : Bool) (bs : Bytes) (o : Option (List Spec.RawProp)) (r : Bytes) :
    optProps m true bs = some (o, r) ↔ ∃ raw, Spec.parseProps m bs = some (raw, r) ∧ o = some raw := by
  simp only [optProps, if_true, Option.map_eq_some_iff, Prod.mk.injEq]
  constructor
  · rintro ⟨⟨raw, r'⟩, hp, rfl, rfl⟩; exact ⟨raw, hp, rfl⟩
  · rintro ⟨raw, hp, rfl⟩; exact ⟨(raw, r), hp, rfl, rfl⟩

theorem optLP_false (bs : Bytes) (o : Option Bytes) (r : Bytes) :
    V3.optLP false bs = some (o, r) ↔ o = none ∧ r = bs := by
  simp only [V3.optLP, Bool.false_eq_true, if_false, Option.some.injEq, Prod.mk.injEq]
  constructor
  · rintro ⟨rfl, rfl⟩; exact ⟨rfl, rfl⟩
  · rintro ⟨rfl, rfl⟩; exact ⟨rfl, rfl⟩

theorem optLP_true (bs : Bytes) (o : Option Bytes) (r : Bytes) :
    V3.optLP true bs = some (o, r) ↔ ∃ s, Spec.lenPrefixed bs = some (s, r) ∧ o = some s := by
  simp only [V3.optLP, if_true, Option.map_eq_some_iff, Prod.mk.injEq]
  constructor
  · rintro ⟨⟨s, r'⟩, hp, rfl, rfl⟩; exact ⟨s, hp, rfl⟩
  · rintro ⟨s, hp, rfl⟩; exact ⟨(s, r), hp, rfl, rfl⟩

theorem projectV5_connect (flags : UInt8) (name : Bytes) (level cf : UInt8) (ka : UInt16)
    (raw : List Spec.RawProp) (cid : Bytes) (wp wt wm us pw : Spec.Field) :
    Spec.projectV5 .connect flags [.val (.str name), .val (.byte level), .val (.byte cf),
        .val (.u16 ka), .props raw, .val (.str cid), wp, wt, wm, us, pw] =
      some ⟨.connect (Connect.mk .v500 (Spec.bit cf 1) ka (Spec.toProps raw) cid
        (wt.str?.bind fun topic => wm.bin?.bind fun payload =>
          some (mkWill5 cf topic payload wp.toProps))
        us.str? pw.bin?), []⟩ := rfl

theorem protocols_v500 (name : Bytes) (level : UInt8) :
    (Spec.protocols.any fun x => x.1 == name && x.2.1 == level && x.2.2 == Protocol.v500) = true ↔
      name = MQTTN ∧ level = 5 := by
  simp only [Spec.protocols, List.any_cons, List.any_nil, Bool.or_false, MQTTN]
  have h1 : (Protocol.v310 == Protocol.v500) = false := by decide
  have h2 : (Protocol.v311 == Protocol.v500) = false := by decide
  have h3 : (Protocol.v500 == Protocol.v500) = true := by decide
  simp only [h1, h2, h3, Bool.and_false, Bool.false_or, Bool.and_true, Bool.and_eq_true, beq_iff_eq]
  constructor
  · rintro ⟨rfl, rfl⟩; exact ⟨rfl, rfl⟩
  · rintro ⟨rfl, rfl⟩; exact ⟨rfl, rfl⟩

theorem validV5_connect (flags : UInt8) (name : Bytes) (level cf : UInt8) (ka : UInt16)
    (raw : List Spec.RawProp) (cid : Bytes) (wp wt wm us pw : Spec.Field) :
    Spec.validV5 .connect flags [.val (.str name), .val (.byte level), .val (.byte cf),
        .val (.u16 ka), .props raw, .val (.str cid), wp, wt, wm, us, pw] = true ↔
      (Utf8.valid name = true ∧ (Spec.Field.props raw).textOk = true ∧ Utf8.valid cid = true ∧
        wp.textOk = true ∧ wt.textOk = true ∧ wm.textOk = true ∧ us.textOk = true ∧
        pw.textOk = true) ∧
      (name = MQTTN ∧ level = 5) ∧ (Spec.Field.props raw).propsOk (some .connect) = true ∧
      wp.propsOk none = true ∧ wt.str?.all Spec.isTopicName = true ∧
      Spec.payloadOk wp (wm.bin?.getD []) = true := by
  simp only [Spec.validV5, List.all_cons, List.all_nil, Bool.and_true, Bool.and_eq_true,
    textOk_str_field, textOk_byte, textOk_u16, true_and]
  rw [← protocols_v500 name level]
  constructor
  · rintro ⟨⟨h1, h2, h3, h4, h5, h6, h7, h8⟩, ⟨⟨⟨hp, h9⟩, h10⟩, h11⟩, h12⟩
    exact ⟨⟨h1, h2, h3, h4, h5, h6, h7, h8⟩, hp, h9, h10, h11, h12⟩
  · rintro ⟨⟨h1, h2, h3, h4, h5, h6, h7, h8⟩, hp, h9, h10, h11, h12⟩
    exact ⟨⟨h1, h2, h3, h4, h5, h6, h7, h8⟩, ⟨⟨⟨hp, h9⟩, h10⟩, h11⟩, h12⟩

theorem payloadOk_props {m : Bool} {bs : Bytes} {raw : List Spec.RawProp} {rest : Bytes}
    (hp : Spec.parseProps m bs = some (raw, rest)) (hnr : StrictNR (raw.map (·.1))) (payload : Bytes) :
    Spec.payloadOk (.props raw) payload = true ↔
      ((Spec.toProps raw).get 0x01 = some (.byte 1) → Utf8.valid payload = true) := by
  obtain ⟨N, k, r, -, -, -, ht, -⟩ := (parseProps_iff _ _ _ _).mp hp
  rw [toProps_get_pfi ht hnr]
  simp only [Spec.payloadOk, Spec.Field.props?, Option.getD_some, Bool.or_eq_true,
    Bool.not_eq_true']
  constructor
  · intro h hmem
    rcases h with h | h
    · have : raw.contains ((1 : UInt8), [Spec.Scalar.byte 1]) = true := by simpa using hmem
      rw [this] at h; cases h
    · exact h
  · intro h
    by_cases hmem : ((1 : UInt8), [Spec.Scalar.byte 1]) ∈ raw
    · exact .inr (h hmem)
    · left; simpa using hmem

theorem connectSpec (m : Bool) (flags : UInt8) (b : Bytes) (sp : Spec.PacketV5) :
    specBody5 m .connect flags b = some sp ↔
      ∃ x, ConnectShape (SpecR m (some .connect)) (SpecR m none) b x ∧ sp = ⟨.connect x, []⟩ := by
  rw [specBody5_eq_some_iff]
  constructor
  · rintro ⟨fs, hf, hv, hpj⟩
    obtain ⟨name, level, cf, k1, k2, r0, raw, payload, f, cid, wpo, wt, wm, us, pw, hl, hpp, hcf, hs,
      rfl⟩ := (fieldsOf5_connect_iff m flags b fs).mp hf
    rw [validV5_connect] at hv
    obtain ⟨⟨-, hptx, hvcid, hwptx, -, -, hustx, -⟩, ⟨rfl, rfl⟩, hpo, hwpo, hwt, hpay⟩ := hv
    rw [projectV5_connect] at hpj
    obtain ⟨hb0, hq3, hq0, rfl⟩ := (V3.connectFlags_iff cf f).mp hcf
    obtain ⟨r2, ra, rb, r3, r4, hlc, h0, hw1, hw2, hu, hp⟩ := hs
    simp only [] at h0 hw1 hw2 hu hp
    obtain ⟨hok, hnr⟩ := (specR_valid (some .connect) (by simp) raw).mp ⟨hpo, hptx⟩
    have husv : ∀ u ∈ us, Utf8.valid u = true := (V3.strField_textOk us).mp hustx
    have hsp := (Option.some.inj hpj).symm
    cases hw : Spec.bit cf 2 with
    | false =>
      rw [hw] at h0 hw1 hw2
      obtain ⟨rfl, rfl⟩ := (optProps_false _ _ _ _).mp h0
      obtain ⟨rfl, rfl⟩ := (optLP_false _ _ _).mp hw1
      obtain ⟨rfl, rfl⟩ := (optLP_false _ _ _).mp hw2
      refine ⟨_, ⟨cf, k1, k2, r0, _, payload, cid, _, none, _, us, r4, pw, hl, hb0, hq3, hq0,
        ⟨raw, hpp, hok, hnr, rfl⟩, hlc, hvcid, .inl ⟨hw, rfl, rfl⟩, hu, husv, hp, rfl⟩, ?_⟩
      rw [hsp]
      simp only [V3.strField_str, V3.binField_bin, Option.bind_none]
    | true =>
      rw [hw] at h0 hw1 hw2
      obtain ⟨wraw, hppw, rfl⟩ := (optProps_true _ _ _ _).mp h0
      obtain ⟨topic, hl1, rfl⟩ := (optLP_true _ _ _).mp hw1
      obtain ⟨wpay, hl2, rfl⟩ := (optLP_true _ _ _).mp hw2
      obtain ⟨hokw, hnrw⟩ := (specR_valid none (by simp) wraw).mp ⟨hwpo, hwptx⟩
      have htn : Spec.isTopicName topic = true := by
        simpa [V3.strField, Spec.Field.str?] using hwt
      have hpay' : Spec.payloadOk (.props wraw) wpay = true := hpay
      refine ⟨_, ⟨cf, k1, k2, r0, _, payload, cid, r2, some (mkWill5 cf topic wpay (Spec.toProps wraw)),
        r3, us, r4, pw, hl, hb0, hq3, hq0, ⟨raw, hpp, hok, hnr, rfl⟩, hlc, hvcid,
        .inr ⟨hw, _, ra, topic, rb, wpay, ⟨wraw, hppw, hokw, hnrw, rfl⟩, hl1, htn, hl2,
          (payloadOk_props hppw hnrw wpay).mp hpay', rfl⟩, hu, husv, hp, rfl⟩, ?_⟩
      rw [hsp]
      simp only [V3.strField_str, V3.binField_bin, Option.bind_some]
      rfl
  · rintro ⟨x, ⟨cf, k1, k2, r0, ps, r1, cid, r2, will, r3, us, r4, pw, hl, hb0, hq3, hq0,
      ⟨raw, hpp, hok, hnr, rfl⟩, hlc, hvcid, hwp, hu, husv, hp, rfl⟩, rfl⟩
    obtain ⟨hpo, hptx⟩ := (specR_valid (some .connect) (by simp) raw).mpr ⟨hok, hnr⟩
    have hcf := (V3.connectFlags_iff cf _).mpr ⟨hb0, hq3, hq0, rfl⟩
    have hustx := (V3.strField_textOk us).mpr husv
    rcases hwp with ⟨hw, rfl, rfl⟩ | ⟨hw, wps, ra, topic, rb, wpay, ⟨wraw, hppw, hokw, hnrw, rfl⟩, hl1, htn,
      hl2, hutf, rfl⟩
    · refine ⟨_, (fieldsOf5_connect_iff m flags b _).mpr ⟨MQTTN, 5, cf, k1, k2, r0, raw, r1, _, cid,
        none, none, none, us, pw, hl, hpp, hcf, ⟨r3, r3, r3, r3, r4, hlc, ?_, ?_, ?_, hu, hp⟩, rfl⟩, ?_, ?_⟩
      · show optProps m (Spec.bit cf 2) r3 = _
        rw [hw]; exact (optProps_false _ _ _ _).mpr ⟨rfl, rfl⟩
      · show V3.optLP (Spec.bit cf 2) r3 = _
        rw [hw]; exact (optLP_false _ _ _).mpr ⟨rfl, rfl⟩
      · show V3.optLP (Spec.bit cf 2) r3 = _
        rw [hw]; exact (optLP_false _ _ _).mpr ⟨rfl, rfl⟩
      · rw [validV5_connect]
        refine ⟨⟨by decide, hptx, hvcid, rfl, rfl, rfl, hustx, V3.binField_textOk pw⟩, ⟨rfl, rfl⟩, hpo,
          rfl, rfl, rfl⟩
      · rw [projectV5_connect]
        simp only [V3.strField_str, V3.binField_bin, Option.bind_none]
    · obtain ⟨hwpo, hwptx⟩ := (specR_valid none (by simp) wraw).mpr ⟨hokw, hnrw⟩
      refine ⟨_, (fieldsOf5_connect_iff m flags b _).mpr ⟨MQTTN, 5, cf, k1, k2, r0, raw, r1, _, cid,
        some wraw, some topic, some wpay, us, pw, hl, hpp, hcf,
        ⟨r2, ra, rb, r3, r4, hlc, ?_, ?_, ?_, hu, hp⟩, rfl⟩, ?_, ?_⟩
      · show optProps m (Spec.bit cf 2) r2 = _
        rw [hw]; exact (optProps_true _ _ _ _).mpr ⟨wraw, hppw, rfl⟩
      · show V3.optLP (Spec.bit cf 2) ra = _
        rw [hw]; exact (optLP_true _ _ _).mpr ⟨topic, hl1, rfl⟩
      · show V3.optLP (Spec.bit cf 2) rb = _
        rw [hw]; exact (optLP_true _ _ _).mpr ⟨wpay, hl2, rfl⟩
      · rw [validV5_connect]
        refine ⟨⟨by decide, hptx, hvcid, hwptx, ?_, rfl, hustx, V3.binField_textOk pw⟩, ⟨rfl, rfl⟩, hpo,
          hwpo, ?_, ?_⟩
        · exact (V3.strField_textOk (some topic)).mpr (fun x hx => by
            cases hx; exact V3.isTopicName_valid htn)
        · simpa [V3.strField, Spec.Field.str?] using htn
        · exact (payloadOk_props hppw hnrw wpay).mpr hutf
      · rw [projectV5_connect]
        simp only [V3.strField_str, V3.binField_bin, Option.bind_some]
        rfl

end Mqtt.V5
