import Proofs.V3Compose
import Proofs.V5Compose
import Properties.C15
import Properties.C16
import Properties.C18

namespace Mqtt
-- lemmas for the error-classification theorems (C20)

/-! ### the strict decoder on a refused header / an over-long length -/

namespace Poll
variable {H P E : Type}

theorem spec_header_error (fam : Family H P E) (cb : UInt8) (bs rest : Bytes) (n k : Nat) (e : E)
    (term : Term)
    (hlen : decodeVarIntAux (fam.ofCommon .invalidVarByteInt) 0 0 bs = .ok (n, k) rest)
    (hrow : fam.newWith cb n = .error e) :
    (spec fam (cb :: bs) term).1 = .err e := by
  rw [spec_cons, hlen]
  simp only [finishHeader, hrow]

theorem spec_length_error (fam : Family H P E) (cb : UInt8) (bs : Bytes) (e : E) (term : Term)
    (hlen : decodeVarIntAux (fam.ofCommon .invalidVarByteInt) 0 0 bs = .err e) :
    spec fam (cb :: bs) term = (.err e, 5) := by
  rw [spec_cons, hlen]

end Poll

theorem decodeVarIntAux_overlong {ε} (inv : ε) (b0 b1 b2 b3 : UInt8) (t : Bytes)
    (h0 : 128 ≤ b0.toNat) (h1 : 128 ≤ b1.toNat) (h2 : 128 ≤ b2.toNat) (h3 : 128 ≤ b3.toNat) :
    decodeVarIntAux inv 0 0 (b0 :: b1 :: b2 :: b3 :: t) = .err inv := by
  have n0 : ¬ b0.toNat < 128 := by omega
  have n1 : ¬ b1.toNat < 128 := by omega
  have n2 : ¬ b2.toNat < 128 := by omega
  have n3 : ¬ b3.toNat < 128 := by omega
  simp [decodeVarIntAux, n0, n1, n2, n3]

/-! ### the generated header tables -/

/-- Classification of one row of a header table. -/
def rowClass : Except Error Gen.HeaderRow → Nat
  | .ok _ => 0
  | .error .invalidHeader => 1
  | .error (.invalidQos 3) => 2
  | .error _ => 3

def rowChk (i : Nat) (r3 r5 : Except Error Gen.HeaderRow) : Bool :=
  decide (rowClass r3 ≤ 2) &&
  (!(i / 16 = 0 ∨ i / 16 = 15) || rowClass r3 == 1) &&
  (!(i / 16 = 3 ∧ i / 2 % 4 = 3) || rowClass r3 == 2) &&
  (!(i / 16 = 0) || rowClass r5 == 1) &&
  (!(i / 16 = 3 ∧ i / 2 % 4 = 3) || rowClass r5 == 2) &&
  (!(decide (i / 16 ≠ 3) && decide (i / 16 ≠ 0) &&
      decide (i % 16 ≠ (if i / 16 = 6 ∨ i / 16 = 8 ∨ i / 16 = 10 then 2 else 0))) ||
      (rowClass r3 == 1 && rowClass r5 == 1))

set_option maxRecDepth 100000 in
theorem header_rows_chk : ∀ i : Fin 256,
    rowChk i.val (Gen.headerV3.getD i.val (.error .invalidHeader))
      (Gen.headerV5.getD i.val (.error .invalidHeader)) = true := by decide

theorem rowClass_v3 (cb : UInt8) (n : Nat) :
    (rowClass (Gen.headerV3.getD cb.toNat (.error .invalidHeader)) = 0 → ∃ h, V3.Header.newWith cb n = .ok h) ∧
    (rowClass (Gen.headerV3.getD cb.toNat (.error .invalidHeader)) = 1 → V3.Header.newWith cb n = .error .invalidHeader) ∧
    (rowClass (Gen.headerV3.getD cb.toNat (.error .invalidHeader)) = 2 → V3.Header.newWith cb n = .error (.invalidQos 3)) := by
  unfold V3.Header.newWith
  generalize Gen.headerV3.getD cb.toNat (.error .invalidHeader) = row
  unfold rowClass
  split <;> simp

theorem rowClass_v5 (cb : UInt8) (n : Nat) :
    (rowClass (Gen.headerV5.getD cb.toNat (.error .invalidHeader)) = 1 → V5.Header.newWith cb n = .error (.common .invalidHeader)) ∧
    (rowClass (Gen.headerV5.getD cb.toNat (.error .invalidHeader)) = 2 → V5.Header.newWith cb n = .error (.common (.invalidQos 3))) := by
  unfold V5.Header.newWith
  generalize Gen.headerV5.getD cb.toNat (.error .invalidHeader) = row
  unfold rowClass
  split <;> simp

/-! ### subscription options, requested QoS: all 256 bytes -/

/-- `x = .error e`, decidably (there is no `DecidableEq (Except ε α)` without one on `α`). -/
def isErrorWith {ε α : Type} [DecidableEq ε] (x : Except ε α) (e : ε) : Bool :=
  match x with
  | .error e' => decide (e' = e)
  | .ok _ => false

theorem eq_error_of_isErrorWith {ε α : Type} [DecidableEq ε] {x : Except ε α} {e : ε}
    (h : isErrorWith x e = true) : x = .error e := by
  cases x with
  | error e' => simp only [isErrorWith, decide_eq_true_eq] at h; rw [h]
  | ok a => cases h

set_option maxRecDepth 100000 in
theorem subOpts_chk : ∀ i : Fin 256,
    ((UInt8.ofNat i.val) &&& 0b11000000 ≠ 0 ∨ (UInt8.ofNat i.val) &&& 0b11 = 3 ∨
        ((UInt8.ofNat i.val) &&& 0b110000) >>> 4 = 3 →
      isErrorWith (V5.decodeSubOpts (UInt8.ofNat i.val))
        (.invalidSubscriptionOption (UInt8.ofNat i.val)) = true) ∧
    (2 < (UInt8.ofNat i.val).toNat →
      isErrorWith (qosFromU8 (UInt8.ofNat i.val)) (.invalidQos (UInt8.ofNat i.val)) = true) := by
  decide

end Mqtt
