import Proofs.Fields
import Proofs.V3RoundTrip
import Mqtt.V5.Valid
import Mqtt.V5.Decode

namespace Mqtt.V5
-- generic property-layer lemmas (encode/decode round trip by induction along `allowed`,
-- lengths), proved once for all identifier lists

/-! ### basics -/

theorem Props.ext' {a b : Props} (hg : ∀ i, a.get i = b.get i) (hu : a.user = b.user) : a = b := by
  obtain ⟨ga, ua⟩ := a
  obtain ⟨gb, ub⟩ := b
  simp only at hg hu
  have : ga = gb := funext hg
  subst this hu
  rfl

/-- What `encode_properties!` writes for identifier `i`. -/
def Props.emit (ps : Props) (i : UInt8) : Bytes :=
  match ps.get i with
  | none => []
  | some v => encodeProp i v

theorem Props.encode_eq (allowed : List UInt8) (ps : Props) :
    ps.encode allowed = (ps.bodyLen allowed).map (fun n =>
      writeVarInt n ++ allowed.flatMap ps.emit ++ encodeUser ps.user) := by
  unfold Props.encode
  cases ps.bodyLen allowed <;> rfl

@[simp] theorem liftC_apply {α} (p : Parser Error α) (bs : Bytes) :
    liftC p bs = (p bs).mapErr ErrorV5.common := rfl

@[simp] theorem Res.mapErr_ok {ε ε' α} (f : ε → ε') (a : α) (r : Bytes) :
    (Res.ok a r : Res ε α).mapErr f = .ok a r := rfl

/-! ### lengths -/

theorem propSize_ok_length (i : UInt8) (v : PropVal) (sz : Nat) (h : propSize v = .ok sz) :
    (encodeProp i v).length = sz := by
  cases v with
  | varint n =>
    simp only [propSize, varIntLen_closed] at h
    by_cases hn : n < 268435456
    · simp only [hn, if_true, Except.ok.injEq] at h
      simp only [encodeProp, List.length_cons, writeVarInt_length n hn]
      omega
    · simp [hn] at h
  | _ =>
    simp only [propSize, Except.ok.injEq] at h
    simp [encodeProp, ← h] <;> omega

theorem encodeUser_length (u : List (Bytes × Bytes)) : (encodeUser u).length = userSize u := by
  induction u with
  | nil => rfl
  | cons x xs ih =>
    obtain ⟨n, v⟩ := x
    simp only [encodeUser, userSize] at ih ⊢
    simp only [List.flatMap_cons, List.length_append, List.length_cons, writeBytes_length, ih,
      List.map_cons, List.sum_cons]
    omega

theorem bodyLen_fold (ps : Props) (allowed : List UInt8) (init n : Nat)
    (h : allowed.foldlM (fun acc i =>
      match ps.get i with
      | none => (.ok acc : Except String Nat)
      | some v => (propSize v).map (acc + ·)) init = .ok n) :
    n = init + (allowed.flatMap ps.emit).length := by
  induction allowed generalizing init with
  | nil =>
    simp only [List.foldlM_nil, pure, Except.pure, Except.ok.injEq] at h
    simp [h]
  | cons i rest ih =>
    rw [List.foldlM_cons] at h
    simp only [List.flatMap_cons, List.length_append, Props.emit]
    cases hg : ps.get i with
    | none =>
      simp only [hg, bind, Except.bind] at h
      have := ih init h
      simp only [List.length_nil]; omega
    | some v =>
      simp only [hg] at h
      cases hs : propSize v with
      | error e => simp [hs, bind, Except.bind, Except.map] at h
      | ok sz =>
        simp only [hs, Except.map, bind, Except.bind] at h
        have := ih (init + sz) h
        rw [propSize_ok_length i v sz hs]; omega

theorem Props.bodyLen_eq {allowed : List UInt8} {ps : Props} {n : Nat}
    (h : ps.bodyLen allowed = .ok n) :
    n = userSize ps.user + (allowed.flatMap ps.emit).length :=
  bodyLen_fold ps allowed _ n h

/-- C02 for the property layer. -/
theorem Props.write_what_they_report (allowed : List UInt8) (ps : Props) (enc : Bytes) (n : Nat)
    (he : ps.encode allowed = .ok enc) (hn : ps.bodyLen allowed = .ok n) (hlt : n < 268435456) :
    ps.encodeLen allowed = .ok enc.length ∧ enc.length = n + Spec.varIntSize n := by
  have hb := Props.bodyLen_eq hn
  rw [Props.encode_eq, hn] at he
  simp only [Except.map, Except.ok.injEq] at he
  subst he
  have hl : (writeVarInt n ++ List.flatMap ps.emit allowed ++ encodeUser ps.user).length =
      n + Spec.varIntSize n := by
    simp only [List.length_append, writeVarInt_length n hlt, encodeUser_length]; omega
  refine ⟨?_, hl⟩
  simp only [Props.encodeLen, hn, varIntLen_closed, hlt, if_true, bind, Except.bind, pure,
    Except.pure, hl]


/-! ### one property value -/

theorem propSize_ge_two (v : PropVal) (sz : Nat) (h : propSize v = .ok sz) : 2 ≤ sz := by
  cases v with
  | varint n =>
    simp only [propSize, varIntLen_closed] at h
    by_cases hn : n < 268435456
    · simp only [hn, if_true, Except.ok.injEq] at h
      have : 1 ≤ Spec.varIntSize n := by
        unfold Spec.varIntSize
        repeat' split
        all_goals omega
      omega
    · simp [hn] at h
  | _ =>
    simp only [propSize, Except.ok.injEq] at h
    omega

/-- One `decode_property!` arm reads back what `encode_property!` wrote, and the size it adds
to the running length is the number of bytes written (identifier included). -/
theorem decodePropValue_encode (id : UInt8) (k : PropKind) (v : PropVal) (acc : Props) (t : Bytes)
    (hk : propKind id = some k) (hv : propValValid id v = true) (hacc : acc.get id = none) :
    ∃ body, encodeProp id v = id :: body ∧
      decodePropValue id k acc (body ++ t) = .ok v t ∧
      propSize v = .ok (1 + body.length) := by
  simp only [propValValid, hk] at hv
  cases k <;> cases v <;> simp only [Bool.false_eq_true] at hv
  case byte01.byte b =>
    refine ⟨[b], rfl, ?_, rfl⟩
    have hb : ¬ b > 1 := by simpa using hv
    simp [decodePropValue, hacc, hb]
  case qos01.byte b =>
    refine ⟨[b], rfl, ?_, rfl⟩
    simp only [Bool.and_eq_true, decide_eq_true_eq] at hv
    have hb : ¬ b > 1 := by simpa using hv.1
    have hc := codeOfByte_of_isVariant hv.2
    simp [decodePropValue, hacc, hb, hc]
  case u16.u16 x =>
    refine ⟨u16be x, rfl, ?_, rfl⟩
    simp [decodePropValue, hacc]
  case u32.u32 x =>
    refine ⟨u32be x, rfl, ?_, rfl⟩
    simp [decodePropValue, hacc]
  case str.str s =>
    refine ⟨writeBytes s, rfl, ?_, by simp [propSize]; omega⟩
    simp [decodePropValue, hacc, hv]
  case topic.str s =>
    refine ⟨writeBytes s, rfl, ?_, by simp [propSize]; omega⟩
    simp [decodePropValue, hacc, validTopicName_text hv, topicNameTryFrom_valid hv]
  case bin.bin s =>
    refine ⟨writeBytes s, rfl, ?_, by simp [propSize]; omega⟩
    simp [decodePropValue, hacc, readBytes_writeBytes_valid _ _ hv]
  case varint.varint n =>
    have hn : n < 268435456 := by simpa using hv
    refine ⟨writeVarInt n, rfl, ?_, ?_⟩
    · simp [decodePropValue, hacc, decodeVarInt_write n hn, hn]
    · simp [propSize, varIntLen_closed, hn, writeVarInt_length n hn]

/-! ### the decode loop -/

theorem codeOfByte_user : codeOfByte .propertyId USER_PROPERTY = some USER_PROPERTY := by decide

theorem userSize_cons (n v : Bytes) (u : List (Bytes × Bytes)) :
    userSize ((n, v) :: u) = 1 + 4 + n.length + v.length + userSize u := by
  simp only [userSize, List.length_cons, List.map_cons, List.sum_cons]; omega

/-- Second phase: the user properties, appended to the accumulated list in order. -/
theorem decodePropsLoop_user (ctx : PropCtx) (allowed : List UInt8) (N : Nat)
    (hnu : allowed.contains USER_PROPERTY = false) (g : UInt8 → Option PropVal) (t : Bytes) :
    ∀ (todo done : List (Bytes × Bytes)) (fuel len : Nat),
      (∀ x ∈ todo, validText x.1 = true ∧ validText x.2 = true) →
      len + userSize todo = N → N + 1 ≤ fuel + len →
      decodePropsLoop ctx allowed N fuel len ⟨g, done⟩ (encodeUser todo ++ t) =
        .ok ⟨g, done ++ todo⟩ t := by
  intro todo
  induction todo with
  | nil =>
    intro done fuel len _ hlen hfuel
    obtain ⟨f, rfl⟩ : ∃ f, fuel = f + 1 := ⟨fuel - 1, by simp only [userSize] at hlen; omega⟩
    have h1 : ¬ N > len := by simp [userSize] at hlen; omega
    have h2 : ¬ N ≠ len := by simp [userSize] at hlen; omega
    simp [decodePropsLoop, h1, h2, encodeUser]
  | cons x xs ih =>
    intro done fuel len hv hlen hfuel
    obtain ⟨n, v⟩ := x
    rw [userSize_cons] at hlen
    obtain ⟨f, rfl⟩ : ∃ f, fuel = f + 1 := ⟨fuel - 1, by omega⟩
    have h1 : N > len := by omega
    obtain ⟨hn, hvv⟩ := hv (n, v) (by simp)
    have hrec := ih (done ++ [(n, v)]) f (len + (1 + 4 + n.length + v.length))
      (fun x hx => hv x (by simp [hx])) (by omega) (by omega)
    have hne : (USER_PROPERTY == USER_PROPERTY) = true := by decide
    simp only [encodeUser, List.flatMap_cons, List.cons_append, List.append_assoc] at hrec ⊢
    rw [decodePropsLoop]
    simp only [h1, if_true, Parser.bind_apply, liftC_apply, readU8_cons, Res.mapErr_ok, Res.bind_ok,
      codeOfByte_user, hnu, Bool.false_eq_true, if_false,
      readString_writeBytes_valid _ _ hn, readString_writeBytes_valid _ _ hvv, Props.pushUser]
    rw [hrec]
    simp

/-- First phase: the listed properties, in list order. -/
theorem decodePropsLoop_listed (ctx : PropCtx) (allowed : List UInt8) (N : Nat) (ps : Props)
    (t : Bytes)
    (hinfo : ∀ i ∈ allowed, (propKind i).isSome = true ∧ codeOfByte .propertyId i = some i)
    (hnu : allowed.contains USER_PROPERTY = false)
    (hvalid : ∀ i ∈ allowed, ∀ v, ps.get i = some v → propValValid i v = true)
    (huser : ∀ x ∈ ps.user, validText x.1 = true ∧ validText x.2 = true) :
    ∀ (todo : List UInt8) (fuel len : Nat) (acc : Props),
      (∀ i ∈ todo, i ∈ allowed) → todo.Nodup →
      (∀ i ∈ todo, acc.get i = none) → acc.user = [] →
      (∀ j, j ∉ todo → acc.get j = ps.get j) →
      len + (todo.flatMap ps.emit).length + userSize ps.user = N → N + 1 ≤ fuel + len →
      decodePropsLoop ctx allowed N fuel len acc
        (todo.flatMap ps.emit ++ (encodeUser ps.user ++ t)) = .ok ps t := by
  intro todo
  induction todo with
  | nil =>
    intro fuel len acc _ _ _ hu hag hlen hfuel
    obtain ⟨g, u⟩ := acc
    simp only at hu hag
    subst hu
    have hg : g = ps.get := funext (fun j => hag j (by simp))
    subst hg
    simp only [List.flatMap_nil, List.nil_append, List.length_nil, Nat.add_zero] at hlen ⊢
    rw [decodePropsLoop_user ctx allowed N hnu ps.get t ps.user [] fuel len huser hlen hfuel]
    simp
  | cons i rest ih =>
    intro fuel len acc hsub hnd hnone hu hag hlen hfuel
    have hi_al := hsub i (by simp)
    obtain ⟨hnd1, hnd2⟩ := List.nodup_cons.mp hnd
    cases hg : ps.get i with
    | none =>
      have hemit : ps.emit i = [] := by simp [Props.emit, hg]
      simp only [List.flatMap_cons, hemit, List.nil_append] at hlen ⊢
      refine ih fuel len acc (fun j hj => hsub j (by simp [hj])) hnd2
        (fun j hj => hnone j (by simp [hj])) hu ?_ hlen hfuel
      intro j hj
      by_cases hji : j = i
      · subst hji; rw [hnone j (by simp), hg]
      · exact hag j (by simp [hji, hj])
    | some v =>
      obtain ⟨hks, hcode⟩ := hinfo i hi_al
      obtain ⟨k, hk⟩ := Option.isSome_iff_exists.mp hks
      have hval := hvalid i hi_al v hg
      obtain ⟨body, hbody, hdec, hsz⟩ :=
        decodePropValue_encode i k v acc (rest.flatMap ps.emit ++ (encodeUser ps.user ++ t)) hk hval
          (hnone i (by simp))
      have hemit : ps.emit i = i :: body := by simp [Props.emit, hg, hbody]
      simp only [List.flatMap_cons, hemit, List.length_append, List.length_cons] at hlen
      obtain ⟨f, rfl⟩ : ∃ f, fuel = f + 1 := ⟨fuel - 1, by omega⟩
      have h1 : N > len := by omega
      have hcont : allowed.contains i = true := by simpa using hi_al
      have hrec := ih f (len + (1 + body.length)) (acc.set i v)
        (fun j hj => hsub j (by simp [hj])) hnd2 ?_ hu ?_ (by omega) (by omega)
      · simp only [List.flatMap_cons, hemit, List.cons_append, List.append_assoc]
        rw [decodePropsLoop]
        simp only [h1, if_true, Parser.bind_apply, liftC_apply, readU8_cons, Res.mapErr_ok,
          Res.bind_ok, hcode, hcont, hk, hdec, hsz]
        exact hrec
      · intro j hj
        have hji : j ≠ i := fun h => hnd1 (h ▸ hj)
        simp only [Props.set, hji, if_false]
        exact hnone j (by simp [hj])
      · intro j hj
        by_cases hji : j = i
        · subst hji; simp [Props.set, hg]
        · simp only [Props.set, hji, if_false]
          exact hag j (by simp [hji, hj])

/-! ### the identifier lists of the code -/

/-- What the round trip needs from an identifier list: no repetition, every identifier has a
decode arm and is a known property identifier, and the user property is not listed. -/
structure GoodList (allowed : List UInt8) : Prop where
  nodup : allowed.Nodup
  info : ∀ i ∈ allowed, (propKind i).isSome = true ∧ codeOfByte .propertyId i = some i
  nouser : allowed.contains USER_PROPERTY = false

theorem goodList_of_mem {allowed : List UInt8}
    (hal : allowed ∈ [connectProps, willProps, connackProps, disconnectProps, authProps,
      publishProps, ackProps, subscribeProps, unsubscribeProps]) : GoodList allowed := by
  simp only [List.mem_cons, List.not_mem_nil, or_false] at hal
  rcases hal with rfl | rfl | rfl | rfl | rfl | rfl | rfl | rfl | rfl <;>
    exact ⟨by decide, by decide, by decide⟩

/-- The property layer round trip, for any good identifier list. -/
theorem Props.decode_encode (ctx : PropCtx) (allowed : List UInt8) (hgood : GoodList allowed)
    (ps : Props) (hv : Props.valid allowed ps = true) (hwf : Props.wf allowed ps)
    (n : Nat) (hn : ps.bodyLen allowed = .ok n) (hlt : n < 268435456) (t : Bytes) :
    decodeProps ctx allowed
      (writeVarInt n ++ allowed.flatMap ps.emit ++ encodeUser ps.user ++ t) = .ok ps t := by
  have hb := Props.bodyLen_eq hn
  simp only [Props.valid, Bool.and_eq_true, List.all_eq_true] at hv
  obtain ⟨hv1, hv2⟩ := hv
  have hvalid : ∀ i ∈ allowed, ∀ v, ps.get i = some v → propValValid i v = true := by
    intro i hi v hg
    have := hv1 i hi
    simpa [hg] using this
  have huser : ∀ x ∈ ps.user, validText x.1 = true ∧ validText x.2 = true := by
    intro x hx
    have := hv2 x hx
    simpa using this
  have hloop := decodePropsLoop_listed ctx allowed n ps t hgood.info hgood.nouser hvalid huser
    allowed (n + 1) 0 Props.empty (fun _ h => h) hgood.nodup (fun _ _ => rfl) rfl
    (fun j hj => (hwf j hj).symm) (by omega) (by omega)
  simp only [decodeProps, List.append_assoc, Parser.bind_apply, liftC_apply,
    decodeVarInt_write n hlt, Res.mapErr_ok, Res.bind_ok]
  exact hloop

end Mqtt.V5

