import Mqtt.Utf8
import Spec.Topic

namespace Mqtt.Utf8

theorem byteLen_eq_spec (cs : List Char) : byteLen cs = Spec.utf8Len cs := rfl

theorem utf8EncodeChar_length (c : Char) : (String.utf8EncodeChar c).length = c.utf8Size := by
  simp

theorem encode_length (cs : List Char) : (encode cs).length = byteLen cs := by
  induction cs with
  | nil => rfl
  | cons c cs ih =>
    simp only [encode, List.flatMap_cons, List.length_append, byteLen, List.map_cons, List.sum_cons] at *
    rw [ih, utf8EncodeChar_length]

theorem encode_eq_core (cs : List Char) : (ByteArray.mk (encode cs).toArray) = cs.utf8Encode := by
  have h : ∀ l : List UInt8, ByteArray.mk l.toArray = l.toByteArray := by
    intro l
    have : (ByteArray.mk l.toArray).data = l.toByteArray.data := by simp [List.data_toByteArray]
    cases hb : l.toByteArray with
    | mk d => rw [hb] at this; simp at this; rw [this]
  simp [encode, List.utf8Encode, h]

theorem decode_encode (cs : List Char) : decode (encode cs) = some cs := by
  unfold decode
  rw [encode_eq_core, List.utf8Decode?_utf8Encode]
  simp

theorem encode_of_decode (bs : Bytes) (cs : List Char) (h : decode bs = some cs) : encode cs = bs := by
  unfold decode at h
  cases hd : (ByteArray.mk bs.toArray).utf8Decode? with
  | none => simp [hd] at h
  | some arr =>
    simp [hd] at h
    subst h
    have hs : ((ByteArray.mk bs.toArray).utf8Decode?).isSome := by simp [hd]
    have := ByteArray.utf8Encode_get_utf8Decode? (b := ByteArray.mk bs.toArray) (h := hs)
    simp [hd] at this
    have e := encode_eq_core arr.toList
    rw [this] at e
    have := congrArg (fun b => b.data.toList) e
    simpa using this

theorem valid_iff (bs : Bytes) : valid bs = true ↔ ∃ cs, encode cs = bs := by
  unfold valid
  constructor
  · intro h
    cases hd : decode bs with
    | none => simp [hd] at h
    | some cs => exact ⟨cs, encode_of_decode bs cs hd⟩
  · rintro ⟨cs, rfl⟩; simp [decode_encode]

end Mqtt.Utf8
