/-
  Mqtt.Utf8 — UTF-8 validity of byte strings, via core Lean's verified decoder
  (`ByteArray.utf8Decode?`, proved in `Init.Data.String` to accept exactly the
  encodings of lists of Unicode scalar values).  Stands for
  `simdutf8::basic::from_utf8(..).is_ok()` and for `str::chars()`; compared with
  simdutf8 and `std::str::from_utf8` by the `utf8` op of the correspondence check.
-/
import Mqtt.Basic

namespace Mqtt.Utf8

/-- `s.chars()` of the string whose bytes are `bs`; `none` iff not valid UTF-8. -/
def decode (bs : Bytes) : Option (List Char) :=
  (ByteArray.mk bs.toArray).utf8Decode?.map Array.toList

/-- `from_utf8(bs).is_ok()`. -/
def valid (bs : Bytes) : Bool := (decode bs).isSome

/-- `String::as_bytes` of the string with these chars. -/
def encode (cs : List Char) : Bytes := cs.flatMap String.utf8EncodeChar

/-- `str::len()` in bytes. -/
def byteLen (cs : List Char) : Nat := (cs.map Char.utf8Size).sum

end Mqtt.Utf8
