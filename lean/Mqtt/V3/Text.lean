/-
  Mqtt.V3.Text — the flat text form of v3 packets used on the line protocol
  (printed identically by the Rust harness), and its parser.
-/
import Mqtt.V3.Types

namespace Mqtt.V3
open Mqtt

def b01 (b : Bool) : String := if b then "1" else "0"
def optHex : Option Bytes → String
  | none => "~"
  | some b => hexOrDash b

def showWill : Option LastWill → String
  | none => "~"
  | some w => s!"w:{w.qos.toNat}:{b01 w.retain}:{hexOrDash w.topicName}:{hexOrDash w.message}"

def showQosPid : QosPid → String
  | .level0 => "0 ~"
  | .level1 p => s!"1 {p.val.toNat}"
  | .level2 p => s!"2 {p.val.toNat}"

def Packet.show : Packet → String
  | .connect c => s!"connect {c.protocol.level.toNat} {b01 c.cleanSession} {c.keepAlive.toNat} {hexOrDash c.clientId} {showWill c.lastWill} {optHex c.username} {optHex c.password}"
  | .connack c => s!"connack {b01 c.sessionPresent} {c.code.toNat}"
  | .publish p => s!"publish {b01 p.dup} {b01 p.retain} {showQosPid p.qosPid} {hexOrDash p.topicName} {hexOrDash p.payload}"
  | .puback p => s!"puback {p.val.toNat}"
  | .pubrec p => s!"pubrec {p.val.toNat}"
  | .pubrel p => s!"pubrel {p.val.toNat}"
  | .pubcomp p => s!"pubcomp {p.val.toNat}"
  | .unsuback p => s!"unsuback {p.val.toNat}"
  | .subscribe s => s!"subscribe {s.pid.val.toNat} {s.topics.length}" ++ String.join (s.topics.map fun (f, q) => s!" {hexOrDash f.text}:{q.toNat}")
  | .suback s => s!"suback {s.pid.val.toNat} {s.topics.length}" ++ String.join (s.topics.map fun c => s!" {c.toNat}")
  | .unsubscribe u => s!"unsubscribe {u.pid.val.toNat} {u.topics.length}" ++ String.join (u.topics.map fun f => s!" {hexOrDash f.text}")
  | .pingreq => "pingreq"
  | .pingresp => "pingresp"
  | .disconnect => "disconnect"

/-! ### parser (values that the Rust API cannot construct are reported as such) -/

def parseBool : String → Option Bool
  | "0" => some false
  | "1" => some true
  | _ => none

def parseOptHex (s : String) : Option (Option Bytes) :=
  if s = "~" then some none else (bytesOfHex s).map some

def parseU8 (s : String) : Option UInt8 := s.toNat?.bind fun n => if n < 256 then some (UInt8.ofNat n) else none
def parseU16 (s : String) : Option UInt16 := s.toNat?.bind fun n => if n < 65536 then some (UInt16.ofNat n) else none

/-- Why a textual packet cannot be built through the crate's public API. -/
inductive Build (α : Type)
  | ok (a : α)
  | unconstructible (why : String)   -- Pid(0), invalid topic name/filter, unknown code, …
  | syntax
  deriving Repr

def parsePid (s : String) : Build Pid :=
  match parseU16 s with
  | none => .syntax
  | some v => if v = 0 then .unconstructible "pid0" else .ok ⟨v⟩

def mkTopicName (bs : Bytes) : Build Bytes :=
  match topicNameTryFrom bs with
  | .ok b => .ok b
  | .error _ => .unconstructible "topicname"

def mkTopicFilter (bs : Bytes) : Build Topic.TopicFilter :=
  match topicFilterTryFrom false bs with
  | .ok f _ => .ok f
  | _ => .unconstructible "topicfilter"

def mkCode (k : Gen.CodeKind) (s : String) : Build UInt8 :=
  match parseU8 s with
  | none => .syntax
  | some d => if isVariant k d then .ok d else .unconstructible "code"

def mkText (o : Option Bytes) : Build Bytes :=
  match o with
  | none => .syntax
  | some b => if Utf8.valid b then .ok b else .unconstructible "string"

def Build.bind {α β} : Build α → (α → Build β) → Build β
  | .ok a, f => f a
  | .unconstructible w, _ => .unconstructible w
  | .syntax, _ => .syntax

instance : Monad Build where
  pure := .ok
  bind := Build.bind

def ofOpt {α} : Option α → Build α
  | some a => .ok a
  | none => .syntax

def parseWill (s : String) : Build (Option LastWill) :=
  if s = "~" then .ok none else
  match s.splitOn ":" with
  | ["w", q, r, t, m] => do
    let q ← mkCode .qos q
    let r ← ofOpt (parseBool r)
    let t ← mkText (bytesOfHex t)
    let t ← mkTopicName t
    let m ← ofOpt (bytesOfHex m)
    pure (some ⟨q, r, t, m⟩)
  | _ => .syntax

def parseProtocol : String → Build Protocol
  | "3" => .ok .v310
  | "4" => .ok .v311
  | "5" => .ok .v500
  | _ => .syntax

def parseQosPid (q pid : String) : Build QosPid :=
  match q with
  | "0" => if pid = "~" then .ok .level0 else .syntax
  | "1" => do let p ← parsePid pid; pure (.level1 p)
  | "2" => do let p ← parsePid pid; pure (.level2 p)
  | _ => .syntax

def mapM' {α β} (f : α → Build β) : List α → Build (List β)
  | [] => .ok []
  | a :: as => do let b ← f a; let bs ← mapM' f as; pure (b :: bs)

def parsePacket (toks : List String) : Build Packet :=
  match toks with
  | ["connect", p, c, k, cid, w, u, pw] => do
    let p ← parseProtocol p
    let c ← ofOpt (parseBool c)
    let k ← ofOpt (parseU16 k)
    let cid ← mkText (bytesOfHex cid)
    let w ← parseWill w
    let u ← ofOpt (parseOptHex u)
    let u ← (match u with
      | none => Build.ok none
      | some b => do let t ← mkText (some b); pure (some t))
    let pw ← ofOpt (parseOptHex pw)
    pure (.connect ⟨p, c, k, cid, w, u, pw⟩)
  | ["connack", s, c] => do
    let s ← ofOpt (parseBool s)
    let c ← mkCode .connectReturnV3 c
    pure (.connack ⟨s, c⟩)
  | ["publish", d, r, q, pid, t, pl] => do
    let d ← ofOpt (parseBool d)
    let r ← ofOpt (parseBool r)
    let qp ← parseQosPid q pid
    let t ← mkText (bytesOfHex t)
    let t ← mkTopicName t
    let pl ← ofOpt (bytesOfHex pl)
    pure (.publish ⟨d, r, qp, t, pl⟩)
  | ["puback", p] => do let p ← parsePid p; pure (.puback p)
  | ["pubrec", p] => do let p ← parsePid p; pure (.pubrec p)
  | ["pubrel", p] => do let p ← parsePid p; pure (.pubrel p)
  | ["pubcomp", p] => do let p ← parsePid p; pure (.pubcomp p)
  | ["unsuback", p] => do let p ← parsePid p; pure (.unsuback p)
  | "subscribe" :: p :: n :: rest => do
    let p ← parsePid p
    if n.toNat? != some rest.length then .syntax else
    let ts ← mapM' (fun (s : String) => match s.splitOn ":" with
      | [f, q] => do
        let f ← mkText (bytesOfHex f)
        let f ← mkTopicFilter f
        let q ← mkCode .qos q
        pure (f, q)
      | _ => .syntax) rest
    pure (.subscribe ⟨p, ts⟩)
  | "suback" :: p :: n :: rest => do
    let p ← parsePid p
    if n.toNat? != some rest.length then .syntax else
    let cs ← mapM' (mkCode .subscribeReturnV3) rest
    pure (.suback ⟨p, cs⟩)
  | "unsubscribe" :: p :: n :: rest => do
    let p ← parsePid p
    if n.toNat? != some rest.length then .syntax else
    let ts ← mapM' (fun (s : String) => do
      let f ← mkText (bytesOfHex s)
      mkTopicFilter f) rest
    pure (.unsubscribe ⟨p, ts⟩)
  | ["pingreq"] => .ok .pingreq
  | ["pingresp"] => .ok .pingresp
  | ["disconnect"] => .ok .disconnect
  | _ => .syntax

end Mqtt.V3
