/-
  Mqtt.V3.Decode — body decoders (src/v3/{connect,publish,subscribe}.rs) and the
  lenient front-ends `Packet::decode_async` / `Packet::decode` / `Header::decode`.

  `debug` threads the `debug_assert!` of `TopicFilter::is_invalid`.
-/
import Mqtt.V3.Types

namespace Mqtt.V3
open Mqtt

def u8and (a b : UInt8) : UInt8 := a &&& b

/-- `Connect::decode_with_protocol`. -/
def Connect.decodeWithProtocol (protocol : Protocol) : Parser Error Connect :=
  if protocol.level > 4 then Parser.fail (.unexpectedProtocol protocol) else do
  let flags ← readU8
  if flags &&& 1 != 0 then Parser.fail (.invalidConnectFlags flags) else do
  let keepAlive ← readU16
  let clientId ← readString
  let lastWill ← (
    if flags &&& 0b100 != 0 then do
      let topic ← readString
      let message ← readBytes
      let qos ← liftExcept (qosFromU8 ((flags &&& 0b11000) >>> 3))
      let retain := (flags &&& 0b00100000) != 0
      let tn ← liftExcept (topicNameTryFrom topic)
      pure (some { qos := qos, retain := retain, topicName := tn, message := message : LastWill })
    else if flags &&& 0b11000 != 0 then Parser.fail (.invalidConnectFlags flags)
    else pure none : Parser Error (Option LastWill))
  let username ← (
    if flags &&& 0b10000000 != 0 then do let u ← readString; pure (some u)
    else pure none : Parser Error (Option Bytes))
  let password ← (
    if flags &&& 0b01000000 != 0 then do let p ← readBytes (ε := Error); pure (some p)
    else pure none : Parser Error (Option Bytes))
  let cleanSession := (flags &&& 0b10) != 0
  pure { protocol := protocol, cleanSession := cleanSession, keepAlive := keepAlive,
         clientId := clientId, lastWill := lastWill, username := username, password := password }

/-- `Connect::decode_async`. -/
def Connect.decode : Parser Error Connect := do
  let protocol ← Protocol.decode
  Connect.decodeWithProtocol protocol

/-- `Connack::decode_async`. -/
def Connack.decode : Parser Error Connack := do
  let payload ← take 2
  match payload with
  | [f, c] =>
    if f = 0 ∨ f = 1 then
      match codeOfByte .connectReturnV3 c with
      | some d => pure { sessionPresent := f = 1, code := d }
      | none => Parser.fail (.invalidConnectReturnCode c)
    else Parser.fail (.invalidConnackFlags f)
  | _ => Parser.panic "take 2 did not return two bytes"

/-- `Publish::decode_async`. -/
def Publish.decode (h : Header) : Parser Error Publish := do
  let topic ← readString
  let rl ← checkedSub h.remainingLen (2 + topic.length) .invalidRemainingLength
  let (qosPid, rl) ← (
    if h.qos = 0 then pure (QosPid.level0, rl)
    else if h.qos = 1 then do
      let rl ← checkedSub rl 2 .invalidRemainingLength
      let pid ← readPid
      pure (QosPid.level1 pid, rl)
    else if h.qos = 2 then do
      let rl ← checkedSub rl 2 .invalidRemainingLength
      let pid ← readPid
      pure (QosPid.level2 pid, rl)
    else Parser.panic "header qos outside 0..2" : Parser Error (QosPid × Nat))
  let payload ← (if rl > 0 then take rl else pure [] : Parser Error Bytes)
  let tn ← liftExcept (topicNameTryFrom topic)
  pure { dup := h.dup, retain := h.retain, qosPid := qosPid, topicName := tn, payload := payload }

/-- The `while remaining_len > 0` loop of `Subscribe::decode_async`. -/
def subscribeLoop (debug : Bool) (rl : Nat) (acc : List (Topic.TopicFilter × UInt8)) :
    Parser Error (List (Topic.TopicFilter × UInt8)) := fun bs =>
  if _hrl : rl > 0 then
    match readString bs with
    | .ok s rest =>
      match topicFilterTryFrom debug s with
      | .ok f _ =>
        match readU8 (ε := Error) rest with
        | .ok qb rest' =>
          match qosFromU8 qb with
          | .ok q =>
            if _hle : 3 + f.text.length ≤ rl then
              subscribeLoop debug (rl - (3 + f.text.length)) (acc ++ [(f, q)]) rest'
            else .err .invalidRemainingLength
          | .error e => .err e
        | .more => .more
        | .err e => .err e
        | .panic s => .panic s
      | .more => .more
      | .err e => .err e
      | .panic s => .panic s
    | .more => .more
    | .err e => .err e
    | .panic s => .panic s
  else .ok acc bs
termination_by rl
decreasing_by omega

/-- `Subscribe::decode_async`. -/
def Subscribe.decode (debug : Bool) (remainingLen : Nat) : Parser Error Subscribe := do
  let pid ← readPid
  let rl ← checkedSub remainingLen 2 .invalidRemainingLength
  if rl = 0 then Parser.fail .emptySubscription else do
  let topics ← subscribeLoop debug rl []
  pure { pid := pid, topics := topics }

/-- The loop of `Suback::decode_async` (`remaining_len -= 1` is guarded by `> 0`). -/
def subackLoop (rl : Nat) (acc : List UInt8) : Parser Error (List UInt8) := fun bs =>
  match rl with
  | 0 => .ok acc bs
  | rl' + 1 =>
    match readU8 (ε := Error) bs with
    | .ok v rest =>
      match codeOfByte .subscribeReturnV3 v with
      | some d => subackLoop rl' (acc ++ [d]) rest
      | none => .err (.invalidQos v)
    | .more => .more
    | .err e => .err e
    | .panic s => .panic s

/-- `Suback::decode_async`. -/
def Suback.decode (remainingLen : Nat) : Parser Error Suback := do
  let pid ← readPid
  let rl ← checkedSub remainingLen 2 .invalidRemainingLength
  let topics ← subackLoop rl []
  pure { pid := pid, topics := topics }

/-- The loop of `Unsubscribe::decode_async`. -/
def unsubscribeLoop (debug : Bool) (rl : Nat) (acc : List Topic.TopicFilter) :
    Parser Error (List Topic.TopicFilter) := fun bs =>
  if _hrl : rl > 0 then
    match readString bs with
    | .ok s rest =>
      match topicFilterTryFrom debug s with
      | .ok f _ =>
        if _hle : 2 + f.text.length ≤ rl then
          unsubscribeLoop debug (rl - (2 + f.text.length)) (acc ++ [f]) rest
        else .err .invalidRemainingLength
      | .more => .more
      | .err e => .err e
      | .panic s => .panic s
    | .more => .more
    | .err e => .err e
    | .panic s => .panic s
  else .ok acc bs
termination_by rl
decreasing_by omega

/-- `Unsubscribe::decode_async`. -/
def Unsubscribe.decode (debug : Bool) (remainingLen : Nat) : Parser Error Unsubscribe := do
  let pid ← readPid
  let rl ← checkedSub remainingLen 2 .invalidRemainingLength
  if rl = 0 then Parser.fail .emptySubscription else do
  let topics ← unsubscribeLoop debug rl []
  pure { pid := pid, topics := topics }

/-- `Header::decode_async`. -/
def Header.decode : Parser Error Header := do
  let (typ, rl) ← decodeRawHeader
  liftExcept (Header.newWith typ rl)

/-- The body dispatch of `Packet::decode_async` (after the header). -/
def decodeBody (debug : Bool) (h : Header) : Parser Error Packet :=
  match h.typ.toNat with
  | 12 => pure .pingreq
  | 13 => pure .pingresp
  | 14 => pure .disconnect
  | 1 => do let c ← Connect.decode; pure (.connect c)
  | 2 => do let c ← Connack.decode; pure (.connack c)
  | 3 => do let p ← Publish.decode h; pure (.publish p)
  | 4 => do let p ← readPid; pure (.puback p)
  | 5 => do let p ← readPid; pure (.pubrec p)
  | 6 => do let p ← readPid; pure (.pubrel p)
  | 7 => do let p ← readPid; pure (.pubcomp p)
  | 8 => do let s ← Subscribe.decode debug h.remainingLen; pure (.subscribe s)
  | 9 => do let s ← Suback.decode h.remainingLen; pure (.suback s)
  | 10 => do let u ← Unsubscribe.decode debug h.remainingLen; pure (.unsubscribe u)
  | 11 => do let p ← readPid; pure (.unsuback p)
  | _ => Parser.panic "packet type outside 1..14"

/-- `Packet::decode_async` on the bytes available before the transport's terminal event. -/
def decodeAsync (debug : Bool) : Parser Error Packet := do
  let h ← Header.decode
  decodeBody debug h

/-- How the transport ends once the available bytes are exhausted. -/
inductive Term
  | eof
  | err (k : IoKind)
  deriving DecidableEq, Repr, Inhabited

/-- What `read_exact` returns when the input runs out. -/
def Term.error : Term → Error
  | .eof => .ioError .unexpectedEof
  | .err k => .ioError k

/-- Result of a front-end call: packet and bytes consumed, or error, or panic. -/
inductive Out (ε α : Type)
  | ok (a : α) (consumed : Nat)
  | err (e : ε)
  | panic (site : String)
  deriving Repr

/-- An async decoder run on a transport that delivers `bs` and then `term`. -/
def runAsync {α} (p : Parser Error α) (bs : Bytes) (term : Term) : Out Error α :=
  match p bs with
  | .ok a rest => .ok a (bs.length - rest.length)
  | .more => .err term.error
  | .err e => .err e
  | .panic s => .panic s

/-- `Packet::decode(bytes)`: `block_on(decode_async(&mut bytes))`, EOF ↦ `Ok(None)`. -/
def decodeBlocking (debug : Bool) (bs : Bytes) : Out Error (Option Packet) :=
  match runAsync (decodeAsync debug) bs .eof with
  | .ok p n => .ok (some p) n
  | .err e => if e.isEof then .ok none 0 else .err e
  | .panic s => .panic s

/-- `Header::decode(bytes)` (no EOF mapping in the code: EOF is an error here). -/
def headerDecodeBlocking (bs : Bytes) : Out Error Header := runAsync Header.decode bs .eof

end Mqtt.V3
