/-
  Mqtt.V3.Valid — the codec's valid domain for v3 packets, as a decidable predicate
  (the hypothesis of C01/C02/C07/C08/C09/C10; the driver's `valid` op keeps the
  harness generator and this predicate in step).
-/
import Mqtt.V3.Encode

namespace Mqtt
open Mqtt

/-- Text field: at most 65,535 bytes of valid UTF-8. -/
def validText (b : Bytes) : Bool := decide (b.length ≤ 65535) && Utf8.valid b
/-- Binary field: at most 65,535 bytes. -/
def validBin (b : Bytes) : Bool := decide (b.length ≤ 65535)
/-- A constructed `TopicName` (what `TopicName::try_from` accepts). -/
def validTopicName (b : Bytes) : Bool :=
  match topicNameTryFrom b with
  | .ok _ => true
  | .error _ => false
/-- A constructed `TopicFilter`: its text is accepted and the cached index is the one
the validator returns (in either build profile). -/
def validTopicFilter (f : Topic.TopicFilter) : Bool :=
  (match topicFilterTryFrom false f.text with
   | .ok g _ => g == f
   | _ => false) &&
  (match topicFilterTryFrom true f.text with
   | .ok g _ => g == f
   | _ => false)
/-- A constructed `Pid`. -/
def validPid (p : Pid) : Bool := p.val != 0

def QosPid.valid : QosPid → Bool
  | .level0 => true
  | .level1 p => validPid p
  | .level2 p => validPid p

namespace V3

def LastWill.valid (w : LastWill) : Bool :=
  isVariant .qos w.qos && validTopicName w.topicName && validBin w.message

def Connect.valid (c : Connect) : Bool :=
  (c.protocol != .v500) && validText c.clientId &&
  (match c.lastWill with | some w => w.valid | none => true) &&
  (match c.username with | some u => validText u | none => true) &&
  (match c.password with | some p => validBin p | none => true)

/-- The valid domain of `v3::Packet`. -/
def Packet.valid : Packet → Bool
  | .connect c => c.valid && decide (c.encodeLen < 268435456)
  | .connack c => isVariant .connectReturnV3 c.code
  | .publish p => validTopicName p.topicName && QosPid.valid p.qosPid && decide (p.encodeLen < 268435456)
  | .puback p | .pubrec p | .pubrel p | .pubcomp p | .unsuback p => validPid p
  | .subscribe s => validPid s.pid && !s.topics.isEmpty &&
      s.topics.all (fun (f, q) => validTopicFilter f && isVariant .qos q) &&
      decide (s.encodeLen < 268435456)
  | .suback s => validPid s.pid && s.topics.all (isVariant .subscribeReturnV3) &&
      decide (s.encodeLen < 268435456)
  | .unsubscribe u => validPid u.pid && !u.topics.isEmpty && u.topics.all validTopicFilter &&
      decide (u.encodeLen < 268435456)
  | .pingreq | .pingresp | .disconnect => true

end V3
end Mqtt
