/-
  Mqtt.V3.Types — packet values of MQTT v3.1 / v3.1.1 (src/v3/*.rs).
  Enum fields (`QoS`, `ConnectReturnCode`, `SubscribeReturnCode`) are held as the
  discriminant byte (`code as u8`) of the variant.
-/
import Mqtt.Types

namespace Mqtt.V3
open Mqtt

structure LastWill where
  qos : UInt8
  retain : Bool
  topicName : Bytes
  message : Bytes
  deriving DecidableEq, Repr, Inhabited

structure Connect where
  protocol : Protocol
  cleanSession : Bool
  keepAlive : UInt16
  clientId : Bytes
  lastWill : Option LastWill
  username : Option Bytes
  password : Option Bytes
  deriving DecidableEq, Repr, Inhabited

structure Connack where
  sessionPresent : Bool
  code : UInt8
  deriving DecidableEq, Repr, Inhabited

structure Publish where
  dup : Bool
  retain : Bool
  qosPid : QosPid
  topicName : Bytes
  payload : Bytes
  deriving DecidableEq, Repr, Inhabited

structure Subscribe where
  pid : Pid
  topics : List (Topic.TopicFilter × UInt8)
  deriving DecidableEq, Repr, Inhabited

structure Suback where
  pid : Pid
  topics : List UInt8
  deriving DecidableEq, Repr, Inhabited

structure Unsubscribe where
  pid : Pid
  topics : List Topic.TopicFilter
  deriving DecidableEq, Repr, Inhabited

inductive Packet
  | connect (c : Connect)
  | connack (c : Connack)
  | publish (p : Publish)
  | puback (pid : Pid)
  | pubrec (pid : Pid)
  | pubrel (pid : Pid)
  | pubcomp (pid : Pid)
  | subscribe (s : Subscribe)
  | suback (s : Suback)
  | unsubscribe (u : Unsubscribe)
  | unsuback (pid : Pid)
  | pingreq
  | pingresp
  | disconnect
  deriving DecidableEq, Repr, Inhabited

/-- Fixed header (`v3::Header`); `typ` is the packet-type nibble. -/
structure Header where
  typ : UInt8
  dup : Bool
  qos : UInt8
  retain : Bool
  remainingLen : Nat
  deriving DecidableEq, Repr, Inhabited

/-- `Header::new_with`, from the table extracted from the running code (Tie A). -/
def Header.newWith (hd : UInt8) (remainingLen : Nat) : Except Error Header :=
  match Gen.headerV3.getD hd.toNat (.error .invalidHeader) with
  | .ok r => .ok ⟨r.typ, r.dup, r.qos, r.retain, remainingLen⟩
  | .error e => .error e

end Mqtt.V3
