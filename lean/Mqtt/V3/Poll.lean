/-
  Mqtt.V3.Poll — `impl PollHeader for v3::Header` (src/v3/poll.rs).
-/
import Mqtt.V3.Decode
import Mqtt.Poll

namespace Mqtt.V3
open Mqtt

/-- `build_empty_packet`. -/
def buildEmptyPacket (h : Header) : Option Packet :=
  match h.typ.toNat with
  | 12 => some .pingreq
  | 13 => some .pingresp
  | 14 => some .disconnect
  | _ => none

/-- `block_decode` (its own dispatch table in the code). -/
def blockDecode (debug : Bool) (h : Header) : Parser Error Packet :=
  match h.typ.toNat with
  | 1 => do let c ← Connect.decode; pure (.connect c)
  | 2 => do let c ← Connack.decode; pure (.connack c)
  | 3 => do let p ← Publish.decode h; pure (.publish p)
  | 4 => do let p ← readPid; pure (.puback p)
  | 5 => do let p ← readPid; pure (.pubrec p)
  | 6 => do let p ← readPid; pure (.pubrel p)
  | 7 => do let p ← readPid; pure (.pubcomp p)
  | 8 => do let s ← Subscribe.decode debug h.remainingLen; pure (.subscribe s)
  | 9 => do let s ← Suback.decode h.remainingLen; pure (.suback s)
  | 10 => do let u ← Unsubscribe.decode debug h.remainingLen; pure (.unsubscribe u)
  | 11 => do let p ← readPid; pure (.unsuback p)
  | 12 | 13 | 14 => Parser.panic "v3/poll.rs unreachable!()"
  | _ => Parser.panic "packet type outside 1..14"

def pollFamily (debug : Bool) : Poll.Family Header Packet Error where
  newWith := Header.newWith
  buildEmpty := buildEmptyPacket
  blockDecode := blockDecode debug
  remainingLen := fun h => h.remainingLen
  isEof := Error.isEof
  ofCommon := id

end Mqtt.V3
