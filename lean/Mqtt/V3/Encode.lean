/-
  Mqtt.V3.Encode — `Encodable` impls and `Packet::encode` / `encode_len` of v3.
-/
import Mqtt.V3.Types

namespace Mqtt.V3
open Mqtt

def b2u8 (b : Bool) : UInt8 := if b then 1 else 0

/-- `impl Encodable for LastWill`. -/
def LastWill.encode (w : LastWill) : Bytes := writeBytes w.topicName ++ writeBytes w.message
def LastWill.encodeLen (w : LastWill) : Nat := 4 + w.topicName.length + w.message.length

def Connect.flags (c : Connect) : UInt8 :=
  let f : UInt8 := 0
  let f := if c.cleanSession then f ||| 0b10 else f
  let f := if c.username.isSome then f ||| 0b10000000 else f
  let f := if c.password.isSome then f ||| 0b01000000 else f
  match c.lastWill with
  | some w =>
    let f := f ||| 0b00000100
    let f := f ||| (w.qos <<< 3)
    if w.retain then f ||| 0b00100000 else f
  | none => f

/-- `impl Encodable for Connect`. -/
def Connect.encode (c : Connect) : Bytes :=
  c.protocol.encode ++ [c.flags] ++ u16be c.keepAlive ++ writeBytes c.clientId ++
  (match c.lastWill with | some w => w.encode | none => []) ++
  (match c.username with | some u => writeBytes u | none => []) ++
  (match c.password with | some p => writeBytes p | none => [])

def Connect.encodeLen (c : Connect) : Nat :=
  c.protocol.encodeLen + (1 + 2) + (2 + c.clientId.length) +
  (match c.lastWill with | some w => w.encodeLen | none => 0) +
  (match c.username with | some u => 2 + u.length | none => 0) +
  (match c.password with | some p => 2 + p.length | none => 0)

def QosPid.pidBytes : QosPid → Bytes
  | .level0 => []
  | .level1 p => u16be p.val
  | .level2 p => u16be p.val

/-- `impl Encodable for Publish`. -/
def Publish.encode (p : Publish) : Bytes :=
  writeBytes p.topicName ++ QosPid.pidBytes p.qosPid ++ p.payload

def Publish.encodeLen (p : Publish) : Nat :=
  2 + p.topicName.length + (match p.qosPid with | .level0 => 0 | _ => 2) + p.payload.length

def Publish.controlByte (p : Publish) : UInt8 :=
  let cb : UInt8 := match p.qosPid with
    | .level0 => 0b00110000
    | .level1 _ => 0b00110010
    | .level2 _ => 0b00110100
  let cb := if p.dup then cb ||| 0b00001000 else cb
  if p.retain then cb ||| 0b00000001 else cb

/-- `impl Encodable for Subscribe`. -/
def Subscribe.encode (s : Subscribe) : Bytes :=
  u16be s.pid.val ++ s.topics.flatMap (fun (f, q) => writeBytes f.text ++ [q])
def Subscribe.encodeLen (s : Subscribe) : Nat :=
  2 + (s.topics.map (fun (f, _) => 3 + f.text.length)).sum

/-- `impl Encodable for Suback`. -/
def Suback.encode (s : Suback) : Bytes := u16be s.pid.val ++ s.topics
def Suback.encodeLen (s : Suback) : Nat := 2 + s.topics.length

/-- `impl Encodable for Unsubscribe`. -/
def Unsubscribe.encode (u : Unsubscribe) : Bytes :=
  u16be u.pid.val ++ u.topics.flatMap (fun f => writeBytes f.text)
def Unsubscribe.encodeLen (u : Unsubscribe) : Nat :=
  2 + (u.topics.map (fun f => 2 + f.text.length)).sum

/-- `encode_with_pid`. -/
def encodeWithPid (cb : UInt8) (pid : Pid) : VarBytes :=
  .fixed4 cb 2 (pid.val >>> 8).toUInt8 (pid.val &&& 0xFF).toUInt8

/-- `Packet::encode`. -/
def Packet.encode (debug : Bool) : Packet → EncRes VarBytes
  | .pingreq => .ok (.fixed2 0b11000000 0)
  | .pingresp => .ok (.fixed2 0b11010000 0)
  | .disconnect => .ok (.fixed2 0b11100000 0)
  | .connack c => .ok (.fixed4 0b00100000 2 (b2u8 c.sessionPresent) c.code)
  | .puback pid => .ok (encodeWithPid 0b01000000 pid)
  | .pubrec pid => .ok (encodeWithPid 0b01010000 pid)
  | .pubrel pid => .ok (encodeWithPid 0b01100010 pid)
  | .pubcomp pid => .ok (encodeWithPid 0b01110000 pid)
  | .unsuback pid => .ok (encodeWithPid 0b10110000 pid)
  | .connect c => dyn (encodePacket debug 0b00010000 c.encodeLen c.encode)
  | .publish p => dyn (encodePacket debug p.controlByte p.encodeLen p.encode)
  | .subscribe s => dyn (encodePacket debug 0b10000010 s.encodeLen s.encode)
  | .suback s => dyn (encodePacket debug 0b10010000 s.encodeLen s.encode)
  | .unsubscribe u => dyn (encodePacket debug 0b10100010 u.encodeLen u.encode)
where
  dyn : EncRes Bytes → EncRes VarBytes
    | .ok b => .ok (.dynamic b)
    | .err e => .err e
    | .panic s => .panic s

/-- `Packet::encode_len`. -/
def Packet.encodeLen : Packet → Except Error Nat
  | .pingreq | .pingresp | .disconnect => .ok 2
  | .connack _ | .puback _ | .pubrec _ | .pubrel _ | .pubcomp _ | .unsuback _ => .ok 4
  | .connect c => totalLen c.encodeLen
  | .publish p => totalLen p.encodeLen
  | .subscribe s => totalLen s.encodeLen
  | .suback s => totalLen s.encodeLen
  | .unsubscribe u => totalLen u.encodeLen

end Mqtt.V3
