/-
  Mqtt.Pid — packet identifiers (`src/common/types.rs`, `Pid`, `Add/Sub<u16>`).

  The two unchecked `n + 1` / `n - 1` on `u16` are modelled as panic sites
  (a debug build traps the overflow); C19 proves them unreachable.
-/
import Mqtt.Error

namespace Mqtt

structure Pid where
  val : UInt16
  deriving DecidableEq, Repr, Inhabited

namespace Pid

/-- `Pid::try_from(u16)`. -/
def tryFrom (v : UInt16) : Except Error Pid :=
  if v = 0 then .error .zeroPid else .ok ⟨v⟩

/-- `u16::overflowing_add`. -/
def overflowingAdd (a b : UInt16) : UInt16 × Bool := (a + b, decide (a.toNat + b.toNat ≥ 65536))

/-- `u16::overflowing_sub`. -/
def overflowingSub (a b : UInt16) : UInt16 × Bool := (a - b, decide (a.toNat < b.toNat))

/-- `impl Add<u16> for Pid`; `.error` is the overflow panic of `n + 1`. -/
def add (p : Pid) (u : UInt16) : Except String Pid :=
  match overflowingAdd p.val u with
  | (n, false) => .ok ⟨n⟩
  | (n, true) => if n = 65535 then .error "types.rs:140 n + 1" else .ok ⟨n + 1⟩

/-- `impl Sub<u16> for Pid`; `.error` is the underflow panic of `n - 1`. -/
def sub (p : Pid) (u : UInt16) : Except String Pid :=
  match overflowingSub p.val u with
  | (n, o) =>
    if n = 0 then .ok ⟨65535⟩
    else if o = false then .ok ⟨n⟩
    else if n = 0 then .error "types.rs:160 n - 1" else .ok ⟨n - 1⟩

/-- `AddAssign`: `*self = *self + other`. -/
def addAssign (p : Pid) (u : UInt16) : Except String Pid := p.add u
/-- `SubAssign`. -/
def subAssign (p : Pid) (u : UInt16) : Except String Pid := p.sub u

end Pid
end Mqtt
