/-
  Mqtt.IO — the sink side of the transports: `write_all` (tokio's
  `AsyncWriteExt::write_all` and `std::io::Write::write_all`) over a scripted sink,
  `Packet::encode_async`, and the streaming `Encodable::encode` as a sequence of
  `write_all` calls.

  MODELLED, NOT VERIFIED: the two `write_all` loops are third-party / std code; the
  model records their documented behaviour (retry until everything is accepted, a
  0-byte write is `WriteZero`, errors and Pending are propagated) and the harness
  exercises it (ops `enca`).
-/
import Mqtt.V3.Encode
import Mqtt.V5.Encode

namespace Mqtt.IO
open Mqtt

/-- What the sink does at each successive `poll_write` / `write` call. Once the
script is exhausted the sink accepts everything offered. -/
inductive SinkItem
  | accept (n : Nat)     -- accept at most n (≥ 1) bytes
  | pending              -- Poll::Pending (async sinks only)
  | zero                 -- Ok(0)
  | err (k : IoKind)
  deriving DecidableEq, Repr, Inhabited

structure WriteOut where
  written : Bytes                 -- what the sink received, in order
  result : Except IoKind Unit
  pendings : Nat
  rest : List SinkItem            -- unconsumed part of the script
  deriving Repr

/-- `write_all(buf)`. Structural on `fuel` (each call consumes a script item or ≥ 1 byte). -/
def writeAllAux : Nat → Bytes → List SinkItem → Bytes → Nat → WriteOut
  | 0, _, script, acc, p => ⟨acc, .error .other, p, script⟩     -- out of fuel (unreachable)
  | fuel + 1, buf, script, acc, p =>
    if buf.isEmpty then ⟨acc, .ok (), p, script⟩ else
    match script with
    | [] => ⟨acc ++ buf, .ok (), p, []⟩
    | .accept n :: s =>
      let k := min (max n 1) buf.length
      writeAllAux fuel (buf.drop k) s (acc ++ buf.take k) p
    | .pending :: s => writeAllAux fuel buf s acc (p + 1)
    | .zero :: s => ⟨acc, .error .writeZero, p, s⟩
    | .err k :: s => ⟨acc, .error k, p, s⟩

def writeAll (buf : Bytes) (script : List SinkItem) : WriteOut :=
  writeAllAux (buf.length + script.length + 1) buf script [] 0

/-- The streaming encoder: `Encodable::encode` performs one `write_all` per piece
(`write_u8`, `write_u16`, `write_bytes` = two pieces, …). Stops at the first error. -/
def writePieces : List Bytes → List SinkItem → Bytes → Nat → WriteOut
  | [], script, acc, p => ⟨acc, .ok (), p, script⟩
  | piece :: rest, script, acc, p =>
    let o := writeAll piece script
    match o.result with
    | .ok () => writePieces rest o.rest (acc ++ o.written) (p + o.pendings)
    | .error k => ⟨acc ++ o.written, .error k, p + o.pendings, o.rest⟩

/-- Outcome of `Packet::encode_async(writer)`: the encode error, or what `write_all` did. -/
inductive AsyncEncOut
  | encodeErr (e : Error)
  | panic (site : String)
  | wrote (o : WriteOut)

/-- v3 `Packet::encode_async`. -/
def v3EncodeAsync (debug : Bool) (p : V3.Packet) (script : List SinkItem) : AsyncEncOut :=
  match p.encode debug with
  | .ok vb => .wrote (writeAll vb.asRef script)
  | .err e => .encodeErr e
  | .panic s => .panic s

/-- v5 `Packet::encode_async`. -/
def v5EncodeAsync (debug : Bool) (p : V5.Packet) (script : List SinkItem) : AsyncEncOut :=
  match p.encode debug with
  | .ok vb => .wrote (writeAll vb.asRef script)
  | .err e => .encodeErr e
  | .panic s => .panic s

def faultFree (script : List SinkItem) : Bool :=
  script.all fun it => match it with
    | .accept _ => true
    | .pending => true
    | _ => false

end Mqtt.IO
