/-
  Mqtt.Poll — `GenericPollPacket` (src/common/poll.rs) as an explicit state machine
  over transport events, generic in the family (`PollHeader` trait).

  One `Event` is the outcome of one `poll_read` on the transport.  The caller-owned
  `PollState` is all the state there is: dropping and re-creating the future is the
  identity on it (the future only borrows state and reader).
-/
import Mqtt.Types

namespace Mqtt.Poll
open Mqtt

/-- The `PollHeader` trait, as a record of functions. -/
structure Family (H P E : Type) where
  newWith : UInt8 → Nat → Except E H
  buildEmpty : H → Option P
  blockDecode : H → Parser E P
  remainingLen : H → Nat
  isEof : E → Bool
  ofCommon : Error → E

structure HeaderState where
  controlByte : Option UInt8 := none
  varIdx : Nat := 0
  varInt : Nat := 0
  deriving DecidableEq, Repr, Inhabited

inductive State (H : Type)
  | header (s : HeaderState)
  | body (h : H) (total : Nat) (len : Nat) (buf : Bytes)   -- buf = the filled prefix, idx = buf.length
  deriving Repr

/-- `Poll::Ready(Ok((total, body, packet)))` / `Ready(Err(e))` / a panic site. -/
inductive Ready (P E : Type)
  | ok (total : Nat) (body : Bytes) (p : P)
  | err (e : E)
  | panic (site : String)
  deriving Repr

/-- Capacity of the `ReadBuf` offered to the transport in this state. -/
def want {H} : State H → Nat
  | .header _ => 1
  | .body _ _ len buf => len - buf.length

/-- After the last length byte: build the header, answer empty packets, or switch to the body. -/
def finishHeader {H P E} (fam : Family H P E) (cb : UInt8) (varIdx varInt : Nat) :
    State H ⊕ Ready P E :=
  match fam.newWith cb varInt with
  | .error e => .inr (.err e)
  | .ok h =>
    match fam.buildEmpty h with
    | some p =>
      -- fix F4: an empty packet must have remaining length 0; fix F5: report the bytes consumed
      if fam.remainingLen h != 0 then .inr (.err (fam.ofCommon .invalidRemainingLength))
      else .inr (.ok (1 + 1 + varIdx) [] p)
    | none =>
      if fam.remainingLen h = 0 then .inr (.err (fam.ofCommon .invalidRemainingLength))
      else .inl (.body h (1 + 1 + varIdx + fam.remainingLen h) (fam.remainingLen h) [])

/-- One byte in the header state. -/
def headerByte {H P E} (fam : Family H P E) (hs : HeaderState) (b : UInt8) : State H ⊕ Ready P E :=
  match hs.controlByte with
  | none => .inl (.header { hs with controlByte := some b })
  | some cb =>
    let v := hs.varInt + (b.toNat % 128) * 128 ^ hs.varIdx
    if b.toNat < 128 then finishHeader fam cb hs.varIdx v
    else if hs.varIdx < 3 then .inl (.header { hs with varIdx := hs.varIdx + 1, varInt := v })
    else .inr (.err (fam.ofCommon .invalidVarByteInt))

/-- The body buffer is full: run the family's body decoder on exactly these bytes. -/
def finishBody {H P E} (fam : Family H P E) (h : H) (total : Nat) (buf : Bytes) : Ready P E :=
  match fam.blockDecode h buf with
  | .ok p rest =>
    if rest.isEmpty then .ok total buf p else .err (fam.ofCommon .invalidRemainingLength)
  | .more => .err (fam.ofCommon .invalidRemainingLength)     -- inner EOF
  | .err e => if fam.isEof e then .err (fam.ofCommon .invalidRemainingLength) else .err e
  | .panic s => .panic s

/-- `chunk` bytes (1 ≤ chunk.length ≤ want st) were read into the offered buffer. -/
def onData {H P E} (fam : Family H P E) (debug : Bool) (st : State H) (chunk : Bytes) :
    State H ⊕ Ready P E :=
  match st with
  | .header hs =>
    match chunk with
    | [b] => headerByte fam hs b
    | _ => .inr (.panic "transport filled more than the offered 1-byte buffer")
  | .body h total len buf =>
    let buf' := buf ++ chunk
    if debug && decide (buf'.length > len) then .inr (.panic "poll.rs:164 debug_assert")
    else if buf'.length = len then .inr (finishBody fam h total buf')
    else .inl (.body h total len buf')

/-- Transport schedule: what each successive `poll_read` does. -/
inductive Sched
  | chunk (n : Nat)     -- offer at most n (≥ 1) bytes
  | pending             -- Poll::Pending
  | pendingDrop         -- Poll::Pending, and the caller drops and re-creates the future
  deriving DecidableEq, Repr, Inhabited

inductive Term
  | eof
  | err (k : IoKind)
  deriving DecidableEq, Repr, Inhabited

structure Log where
  requests : List (Nat × Nat) := []   -- (stream position, capacity offered) per poll_read
  pendings : Nat := 0
  drops : Nat := 0
  deriving Repr, Inhabited

structure RunResult (P E : Type) where
  result : Ready P E
  consumed : Nat
  log : Log
  deriving Repr

/-- Drive the machine over stream `s` (unread part `rest`, `pos` bytes consumed) with
schedule `sched`; when the schedule is exhausted every read delivers all that fits.
`fuel` bounds the number of `poll_read` calls (each consumes a schedule item or ≥ 1 byte). -/
def runAux {H P E} (fam : Family H P E) (debug : Bool) (term : Term) :
    Nat → State H → Bytes → Nat → List Sched → Log → RunResult P E
  | 0, _, _, pos, _, log => ⟨.panic "out of fuel", pos, log⟩
  | fuel + 1, st, rest, pos, sched, log =>
    let cap := want st
    let log := { log with requests := log.requests ++ [(pos, cap)] }
    let deliver (limit : Nat) (sched' : List Sched) : RunResult P E :=
      if rest.isEmpty then
        match term with
        | .eof => ⟨.err (fam.ofCommon (.ioError .unexpectedEof)), pos, log⟩
        | .err k => ⟨.err (fam.ofCommon (.ioError k)), pos, log⟩
      else
        let n := min (min limit cap) rest.length
        if n = 0 then ⟨.panic "zero-capacity read", pos, log⟩ else
        match onData fam debug st (rest.take n) with
        | .inl st' => runAux fam debug term fuel st' (rest.drop n) (pos + n) sched' log
        | .inr r => ⟨r, pos + n, log⟩
    match sched with
    | .pending :: sched' =>
      runAux fam debug term fuel st rest pos sched' { log with pendings := log.pendings + 1 }
    | .pendingDrop :: sched' =>
      runAux fam debug term fuel st rest pos sched'
        { log with pendings := log.pendings + 1, drops := log.drops + 1 }
    | .chunk n :: sched' => deliver (max n 1) sched'
    | [] => deliver rest.length []

/-- A whole run from the default state. -/
def run {H P E} (fam : Family H P E) (debug : Bool) (s : Bytes) (sched : List Sched) (term : Term) :
    RunResult P E :=
  runAux fam debug term (s.length + sched.length + 2) (.header {}) s 0 sched {}

/-- The specification of the poll decoder as a function of the stream alone
(one uninterrupted read): header, then exactly `remaining length` body bytes. -/
def spec {H P E} (fam : Family H P E) (s : Bytes) (term : Term) : Ready P E × Nat :=
  let termErr : E := match term with
    | .eof => fam.ofCommon (.ioError .unexpectedEof)
    | .err k => fam.ofCommon (.ioError k)
  match s with
  | [] => (.err termErr, 0)
  | cb :: rest =>
    match decodeVarIntAux (fam.ofCommon .invalidVarByteInt) 0 0 rest with
    | .more => (.err termErr, s.length)
    | .err e => (.err e, 5)
    | .panic p => (.panic p, 0)
    | .ok (v, k) rest' =>
      match finishHeader fam cb (k - 1) v with
      | .inr r => (r, 1 + k)
      | .inl (.body h total len _) =>
        if len ≤ rest'.length then (finishBody fam h total (rest'.take len), 1 + k + len)
        else (.err termErr, s.length)
      | .inl (.header _) => (.panic "unreachable", 0)

end Mqtt.Poll
