/-
  Mqtt.Error — `Protocol`, `Error` (src/common/error.rs), `ErrorV5`
  (src/v5/error.rs), `is_eof`, and the conversions to/from `std::io::Error`.

  Strings carried by error variants are kept as their bytes; the message text of
  `IoError` is dropped (only the kind is compared, which is what C14 states).
  Packet types and property identifiers inside `ErrorV5` are their wire numbers.
-/
import Mqtt.Basic

namespace Mqtt

inductive Protocol
  | v310 | v311 | v500
  deriving DecidableEq, Repr, Inhabited

def Protocol.level : Protocol → UInt8
  | .v310 => 3 | .v311 => 4 | .v500 => 5

inductive Error
  | invalidRemainingLength
  | emptySubscription
  | zeroPid
  | invalidQos (b : UInt8)
  | invalidConnectFlags (b : UInt8)
  | invalidConnackFlags (b : UInt8)
  | invalidConnectReturnCode (b : UInt8)
  | invalidProtocol (name : Bytes) (level : UInt8)
  | unexpectedProtocol (p : Protocol)
  | invalidHeader
  | invalidVarByteInt
  | invalidTopicName (s : Bytes)
  | invalidTopicFilter (s : Bytes)
  | invalidString
  | ioError (k : IoKind)
  deriving DecidableEq, Repr, Inhabited

inductive ErrorV5
  | common (e : Error)
  | invalidReasonCode (ptype : UInt8) (code : UInt8)
  | invalidSubscriptionOption (b : UInt8)
  | invalidPayloadFormat
  | invalidResponseTopic
  | invalidPropertyId (b : UInt8)
  | invalidPropertyLength (n : Nat)
  | invalidByteProperty (pid : UInt8) (v : UInt8)
  | duplicatedProperty (pid : UInt8)
  | invalidProperty (ptype : UInt8) (pid : UInt8)
  | invalidWillProperty (pid : UInt8)
  deriving DecidableEq, Repr, Inhabited

/-- `Error::is_eof`. -/
def Error.isEof : Error → Bool
  | .ioError .unexpectedEof => true
  | _ => false

/-- `ErrorV5::is_eof`. -/
def ErrorV5.isEof : ErrorV5 → Bool
  | .common e => e.isEof
  | _ => false

/-- `impl From<io::Error> for Error` (kind only). -/
def Error.fromIo (k : IoKind) : Error := .ioError k

/-- `impl From<Error> for io::Error` (kind only). -/
def Error.toIo : Error → IoKind
  | .ioError k => k
  | _ => .invalidData

/-- `impl From<io::Error> for ErrorV5`. -/
def ErrorV5.fromIo (k : IoKind) : ErrorV5 := .common (.ioError k)

/-! ### printing (wire protocol of the correspondence check) -/

def IoKind.name : IoKind → String
  | .unexpectedEof => "UnexpectedEof" | .connectionReset => "ConnectionReset"
  | .timedOut => "TimedOut" | .brokenPipe => "BrokenPipe" | .wouldBlock => "WouldBlock"
  | .other => "Other" | .writeZero => "WriteZero" | .invalidData => "InvalidData"
  | .connectionAborted => "ConnectionAborted" | .notConnected => "NotConnected"
  | .interrupted => "Interrupted" | .permissionDenied => "PermissionDenied"
  | .connectionRefused => "ConnectionRefused" | .invalidInput => "InvalidInput"
  | .notFound => "NotFound" | .outOfMemory => "OutOfMemory"

def IoKind.ofName? : String → Option IoKind
  | "UnexpectedEof" => some .unexpectedEof | "ConnectionReset" => some .connectionReset
  | "TimedOut" => some .timedOut | "BrokenPipe" => some .brokenPipe
  | "WouldBlock" => some .wouldBlock | "Other" => some .other
  | "WriteZero" => some .writeZero | "InvalidData" => some .invalidData
  | "ConnectionAborted" => some .connectionAborted | "NotConnected" => some .notConnected
  | "Interrupted" => some .interrupted | "PermissionDenied" => some .permissionDenied
  | "ConnectionRefused" => some .connectionRefused | "InvalidInput" => some .invalidInput
  | "NotFound" => some .notFound | "OutOfMemory" => some .outOfMemory
  | _ => none

def Protocol.name : Protocol → String
  | .v310 => "V310" | .v311 => "V311" | .v500 => "V500"

def Error.show : Error → String
  | .invalidRemainingLength => "InvalidRemainingLength"
  | .emptySubscription => "EmptySubscription"
  | .zeroPid => "ZeroPid"
  | .invalidQos b => s!"InvalidQos({b.toNat})"
  | .invalidConnectFlags b => s!"InvalidConnectFlags({b.toNat})"
  | .invalidConnackFlags b => s!"InvalidConnackFlags({b.toNat})"
  | .invalidConnectReturnCode b => s!"InvalidConnectReturnCode({b.toNat})"
  | .invalidProtocol n l => s!"InvalidProtocol({hexOrDash n},{l.toNat})"
  | .unexpectedProtocol p => s!"UnexpectedProtocol({p.name})"
  | .invalidHeader => "InvalidHeader"
  | .invalidVarByteInt => "InvalidVarByteInt"
  | .invalidTopicName s => s!"InvalidTopicName({hexOrDash s})"
  | .invalidTopicFilter s => s!"InvalidTopicFilter({hexOrDash s})"
  | .invalidString => "InvalidString"
  | .ioError k => s!"IoError({k.name})"

def ErrorV5.show : ErrorV5 → String
  | .common e => e.show
  | .invalidReasonCode t c => s!"InvalidReasonCode({t.toNat},{c.toNat})"
  | .invalidSubscriptionOption b => s!"InvalidSubscriptionOption({b.toNat})"
  | .invalidPayloadFormat => "InvalidPayloadFormat"
  | .invalidResponseTopic => "InvalidResponseTopic"
  | .invalidPropertyId b => s!"InvalidPropertyId({b.toNat})"
  | .invalidPropertyLength n => s!"InvalidPropertyLength({n})"
  | .invalidByteProperty p v => s!"InvalidByteProperty({p.toNat},{v.toNat})"
  | .duplicatedProperty p => s!"DuplicatedProperty({p.toNat})"
  | .invalidProperty t p => s!"InvalidProperty({t.toNat},{p.toNat})"
  | .invalidWillProperty p => s!"InvalidWillProperty({p.toNat})"

end Mqtt
