/-
  Mqtt.Gen.Kinds — the (hand-written) vocabulary of the generated tables.
-/
import Mqtt.Error

namespace Mqtt.Gen

/-- The enums of the crate that are written to the wire as `code as u8` and read
back through a hand-written `from_u8`. -/
inductive CodeKind
  | qos | connectReturnV3 | subscribeReturnV3
  | connectReason | disconnectReason | authReason
  | pubackReason | pubrecReason | pubrelReason | pubcompReason
  | subscribeReason | unsubscribeReason | retainHandling | propertyId
  deriving DecidableEq, Repr, Inhabited

/-- The property-carrying positions of MQTT 5.0 packets (CONNECT has two: its own and the will's). -/
inductive PropHost
  | connect | will | connack | publish | puback | pubrec | pubrel | pubcomp
  | subscribe | suback | unsubscribe | unsuback | disconnect | auth
  deriving DecidableEq, Repr, Inhabited

/-- One row of `Header::new_with(b, _)`: packet type nibble as decoded, dup, qos, retain. -/
structure HeaderRow where
  typ : UInt8
  dup : Bool
  qos : UInt8
  retain : Bool
  deriving DecidableEq, Repr, Inhabited

end Mqtt.Gen
