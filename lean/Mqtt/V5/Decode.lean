/-
  Mqtt.V5.Decode — body decoders of src/v5/{connect,publish,subscribe}.rs and the
  lenient front-ends of src/v5/packet.rs.
-/
import Mqtt.V5.Encode

namespace Mqtt.V5
open Mqtt

/-- `properties.encode_len()` used on the decode side; a panic there is a panic here. -/
def propsEncodeLenP (allowed : List UInt8) (ps : Props) : Parser ErrorV5 Nat :=
  match ps.encodeLen allowed with
  | .ok n => pure n
  | .error s => Parser.panic s

def parseReason (k : Gen.CodeKind) (typ : UInt8) (b : UInt8) : Parser ErrorV5 UInt8 :=
  match codeOfByte k b with
  | some d => pure d
  | none => Parser.fail (.invalidReasonCode typ b)

/-- `LastWill::decode_async`. -/
def LastWill.decode (qos : UInt8) (retain : Bool) : Parser ErrorV5 LastWill := do
  let properties ← decodeProps .will willProps
  let topic ← liftC readString
  let tn ← liftExcept ((topicNameTryFrom topic).mapError ErrorV5.common)
  let payload ← liftC readBytes
  if properties.get 0x01 == some (.byte 1) && !Utf8.valid payload then
    Parser.fail .invalidPayloadFormat
  else
    pure { qos := qos, retain := retain, topicName := tn, payload := payload, properties := properties }

/-- `Connect::decode_with_protocol`. -/
def Connect.decodeWithProtocol (h : Header) (protocol : Protocol) : Parser ErrorV5 Connect :=
  if protocol != .v500 then Parser.fail (.common (.unexpectedProtocol protocol)) else do
  let flags ← liftC readU8
  if flags &&& 1 != 0 then Parser.fail (.common (.invalidConnectFlags flags)) else do
  let keepAlive ← liftC readU16
  let properties ← decodeProps (.packet h.typ) connectProps
  let clientId ← liftC readString
  let lastWill ← (
    if flags &&& 0b100 != 0 then do
      let qos ← liftExcept ((qosFromU8 ((flags &&& 0b11000) >>> 3)).mapError ErrorV5.common)
      let retain := (flags &&& 0b00100000) != 0
      let w ← LastWill.decode qos retain
      pure (some w)
    else if flags &&& 0b11000 != 0 then Parser.fail (.common (.invalidConnectFlags flags))
    else pure none : Parser ErrorV5 (Option LastWill))
  let username ← (
    if flags &&& 0b10000000 != 0 then do let u ← liftC readString; pure (some u)
    else pure none : Parser ErrorV5 (Option Bytes))
  let password ← (
    if flags &&& 0b01000000 != 0 then do let p ← liftC readBytes; pure (some p)
    else pure none : Parser ErrorV5 (Option Bytes))
  let cleanStart := (flags &&& 0b10) != 0
  pure { protocol := protocol, cleanStart := cleanStart, keepAlive := keepAlive,
         properties := properties, clientId := clientId, lastWill := lastWill,
         username := username, password := password }

/-- `Connect::decode_async`. -/
def Connect.decode (h : Header) : Parser ErrorV5 Connect := do
  let protocol ← liftC Protocol.decode
  Connect.decodeWithProtocol h protocol

/-- `Connack::decode_async`. -/
def Connack.decode (h : Header) : Parser ErrorV5 Connack := do
  let payload ← take 2
  match payload with
  | [f, c] =>
    if f = 0 ∨ f = 1 then do
      let code ← parseReason .connectReason h.typ c
      let properties ← decodeProps (.packet h.typ) connackProps
      pure { sessionPresent := f = 1, reasonCode := code, properties := properties }
    else Parser.fail (.common (.invalidConnackFlags f))
  | _ => Parser.panic "take 2 did not return two bytes"

/-- `Disconnect::decode_async`. -/
def Disconnect.decode (h : Header) : Parser ErrorV5 Disconnect :=
  if h.remainingLen = 0 then
    pure { reasonCode := Gen.defaultCode .disconnectReason, properties := Props.empty }
  else if h.remainingLen = 1 then do
    let b ← liftC readU8
    let code ← parseReason .disconnectReason h.typ b
    pure { reasonCode := code, properties := Props.empty }
  else do
    let b ← liftC readU8
    let code ← parseReason .disconnectReason h.typ b
    let properties ← decodeProps (.packet h.typ) disconnectProps
    pure { reasonCode := code, properties := properties }

/-- `Auth::decode_async`. -/
def Auth.decode (h : Header) : Parser ErrorV5 Auth :=
  if h.remainingLen = 0 then
    pure { reasonCode := Gen.defaultCode .authReason, properties := Props.empty }
  else do
    let b ← liftC readU8
    let code ← parseReason .authReason h.typ b
    let properties ← decodeProps (.packet h.typ) authProps
    pure { reasonCode := code, properties := properties }

/-- `Publish::decode_async`. -/
def Publish.decode (h : Header) : Parser ErrorV5 Publish := do
  let topic ← liftC readString
  let rl ← checkedSub h.remainingLen (2 + topic.length) (.common .invalidRemainingLength)
  let (qosPid, rl) ← (
    if h.qos = 0 then pure (QosPid.level0, rl)
    else if h.qos = 1 then do
      let rl ← checkedSub rl 2 (.common .invalidRemainingLength)
      let pid ← liftC readPid
      pure (QosPid.level1 pid, rl)
    else if h.qos = 2 then do
      let rl ← checkedSub rl 2 (.common .invalidRemainingLength)
      let pid ← liftC readPid
      pure (QosPid.level2 pid, rl)
    else Parser.panic "header qos outside 0..2" : Parser ErrorV5 (QosPid × Nat))
  let properties ← decodeProps (.packet h.typ) publishProps
  let plen ← propsEncodeLenP publishProps properties
  let rl ← checkedSub rl plen (.common .invalidRemainingLength)
  let payload ← (
    if rl > 0 then do
      let data ← take rl
      if properties.get 0x01 == some (.byte 1) && !Utf8.valid data then
        Parser.fail .invalidPayloadFormat
      else pure data
    else pure [] : Parser ErrorV5 Bytes)
  let tn ← liftExcept ((topicNameTryFrom topic).mapError ErrorV5.common)
  pure { dup := h.dup, retain := h.retain, qosPid := qosPid, topicName := tn,
         payload := payload, properties := properties }

/-- `Puback/Pubrec/Pubrel/Pubcomp::decode_async`. -/
def Ack.decode (k : Gen.CodeKind) (h : Header) : Parser ErrorV5 Ack := do
  let pid ← liftC readPid
  if h.remainingLen = 2 then
    pure { pid := pid, reasonCode := Gen.defaultCode k, properties := Props.empty }
  else if h.remainingLen = 3 then do
    let b ← liftC readU8
    let code ← parseReason k h.typ b
    pure { pid := pid, reasonCode := code, properties := Props.empty }
  else do
    let b ← liftC readU8
    let code ← parseReason k h.typ b
    let properties ← decodeProps (.packet h.typ) ackProps
    pure { pid := pid, reasonCode := code, properties := properties }

/-- The subscription-options byte. -/
def decodeSubOpts (b : UInt8) : Except ErrorV5 SubOpts :=
  if b &&& 0b11000000 > 0 then .error (.invalidSubscriptionOption b) else
  match codeOfByte .qos (b &&& 0b11) with
  | none => .error (.invalidSubscriptionOption b)
  | some q =>
    match codeOfByte .retainHandling ((b &&& 0b110000) >>> 4) with
    | none => .error (.invalidSubscriptionOption b)
    | some rh =>
      .ok { maxQos := q, noLocal := b &&& 0b100 == 0b100,
            retainAsPublished := b &&& 0b1000 == 0b1000, retainHandling := rh }

/-- The topic loop of `Subscribe::decode_async`. -/
def subscribeLoop (debug : Bool) (rl : Nat) (acc : List (Topic.TopicFilter × SubOpts)) :
    Parser ErrorV5 (List (Topic.TopicFilter × SubOpts)) := fun bs =>
  if _hrl : rl > 0 then
    match liftC readString bs with
    | .ok s rest =>
      match (topicFilterTryFrom debug s).mapErr ErrorV5.common with
      | .ok f _ =>
        match liftC readU8 rest with
        | .ok ob rest' =>
          match decodeSubOpts ob with
          | .ok o =>
            if _hle : 3 + f.text.length ≤ rl then
              subscribeLoop debug (rl - (3 + f.text.length)) (acc ++ [(f, o)]) rest'
            else .err (.common .invalidRemainingLength)
          | .error e => .err e
        | .more => .more
        | .err e => .err e
        | .panic s => .panic s
      | .more => .more
      | .err e => .err e
      | .panic s => .panic s
    | .more => .more
    | .err e => .err e
    | .panic s => .panic s
  else .ok acc bs
termination_by rl
decreasing_by omega

/-- `Subscribe::decode_async`. -/
def Subscribe.decode (debug : Bool) (h : Header) : Parser ErrorV5 Subscribe := do
  let pid ← liftC readPid
  let properties ← decodeProps (.packet h.typ) subscribeProps
  let plen ← propsEncodeLenP subscribeProps properties
  let rl ← checkedSub h.remainingLen (2 + plen) (.common .invalidRemainingLength)
  if rl = 0 then Parser.fail (.common .emptySubscription) else do
  let topics ← subscribeLoop debug rl []
  pure { pid := pid, properties := properties, topics := topics }

/-- The code loop of `Suback/Unsuback::decode_async`. -/
def codesLoop (k : Gen.CodeKind) (typ : UInt8) (rl : Nat) (acc : List UInt8) :
    Parser ErrorV5 (List UInt8) := fun bs =>
  match rl with
  | 0 => .ok acc bs
  | rl' + 1 =>
    match liftC readU8 bs with
    | .ok v rest =>
      match codeOfByte k v with
      | some d => codesLoop k typ rl' (acc ++ [d]) rest
      | none => .err (.invalidReasonCode typ v)
    | .more => .more
    | .err e => .err e
    | .panic s => .panic s

/-- `Suback::decode_async` / `Unsuback::decode_async`. -/
def CodesAck.decode (k : Gen.CodeKind) (h : Header) : Parser ErrorV5 CodesAck := do
  let pid ← liftC readPid
  let properties ← decodeProps (.packet h.typ) ackProps
  let plen ← propsEncodeLenP ackProps properties
  let rl ← checkedSub h.remainingLen (2 + plen) (.common .invalidRemainingLength)
  let topics ← codesLoop k h.typ rl []
  pure { pid := pid, properties := properties, topics := topics }

/-- The hand-written property loop of `Unsubscribe::decode_async` (user properties only). -/
def unsubPropsLoop (typ : UInt8) (propertyLen : Nat) :
    Nat → Nat → Props → Parser ErrorV5 (Props × Nat)
  | 0, _, _ => Parser.panic "unsubscribe properties: out of fuel"
  | fuel + 1, len, ps =>
    if propertyLen > len then do
      let idb ← liftC readU8
      match codeOfByte .propertyId idb with
      | none => Parser.fail (.invalidPropertyId idb)
      | some id =>
        if id = USER_PROPERTY then do
          let n ← liftC readString
          let v ← liftC readString
          unsubPropsLoop typ propertyLen fuel (len + (1 + 4 + n.length + v.length)) (ps.pushUser n v)
        else Parser.fail (.invalidProperty typ id)
    else if propertyLen ≠ len then Parser.fail (.invalidPropertyLength propertyLen)
    else pure (ps, len)

def unsubscribeLoop (debug : Bool) (rl : Nat) (acc : List Topic.TopicFilter) :
    Parser ErrorV5 (List Topic.TopicFilter) := fun bs =>
  if _hrl : rl > 0 then
    match liftC readString bs with
    | .ok s rest =>
      match (topicFilterTryFrom debug s).mapErr ErrorV5.common with
      | .ok f _ =>
        if _hle : 2 + f.text.length ≤ rl then
          unsubscribeLoop debug (rl - (2 + f.text.length)) (acc ++ [f]) rest
        else .err (.common .invalidRemainingLength)
      | .more => .more
      | .err e => .err e
      | .panic s => .panic s
    | .more => .more
    | .err e => .err e
    | .panic s => .panic s
  else .ok acc bs
termination_by rl
decreasing_by omega

/-- `Unsubscribe::decode_async`. -/
def Unsubscribe.decode (debug : Bool) (h : Header) : Parser ErrorV5 Unsubscribe := do
  let pid ← liftC readPid
  let (propertyLen, lenBytes) ← liftC decodeVarInt
  let (properties, len) ← unsubPropsLoop h.typ propertyLen (propertyLen + 1) 0 Props.empty
  let rl ← checkedSub h.remainingLen (2 + lenBytes + len) (.common .invalidRemainingLength)
  if rl = 0 then Parser.fail (.common .emptySubscription) else do
  let topics ← unsubscribeLoop debug rl []
  pure { pid := pid, properties := properties, topics := topics }

/-- `Header::decode_async`. -/
def Header.decode : Parser ErrorV5 Header := do
  let (typ, rl) ← liftC decodeRawHeader
  liftExcept (Header.newWith typ rl)

/-- The body dispatch of `Packet::decode_async`. -/
def decodeBody (debug : Bool) (h : Header) : Parser ErrorV5 Packet :=
  match h.typ.toNat with
  | 12 => pure .pingreq
  | 13 => pure .pingresp
  | 1 => do let c ← Connect.decode h; pure (.connect c)
  | 2 => do let c ← Connack.decode h; pure (.connack c)
  | 3 => do let p ← Publish.decode h; pure (.publish p)
  | 4 => do let a ← Ack.decode .pubackReason h; pure (.puback a)
  | 5 => do let a ← Ack.decode .pubrecReason h; pure (.pubrec a)
  | 6 => do let a ← Ack.decode .pubrelReason h; pure (.pubrel a)
  | 7 => do let a ← Ack.decode .pubcompReason h; pure (.pubcomp a)
  | 8 => do let s ← Subscribe.decode debug h; pure (.subscribe s)
  | 9 => do let s ← CodesAck.decode .subscribeReason h; pure (.suback s)
  | 10 => do let u ← Unsubscribe.decode debug h; pure (.unsubscribe u)
  | 11 => do let s ← CodesAck.decode .unsubscribeReason h; pure (.unsuback s)
  | 14 => do let d ← Disconnect.decode h; pure (.disconnect d)
  | 15 => do let a ← Auth.decode h; pure (.auth a)
  | _ => Parser.panic "packet type outside 1..15"

/-- `Packet::decode_async`. -/
def decodeAsync (debug : Bool) : Parser ErrorV5 Packet := do
  let h ← Header.decode
  decodeBody debug h

inductive Term
  | eof
  | err (k : IoKind)
  deriving DecidableEq, Repr, Inhabited

def Term.error : Term → ErrorV5
  | .eof => .common (.ioError .unexpectedEof)
  | .err k => .common (.ioError k)

inductive Out (ε α : Type)
  | ok (a : α) (consumed : Nat)
  | err (e : ε)
  | panic (site : String)

def runAsync {α} (p : Parser ErrorV5 α) (bs : Bytes) (term : Term) : Out ErrorV5 α :=
  match p bs with
  | .ok a rest => .ok a (bs.length - rest.length)
  | .more => .err term.error
  | .err e => .err e
  | .panic s => .panic s

/-- `Packet::decode(bytes)`: EOF ↦ `Ok(None)`. -/
def decodeBlocking (debug : Bool) (bs : Bytes) : Out ErrorV5 (Option Packet) :=
  match runAsync (decodeAsync debug) bs .eof with
  | .ok p n => .ok (some p) n
  | .err (.common (.ioError .unexpectedEof)) => .ok none 0
  | .err e => .err e
  | .panic s => .panic s

def headerDecodeBlocking (bs : Bytes) : Out ErrorV5 Header := runAsync Header.decode bs .eof

end Mqtt.V5
