/-
  Mqtt.V5.Valid — the codec's valid domain for v5 packets.
-/
import Mqtt.V5.Encode
import Mqtt.V3.Valid

namespace Mqtt.V5
open Mqtt

/-- The value has the wire type of its identifier and is in range for that type. -/
def propValValid (id : UInt8) (v : PropVal) : Bool :=
  match propKind id, v with
  | some .byte01, .byte b => b ≤ 1
  | some .qos01, .byte b => b ≤ 1 && isVariant .qos b      -- Maximum-QoS of 0 or 1
  | some .u16, .u16 _ => true
  | some .u32, .u32 _ => true
  | some .str, .str s => validText s
  | some .topic, .str s => validTopicName s
  | some .bin, .bin b => validBin b
  | some .varint, .varint n => decide (n < 268435456)
  | _, _ => false

def allPropIds : List UInt8 :=
  [0x01, 0x02, 0x03, 0x08, 0x09, 0x0B, 0x11, 0x12, 0x13, 0x15, 0x16, 0x17, 0x18, 0x19, 0x1A,
   0x1C, 0x1F, 0x21, 0x22, 0x23, 0x24, 0x25, 0x27, 0x28, 0x29, 0x2A]

/-- A property set of the struct with identifier list `allowed`: nothing outside the
list (checked on the known identifiers; `Props.wf` below states it for all bytes), values
well-typed, user properties are pairs of valid text. -/
def Props.valid (allowed : List UInt8) (ps : Props) : Bool :=
  allowed.all (fun i => match ps.get i with
    | none => true
    | some v => propValValid i v) &&
  ps.user.all (fun (n, v) => validText n && validText v)

/-- Nothing is stored under an identifier outside the struct's list. -/
def Props.wf (allowed : List UInt8) (ps : Props) : Prop :=
  ∀ i, ¬ (i ∈ allowed) → ps.get i = none

def payloadOk (ps : Props) (payload : Bytes) : Bool :=
  !(ps.get 0x01 == some (.byte 1)) || Utf8.valid payload

def LastWill.valid (w : LastWill) : Bool :=
  isVariant .qos w.qos && validTopicName w.topicName && validBin w.payload &&
  Props.valid willProps w.properties && payloadOk w.properties w.payload

def SubOpts.valid (o : SubOpts) : Bool :=
  isVariant .qos o.maxQos && isVariant .retainHandling o.retainHandling

/-- The (decidable part of the) valid domain of `v5::Packet`; `Packet.wf` adds the
`Props.wf` conditions. -/
def Packet.valid : Packet → Bool
  | .connect c =>
    (c.protocol == .v500) && validText c.clientId && Props.valid connectProps c.properties &&
    (match c.lastWill with | some w => w.valid | none => true) &&
    (match c.username with | some u => validText u | none => true) &&
    (match c.password with | some p => validBin p | none => true)
  | .connack c => isVariant .connectReason c.reasonCode && Props.valid connackProps c.properties
  | .publish p => validTopicName p.topicName && QosPid.valid p.qosPid &&
      Props.valid publishProps p.properties && payloadOk p.properties p.payload
  | .puback a => validPid a.pid && isVariant .pubackReason a.reasonCode && Props.valid ackProps a.properties
  | .pubrec a => validPid a.pid && isVariant .pubrecReason a.reasonCode && Props.valid ackProps a.properties
  | .pubrel a => validPid a.pid && isVariant .pubrelReason a.reasonCode && Props.valid ackProps a.properties
  | .pubcomp a => validPid a.pid && isVariant .pubcompReason a.reasonCode && Props.valid ackProps a.properties
  | .subscribe s => validPid s.pid && Props.valid subscribeProps s.properties && !s.topics.isEmpty &&
      s.topics.all (fun (f, o) => validTopicFilter f && o.valid)
  | .suback s => validPid s.pid && Props.valid ackProps s.properties &&
      s.topics.all (isVariant .subscribeReason)
  | .unsubscribe u => validPid u.pid && Props.valid unsubscribeProps u.properties &&
      !u.topics.isEmpty && u.topics.all validTopicFilter
  | .unsuback s => validPid s.pid && Props.valid ackProps s.properties &&
      s.topics.all (isVariant .unsubscribeReason)
  | .pingreq | .pingresp => true
  | .disconnect d => isVariant .disconnectReason d.reasonCode && Props.valid disconnectProps d.properties
  | .auth a => isVariant .authReason a.reasonCode && Props.valid authProps a.properties

/-- Property sets carry nothing outside their struct's identifier list. -/
def Packet.wf : Packet → Prop
  | .connect c => Props.wf connectProps c.properties ∧
      (match c.lastWill with | some w => Props.wf willProps w.properties | none => True)
  | .connack c => Props.wf connackProps c.properties
  | .publish p => Props.wf publishProps p.properties
  | .puback a | .pubrec a | .pubrel a | .pubcomp a => Props.wf ackProps a.properties
  | .subscribe s => Props.wf subscribeProps s.properties
  | .suback s | .unsuback s => Props.wf ackProps s.properties
  | .unsubscribe u => Props.wf unsubscribeProps u.properties
  | .pingreq | .pingresp => True
  | .disconnect d => Props.wf disconnectProps d.properties
  | .auth a => Props.wf authProps a.properties

end Mqtt.V5
