/-
  Mqtt.V5.Props — the macro-generated property layer of src/v5/types.rs
  (`decode_properties!`, `decode_property!`, `encode_properties!`,
  `encode_property!`, `encode_property_len!`, `encode_properties_len!`), modelled
  ONCE, generically: a property set is a function from property identifier to an
  optional value plus the user-property list; each of the 13 property structs of the
  code is that record restricted to its identifier list (the macro argument list,
  `allowed`).  Identifiers are their wire bytes.
-/
import Mqtt.Types

namespace Mqtt.V5
open Mqtt

/-- The wire type of a property (which `decode_property!` arm it uses). -/
inductive PropKind
  | byte01    -- PropertyValue::decode_bool
  | qos01     -- MaximumQoS (its own arm: byte ≤ 1 then QoS::from_u8(..).expect)
  | u16 | u32
  | str       -- decode_string
  | topic     -- decode_topic_name (ResponseTopic), error remapped
  | bin       -- decode_bytes
  | varint    -- SubscriptionIdentifier
  deriving DecidableEq, Repr, Inhabited

/-- Property identifier ↦ wire type, from the arms of `decode_property!`. -/
def propKind (id : UInt8) : Option PropKind :=
  match id.toNat with
  | 0x01 => some .byte01 | 0x02 => some .u32 | 0x03 => some .str | 0x08 => some .topic
  | 0x09 => some .bin | 0x0B => some .varint | 0x11 => some .u32 | 0x12 => some .str
  | 0x13 => some .u16 | 0x15 => some .str | 0x16 => some .bin | 0x17 => some .byte01
  | 0x18 => some .u32 | 0x19 => some .byte01 | 0x1A => some .str | 0x1C => some .str
  | 0x1F => some .str | 0x21 => some .u16 | 0x22 => some .u16 | 0x23 => some .u16
  | 0x24 => some .qos01 | 0x25 => some .byte01 | 0x27 => some .u32 | 0x28 => some .byte01
  | 0x29 => some .byte01 | 0x2A => some .byte01
  | _ => none

def USER_PROPERTY : UInt8 := 0x26

inductive PropVal
  | byte (b : UInt8)         -- bool as 0/1, or the QoS discriminant
  | u16 (v : UInt16)
  | u32 (v : UInt32)
  | str (b : Bytes)          -- text (also topic names)
  | bin (b : Bytes)
  | varint (n : Nat)         -- VarByteInt
  deriving DecidableEq, Repr, Inhabited

/-- A property set. -/
structure Props where
  get : UInt8 → Option PropVal
  user : List (Bytes × Bytes)

namespace Props

def empty : Props := ⟨fun _ => none, []⟩

def set (ps : Props) (id : UInt8) (v : PropVal) : Props :=
  { ps with get := fun j => if j = id then some v else ps.get j }

def pushUser (ps : Props) (n v : Bytes) : Props := { ps with user := ps.user ++ [(n, v)] }

/-- `properties == XProperties::default()` for the struct with identifier list `allowed`. -/
def isDefault (allowed : List UInt8) (ps : Props) : Bool :=
  allowed.all (fun i => (ps.get i).isNone) && ps.user.isEmpty

end Props

/-- Per-packet identifier lists (the macro arguments, in the order they are written). -/
def connectProps : List UInt8 := [0x11, 0x21, 0x27, 0x22, 0x19, 0x17, 0x15, 0x16]
def willProps : List UInt8 := [0x18, 0x01, 0x02, 0x03, 0x08, 0x09]
def connackProps : List UInt8 :=
  [0x11, 0x21, 0x24, 0x25, 0x27, 0x12, 0x22, 0x1F, 0x28, 0x29, 0x2A, 0x13, 0x1A, 0x1C, 0x15, 0x16]
def disconnectProps : List UInt8 := [0x11, 0x1F, 0x1C]
def authProps : List UInt8 := [0x15, 0x16, 0x1F]
def publishProps : List UInt8 := [0x01, 0x02, 0x23, 0x08, 0x09, 0x0B, 0x03]
def ackProps : List UInt8 := [0x1F]          -- PUBACK/PUBREC/PUBREL/PUBCOMP/SUBACK/UNSUBACK
def subscribeProps : List UInt8 := [0x0B]
def unsubscribeProps : List UInt8 := []

/-! ### encode side -/

/-- `encode_property_len!`: bytes the property occupies (identifier included).
`.error` is the `expect` on the subscription identifier. -/
def propSize (v : PropVal) : Except String Nat :=
  match v with
  | .byte _ => .ok (1 + 1)
  | .u16 _ => .ok (1 + 2)
  | .u32 _ => .ok (1 + 4)
  | .str b => .ok (1 + 2 + b.length)
  | .bin b => .ok (1 + 2 + b.length)
  | .varint n =>
    match varIntLen n with
    | .ok k => .ok (1 + k)
    | .error _ => .error "types.rs:769 subscription id exceed 268,435,455"

def userSize (u : List (Bytes × Bytes)) : Nat :=
  u.length + (u.map fun (n, v) => 4 + n.length + v.length).sum

/-- `property_len` as computed by `encode_properties!` / `encode_properties_len!`. -/
def Props.bodyLen (allowed : List UInt8) (ps : Props) : Except String Nat :=
  allowed.foldlM (fun acc i =>
    match ps.get i with
    | none => .ok acc
    | some v => (propSize v).map (acc + ·)) (userSize ps.user)

/-- `encode_properties_len!`: property length plus the size of its own length field.
(After fix F6 an oversize section no longer panics here: the sum keeps growing and
`total_len` rejects the packet.) -/
def Props.encodeLen (allowed : List UInt8) (ps : Props) : Except String Nat := do
  let n ← ps.bodyLen allowed
  match varIntLen n with
  | .ok k => pure (n + k)
  | .error _ => pure (n + 4)

/-- `encode_property!`: identifier byte then the value. -/
def encodeProp (id : UInt8) (v : PropVal) : Bytes :=
  id :: (match v with
    | .byte b => [b]
    | .u16 x => u16be x
    | .u32 x => u32be x
    | .str b => writeBytes b
    | .bin b => writeBytes b
    | .varint n => writeVarInt n)

def encodeUser (u : List (Bytes × Bytes)) : Bytes :=
  u.flatMap fun (n, v) => USER_PROPERTY :: (writeBytes n ++ writeBytes v)

/-- `encode_properties!`: length, the listed properties in list order, then all user
properties.  `.error` = the `expect` inside the length computation. -/
def Props.encode (allowed : List UInt8) (ps : Props) : Except String Bytes := do
  let n ← ps.bodyLen allowed
  pure (writeVarInt n ++
    allowed.flatMap (fun i => match ps.get i with
      | none => []
      | some v => encodeProp i v) ++
    encodeUser ps.user)

/-! ### decode side -/

/-- Which error an identifier outside the list raises. -/
inductive PropCtx
  | packet (ptype : UInt8)   -- ErrorV5::InvalidProperty(packet_type, id)
  | will                     -- ErrorV5::InvalidWillProperty(id)
  deriving DecidableEq, Repr, Inhabited

def PropCtx.reject : PropCtx → UInt8 → ErrorV5
  | .packet t, id => .invalidProperty t id
  | .will, id => .invalidWillProperty id

@[inline] def liftC {α} (p : Parser Error α) : Parser ErrorV5 α := Parser.mapErr ErrorV5.common p

/-- One `decode_property!` arm: duplicate check, then the value. -/
def decodePropValue (id : UInt8) (k : PropKind) (ps : Props) : Parser ErrorV5 PropVal :=
  if (ps.get id).isSome then Parser.fail (.duplicatedProperty id) else
  match k with
  | .byte01 => do
    let v ← liftC readU8
    if v > 1 then Parser.fail (.invalidByteProperty id v) else pure (.byte v)
  | .qos01 => do
    let v ← liftC readU8
    if v > 1 then Parser.fail (.invalidByteProperty id v) else
    match codeOfByte .qos v with
    | some d => pure (.byte d)
    | none => Parser.panic "types.rs:421 expect(0/1 qos)"
  | .u16 => do let v ← liftC readU16; pure (.u16 v)
  | .u32 => do let v ← liftC readU32; pure (.u32 v)
  | .str => do let s ← liftC readString; pure (.str s)
  | .topic => do
    let s ← liftC readString
    match topicNameTryFrom s with
    | .ok t => pure (.str t)
    | .error (.invalidTopicName _) => Parser.fail .invalidResponseTopic
    | .error e => Parser.fail (.common e)
  | .bin => do let b ← liftC readBytes; pure (.bin b)
  | .varint => do
    let (v, _) ← liftC decodeVarInt
    if v < 268435456 then pure (.varint v) else Parser.fail (.common .invalidVarByteInt)

/-- The `while property_len as usize > len` loop.  `fuel` bounds the iterations
(each consumes at least one byte); running out of fuel is reported as a panic so that
"fuel suffices" is part of the no-panic theorem. -/
def decodePropsLoop (ctx : PropCtx) (allowed : List UInt8) (propertyLen : Nat) :
    Nat → Nat → Props → Parser ErrorV5 Props
  | 0, _, _ => Parser.panic "decode_properties: out of fuel"
  | fuel + 1, len, ps =>
    if propertyLen > len then do
      let idb ← liftC readU8
      match codeOfByte .propertyId idb with
      | none => Parser.fail (.invalidPropertyId idb)
      | some id =>
        if allowed.contains id then
          match propKind id with
          | none => Parser.panic "property without a decode arm"
          | some k => do
            let v ← decodePropValue id k ps
            match propSize v with
            | .ok sz => decodePropsLoop ctx allowed propertyLen fuel (len + sz) (ps.set id v)
            | .error s => Parser.panic s
        else if id = USER_PROPERTY then do
          let n ← liftC readString
          let v ← liftC readString
          decodePropsLoop ctx allowed propertyLen fuel (len + (1 + 4 + n.length + v.length))
            (ps.pushUser n v)
        else Parser.fail (ctx.reject id)
    else if propertyLen ≠ len then Parser.fail (.invalidPropertyLength propertyLen)
    else pure ps

/-- `decode_properties!`. -/
def decodeProps (ctx : PropCtx) (allowed : List UInt8) : Parser ErrorV5 Props := do
  let (propertyLen, _) ← liftC decodeVarInt
  decodePropsLoop ctx allowed propertyLen (propertyLen + 1) 0 Props.empty

end Mqtt.V5
