/-
  Mqtt.V5.Text — flat text form of v5 packets on the line protocol, and its parser.
  A property set is one token `[id=val,id=val|name/value,name/value]` with the
  identifiers in ascending order (decimal), integer values in decimal, text/binary in
  hex (`-` = empty).
-/
import Mqtt.V5.Valid
import Mqtt.V3.Text

namespace Mqtt.V5
open Mqtt
open Mqtt.V3 (Build b01 optHex parseBool parseOptHex parseU8 parseU16 parsePid mkTopicName mkTopicFilter mkCode mkText ofOpt parseProtocol parseQosPid mapM')

def showPropVal : PropVal → String
  | .byte b => toString b.toNat
  | .u16 v => toString v.toNat
  | .u32 v => toString v.toNat
  | .str b => hexOrDash b
  | .bin b => hexOrDash b
  | .varint n => toString n

def showProps (ps : Props) : String :=
  let known := allPropIds.filterMap fun i =>
    match ps.get i with
    | some v => some s!"{i.toNat}={showPropVal v}"
    | none => none
  let user := ps.user.map fun (n, v) => s!"{hexOrDash n}/{hexOrDash v}"
  "[" ++ ",".intercalate known ++ "|" ++ ",".intercalate user ++ "]"

def showWill : Option LastWill → String
  | none => "~"
  | some w => s!"w:{w.qos.toNat}:{b01 w.retain}:{hexOrDash w.topicName}:{hexOrDash w.payload}:{showProps w.properties}"

def showQosPid : QosPid → String
  | .level0 => "0 ~"
  | .level1 p => s!"1 {p.val.toNat}"
  | .level2 p => s!"2 {p.val.toNat}"

def showAck (name : String) (a : Ack) : String :=
  s!"{name} {a.pid.val.toNat} {a.reasonCode.toNat} {showProps a.properties}"

def showCodes (name : String) (s : CodesAck) : String :=
  s!"{name} {s.pid.val.toNat} {showProps s.properties} {s.topics.length}" ++
    String.join (s.topics.map fun c => s!" {c.toNat}")

def Packet.show : Packet → String
  | .connect c => s!"connect {c.protocol.level.toNat} {b01 c.cleanStart} {c.keepAlive.toNat} {showProps c.properties} {hexOrDash c.clientId} {showWill c.lastWill} {optHex c.username} {optHex c.password}"
  | .connack c => s!"connack {b01 c.sessionPresent} {c.reasonCode.toNat} {showProps c.properties}"
  | .publish p => s!"publish {b01 p.dup} {b01 p.retain} {showQosPid p.qosPid} {hexOrDash p.topicName} {showProps p.properties} {hexOrDash p.payload}"
  | .puback a => showAck "puback" a
  | .pubrec a => showAck "pubrec" a
  | .pubrel a => showAck "pubrel" a
  | .pubcomp a => showAck "pubcomp" a
  | .subscribe s => s!"subscribe {s.pid.val.toNat} {showProps s.properties} {s.topics.length}" ++
      String.join (s.topics.map fun (f, o) => s!" {hexOrDash f.text}:{o.maxQos.toNat}:{b01 o.noLocal}:{b01 o.retainAsPublished}:{o.retainHandling.toNat}")
  | .suback s => showCodes "suback" s
  | .unsubscribe u => s!"unsubscribe {u.pid.val.toNat} {showProps u.properties} {u.topics.length}" ++
      String.join (u.topics.map fun f => s!" {hexOrDash f.text}")
  | .unsuback s => showCodes "unsuback" s
  | .pingreq => "pingreq"
  | .pingresp => "pingresp"
  | .disconnect d => s!"disconnect {d.reasonCode.toNat} {showProps d.properties}"
  | .auth a => s!"auth {a.reasonCode.toNat} {showProps a.properties}"

/-! ### parser -/

def parsePropVal (allowed : List UInt8) (id : UInt8) (s : String) : Build PropVal :=
  if !allowed.contains id then .unconstructible "property-not-in-struct" else
  match propKind id with
  | none => .syntax
  | some .byte01 => match parseU8 s with
    | some b => if b ≤ 1 then .ok (.byte b) else .unconstructible "bool"
    | none => .syntax
  | some .qos01 => match parseU8 s with
    | some b => if isVariant .qos b then .ok (.byte b) else .unconstructible "code"
    | none => .syntax
  | some .u16 => match parseU16 s with
    | some v => .ok (.u16 v)
    | none => .syntax
  | some .u32 => match s.toNat? with
    | some n => if n < 4294967296 then .ok (.u32 (UInt32.ofNat n)) else .syntax
    | none => .syntax
  | some .str => do let t ← mkText (bytesOfHex s); pure (.str t)
  | some .topic => do let t ← mkText (bytesOfHex s); let t ← mkTopicName t; pure (.str t)
  | some .bin => do let b ← ofOpt (bytesOfHex s); pure (.bin b)
  | some .varint => match s.toNat? with
    | some n => if n < 268435456 then .ok (.varint n) else .unconstructible "varbyteint"
    | none => .syntax

def parseProps (allowed : List UInt8) (s : String) : Build Props :=
  if !(s.startsWith "[" && s.endsWith "]") then .syntax else
  let inner := ((s.drop 1).dropEnd 1).toString
  match inner.splitOn "|" with
  | [k, u] => do
    let kitems := if k.isEmpty then [] else k.splitOn ","
    let ps ← kitems.foldlM (fun (ps : Props) (it : String) =>
      match it.splitOn "=" with
      | [i, v] => do
        let id ← ofOpt (parseU8 i)
        let pv ← parsePropVal allowed id v
        pure (ps.set id pv)
      | _ => Build.syntax) Props.empty
    let uitems := if u.isEmpty then [] else u.splitOn ","
    uitems.foldlM (fun (ps : Props) (it : String) =>
      match it.splitOn "/" with
      | [n, v] => do
        let n ← mkText (bytesOfHex n)
        let v ← mkText (bytesOfHex v)
        pure (ps.pushUser n v)
      | _ => Build.syntax) ps
  | _ => .syntax

def parseWill (s : String) : Build (Option LastWill) :=
  if s = "~" then .ok none else
  match s.splitOn ":" with
  | ["w", q, r, t, m, ps] => do
    let q ← mkCode .qos q
    let r ← ofOpt (parseBool r)
    let t ← mkText (bytesOfHex t)
    let t ← mkTopicName t
    let m ← ofOpt (bytesOfHex m)
    let ps ← parseProps willProps ps
    pure (some ⟨q, r, t, m, ps⟩)
  | _ => .syntax

def parseAck (k : Gen.CodeKind) (pid code ps : String) : Build Ack := do
  let pid ← parsePid pid
  let code ← mkCode k code
  let ps ← parseProps ackProps ps
  pure ⟨pid, code, ps⟩

def parseCodes (k : Gen.CodeKind) (pid ps n : String) (rest : List String) : Build CodesAck := do
  let pid ← parsePid pid
  let ps ← parseProps ackProps ps
  if n.toNat? != some rest.length then .syntax else
  let cs ← mapM' (mkCode k) rest
  pure ⟨pid, ps, cs⟩

def parsePacket (toks : List String) : Build Packet :=
  match toks with
  | ["connect", p, c, k, ps, cid, w, u, pw] => do
    let p ← parseProtocol p
    let c ← ofOpt (parseBool c)
    let k ← ofOpt (parseU16 k)
    let ps ← parseProps connectProps ps
    let cid ← mkText (bytesOfHex cid)
    let w ← parseWill w
    let u ← ofOpt (parseOptHex u)
    let u ← (match u with
      | none => Build.ok none
      | some b => do let t ← mkText (some b); pure (some t))
    let pw ← ofOpt (parseOptHex pw)
    pure (.connect ⟨p, c, k, ps, cid, w, u, pw⟩)
  | ["connack", s, c, ps] => do
    let s ← ofOpt (parseBool s)
    let c ← mkCode .connectReason c
    let ps ← parseProps connackProps ps
    pure (.connack ⟨s, c, ps⟩)
  | ["publish", d, r, q, pid, t, ps, pl] => do
    let d ← ofOpt (parseBool d)
    let r ← ofOpt (parseBool r)
    let qp ← parseQosPid q pid
    let t ← mkText (bytesOfHex t)
    let t ← mkTopicName t
    let ps ← parseProps publishProps ps
    let pl ← ofOpt (bytesOfHex pl)
    pure (.publish ⟨d, r, qp, t, pl, ps⟩)
  | ["puback", pid, c, ps] => do let a ← parseAck .pubackReason pid c ps; pure (.puback a)
  | ["pubrec", pid, c, ps] => do let a ← parseAck .pubrecReason pid c ps; pure (.pubrec a)
  | ["pubrel", pid, c, ps] => do let a ← parseAck .pubrelReason pid c ps; pure (.pubrel a)
  | ["pubcomp", pid, c, ps] => do let a ← parseAck .pubcompReason pid c ps; pure (.pubcomp a)
  | "subscribe" :: pid :: ps :: n :: rest => do
    let pid ← parsePid pid
    let ps ← parseProps subscribeProps ps
    if n.toNat? != some rest.length then .syntax else
    let ts ← mapM' (fun (s : String) => match s.splitOn ":" with
      | [f, q, nl, rap, rh] => do
        let f ← mkText (bytesOfHex f)
        let f ← mkTopicFilter f
        let q ← mkCode .qos q
        let nl ← ofOpt (parseBool nl)
        let rap ← ofOpt (parseBool rap)
        let rh ← mkCode .retainHandling rh
        pure (f, (⟨q, nl, rap, rh⟩ : SubOpts))
      | _ => .syntax) rest
    pure (.subscribe ⟨pid, ps, ts⟩)
  | "suback" :: pid :: ps :: n :: rest => do
    let s ← parseCodes .subscribeReason pid ps n rest; pure (.suback s)
  | "unsuback" :: pid :: ps :: n :: rest => do
    let s ← parseCodes .unsubscribeReason pid ps n rest; pure (.unsuback s)
  | "unsubscribe" :: pid :: ps :: n :: rest => do
    let pid ← parsePid pid
    let ps ← parseProps unsubscribeProps ps
    if n.toNat? != some rest.length then .syntax else
    let ts ← mapM' (fun (s : String) => do
      let f ← mkText (bytesOfHex s)
      mkTopicFilter f) rest
    pure (.unsubscribe ⟨pid, ps, ts⟩)
  | ["pingreq"] => .ok .pingreq
  | ["pingresp"] => .ok .pingresp
  | ["disconnect", c, ps] => do
    let c ← mkCode .disconnectReason c
    let ps ← parseProps disconnectProps ps
    pure (.disconnect ⟨c, ps⟩)
  | ["auth", c, ps] => do
    let c ← mkCode .authReason c
    let ps ← parseProps authProps ps
    pure (.auth ⟨c, ps⟩)
  | _ => .syntax

end Mqtt.V5
