/-
  Mqtt.V5.Poll — `impl PollHeader for v5::Header` (src/v5/poll.rs).
-/
import Mqtt.V5.Decode
import Mqtt.Poll

namespace Mqtt.V5
open Mqtt

/-- `build_empty_packet`. -/
def buildEmptyPacket (h : Header) : Option Packet :=
  match h.typ.toNat with
  | 12 => some .pingreq
  | 13 => some .pingresp
  | 15 => if h.remainingLen = 0 then
      some (.auth { reasonCode := Gen.defaultCode .authReason, properties := Props.empty }) else none
  | 14 => if h.remainingLen = 0 then
      some (.disconnect { reasonCode := Gen.defaultCode .disconnectReason, properties := Props.empty })
      else none
  | _ => none

/-- `block_decode`. -/
def blockDecode (debug : Bool) (h : Header) : Parser ErrorV5 Packet :=
  match h.typ.toNat with
  | 1 => do let c ← Connect.decode h; pure (.connect c)
  | 2 => do let c ← Connack.decode h; pure (.connack c)
  | 3 => do let p ← Publish.decode h; pure (.publish p)
  | 4 => do let a ← Ack.decode .pubackReason h; pure (.puback a)
  | 5 => do let a ← Ack.decode .pubrecReason h; pure (.pubrec a)
  | 6 => do let a ← Ack.decode .pubrelReason h; pure (.pubrel a)
  | 7 => do let a ← Ack.decode .pubcompReason h; pure (.pubcomp a)
  | 8 => do let s ← Subscribe.decode debug h; pure (.subscribe s)
  | 9 => do let s ← CodesAck.decode .subscribeReason h; pure (.suback s)
  | 10 => do let u ← Unsubscribe.decode debug h; pure (.unsubscribe u)
  | 11 => do let s ← CodesAck.decode .unsubscribeReason h; pure (.unsuback s)
  | 14 => do let d ← Disconnect.decode h; pure (.disconnect d)
  | 15 => do let a ← Auth.decode h; pure (.auth a)
  | 12 | 13 => Parser.panic "v5/poll.rs unreachable!()"
  | _ => Parser.panic "packet type outside 1..15"

def pollFamily (debug : Bool) : Poll.Family Header Packet ErrorV5 where
  newWith := Header.newWith
  buildEmpty := buildEmptyPacket
  blockDecode := blockDecode debug
  remainingLen := fun h => h.remainingLen
  isEof := ErrorV5.isEof
  ofCommon := ErrorV5.common

end Mqtt.V5
