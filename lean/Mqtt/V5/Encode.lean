/-
  Mqtt.V5.Encode — `Encodable` impls and `Packet::encode` / `encode_len` of v5.

  `encode_len()` of a body returns `usize` in the code; here `Except String Nat`
  where `.error` is a panic site (`expect` in the property-length macros).
-/
import Mqtt.V5.Types

namespace Mqtt.V5
open Mqtt

abbrev PanicOr := Except String

def b2u8 (b : Bool) : UInt8 := if b then 1 else 0

/-- `impl Encodable for LastWill`. -/
def LastWill.encode (w : LastWill) : PanicOr Bytes := do
  let p ← w.properties.encode willProps
  pure (p ++ writeBytes w.topicName ++ writeBytes w.payload)
def LastWill.encodeLen (w : LastWill) : PanicOr Nat := do
  let p ← w.properties.encodeLen willProps
  pure (p + 4 + w.topicName.length + w.payload.length)

def Connect.flags (c : Connect) : UInt8 :=
  let f : UInt8 := 0
  let f := if c.cleanStart then f ||| 0b10 else f
  let f := if c.username.isSome then f ||| 0b10000000 else f
  let f := if c.password.isSome then f ||| 0b01000000 else f
  match c.lastWill with
  | some w =>
    let f := f ||| 0b00000100
    let f := f ||| (w.qos <<< 3)
    if w.retain then f ||| 0b00100000 else f
  | none => f

/-- `impl Encodable for Connect`. -/
def Connect.encode (c : Connect) : PanicOr Bytes := do
  let p ← c.properties.encode connectProps
  let w ← (match c.lastWill with
    | some w => w.encode
    | none => pure [] : PanicOr Bytes)
  pure (c.protocol.encode ++ [c.flags] ++ u16be c.keepAlive ++ p ++ writeBytes c.clientId ++ w ++
    (match c.username with | some u => writeBytes u | none => []) ++
    (match c.password with | some p => writeBytes p | none => []))

def Connect.encodeLen (c : Connect) : PanicOr Nat := do
  let p ← c.properties.encodeLen connectProps
  let w ← (match c.lastWill with
    | some w => w.encodeLen
    | none => pure 0 : PanicOr Nat)
  pure (c.protocol.encodeLen + (1 + 2) + p + (2 + c.clientId.length) + w +
    (match c.username with | some u => 2 + u.length | none => 0) +
    (match c.password with | some p => 2 + p.length | none => 0))

/-- `impl Encodable for Connack`. -/
def Connack.encode (c : Connack) : PanicOr Bytes := do
  let p ← c.properties.encode connackProps
  pure ([b2u8 c.sessionPresent, c.reasonCode] ++ p)
def Connack.encodeLen (c : Connack) : PanicOr Nat := do
  let p ← c.properties.encodeLen connackProps
  pure (2 + p)

/-- `impl Encodable for Disconnect` (short forms for default properties). -/
def Disconnect.encode (d : Disconnect) : PanicOr Bytes :=
  if d.properties.isDefault disconnectProps then
    pure (if d.reasonCode != Gen.defaultCode .disconnectReason then [d.reasonCode] else [])
  else do
    let p ← d.properties.encode disconnectProps
    pure (d.reasonCode :: p)
def Disconnect.encodeLen (d : Disconnect) : PanicOr Nat :=
  if d.properties.isDefault disconnectProps then
    pure (if d.reasonCode == Gen.defaultCode .disconnectReason then 0 else 1)
  else do
    let p ← d.properties.encodeLen disconnectProps
    pure (1 + p)

/-- `impl Encodable for Auth`. -/
def Auth.encode (a : Auth) : PanicOr Bytes :=
  if a.reasonCode != Gen.defaultCode .authReason || !(a.properties.isDefault authProps) then do
    let p ← a.properties.encode authProps
    pure (a.reasonCode :: p)
  else pure []
def Auth.encodeLen (a : Auth) : PanicOr Nat :=
  if a.reasonCode == Gen.defaultCode .authReason && a.properties.isDefault authProps then pure 0
  else do
    let p ← a.properties.encodeLen authProps
    pure (1 + p)

def pidBytes : QosPid → Bytes
  | .level0 => []
  | .level1 p => u16be p.val
  | .level2 p => u16be p.val

/-- `impl Encodable for Publish`. -/
def Publish.encode (p : Publish) : PanicOr Bytes := do
  let pr ← p.properties.encode publishProps
  pure (writeBytes p.topicName ++ pidBytes p.qosPid ++ pr ++ p.payload)
def Publish.encodeLen (p : Publish) : PanicOr Nat := do
  let pr ← p.properties.encodeLen publishProps
  pure (2 + p.topicName.length + (match p.qosPid with | .level0 => 0 | _ => 2) + pr + p.payload.length)

def Publish.controlByte (p : Publish) : UInt8 :=
  let cb : UInt8 := match p.qosPid with
    | .level0 => 0b00110000
    | .level1 _ => 0b00110010
    | .level2 _ => 0b00110100
  let cb := if p.dup then cb ||| 0b00001000 else cb
  if p.retain then cb ||| 0b00000001 else cb

/-- `impl Encodable for Puback/Pubrec/Pubrel/Pubcomp` (`k` = the reason-code enum).
After fix F2 the reason byte is written whenever the properties are non-default. -/
def Ack.encode (k : Gen.CodeKind) (a : Ack) : PanicOr Bytes :=
  if a.reasonCode != Gen.defaultCode k || !(a.properties.isDefault ackProps) then
    if !(a.properties.isDefault ackProps) then do
      let p ← a.properties.encode ackProps
      pure (u16be a.pid.val ++ [a.reasonCode] ++ p)
    else pure (u16be a.pid.val ++ [a.reasonCode])
  else pure (u16be a.pid.val)
def Ack.encodeLen (k : Gen.CodeKind) (a : Ack) : PanicOr Nat :=
  if a.properties.isDefault ackProps then
    pure (if a.reasonCode == Gen.defaultCode k then 2 else 3)
  else do
    let p ← a.properties.encodeLen ackProps
    pure (3 + p)

/-- `SubscriptionOptions::to_u8`. -/
def SubOpts.toU8 (o : SubOpts) : UInt8 :=
  let b := o.maxQos
  let b := if o.noLocal then b ||| 0b100 else b
  let b := if o.retainAsPublished then b ||| 0b1000 else b
  b ||| (o.retainHandling <<< 4)

/-- `impl Encodable for Subscribe`. -/
def Subscribe.encode (s : Subscribe) : PanicOr Bytes := do
  let p ← s.properties.encode subscribeProps
  pure (u16be s.pid.val ++ p ++ s.topics.flatMap (fun (f, o) => writeBytes f.text ++ [o.toU8]))
def Subscribe.encodeLen (s : Subscribe) : PanicOr Nat := do
  let p ← s.properties.encodeLen subscribeProps
  pure (2 + p + (s.topics.map (fun (f, _) => 3 + f.text.length)).sum)

/-- `impl Encodable for Suback/Unsuback`. -/
def CodesAck.encode (s : CodesAck) : PanicOr Bytes := do
  let p ← s.properties.encode ackProps
  pure (u16be s.pid.val ++ p ++ s.topics)
def CodesAck.encodeLen (s : CodesAck) : PanicOr Nat := do
  let p ← s.properties.encodeLen ackProps
  pure (2 + p + s.topics.length)

/-- `impl Encodable for Unsubscribe`. -/
def Unsubscribe.encode (u : Unsubscribe) : PanicOr Bytes := do
  let p ← u.properties.encode unsubscribeProps
  pure (u16be u.pid.val ++ p ++ u.topics.flatMap (fun f => writeBytes f.text))
def Unsubscribe.encodeLen (u : Unsubscribe) : PanicOr Nat := do
  let p ← u.properties.encodeLen unsubscribeProps
  pure (2 + p + (u.topics.map (fun f => 2 + f.text.length)).sum)

/-- control byte, `encode_len()`, `encode()` of the body of each packet type with a body -/
def Packet.parts : Packet → Option (UInt8 × PanicOr Nat × PanicOr Bytes)
  | .pingreq | .pingresp => none
  | .connect c => some (0b00010000, c.encodeLen, c.encode)
  | .connack c => some (0b00100000, c.encodeLen, c.encode)
  | .publish p => some (p.controlByte, p.encodeLen, p.encode)
  | .puback a => some (0b01000000, a.encodeLen .pubackReason, a.encode .pubackReason)
  | .pubrec a => some (0b01010000, a.encodeLen .pubrecReason, a.encode .pubrecReason)
  | .pubrel a => some (0b01100010, a.encodeLen .pubrelReason, a.encode .pubrelReason)
  | .pubcomp a => some (0b01110000, a.encodeLen .pubcompReason, a.encode .pubcompReason)
  | .subscribe s => some (0b10000010, s.encodeLen, s.encode)
  | .suback s => some (0b10010000, s.encodeLen, s.encode)
  | .unsubscribe u => some (0b10100010, u.encodeLen, u.encode)
  | .unsuback s => some (0b10110000, s.encodeLen, s.encode)
  | .disconnect d => some (0b11100000, d.encodeLen, d.encode)
  | .auth a => some (0b11110000, a.encodeLen, a.encode)

/-- `Packet::encode` (through `encode_packet`: `encode_len` first, then `encode`). -/
def Packet.encode (debug : Bool) (p : Packet) : EncRes VarBytes :=
  match p with
  | .pingreq => .ok (.fixed2 0b11000000 0)
  | .pingresp => .ok (.fixed2 0b11010000 0)
  | _ =>
    match p.parts with
    | none => .panic "unreachable"
    | some (cb, len, body) =>
      match len with
      | .error s => .panic s
      | .ok n =>
        match totalLen n with
        | .error e => .err e
        | .ok total =>
          match body with
          | .error s => .panic s
          | .ok b =>
            let buf := cb :: (writeVarInt n ++ b)
            if debug && buf.length != total then .panic "utils.rs:181 debug_assert_eq"
            else .ok (.dynamic buf)

/-- `Packet::encode_len`. -/
def Packet.encodeLen (p : Packet) : EncRes Nat :=
  match p with
  | .pingreq | .pingresp => .ok 2
  | _ =>
    match p.parts with
    | none => .panic "unreachable"
    | some (_, len, _) =>
      match len with
      | .error s => .panic s
      | .ok n =>
        match totalLen n with
        | .error e => .err e
        | .ok t => .ok t

end Mqtt.V5
