/-
  Mqtt.V5.Types — packet values of MQTT v5.0 (src/v5/*.rs).  Enum fields are held
  as the discriminant byte of the variant; every property struct is a `Props`
  restricted to its identifier list (see Mqtt.V5.Props).
-/
import Mqtt.V5.Props

namespace Mqtt.V5
open Mqtt

structure LastWill where
  qos : UInt8
  retain : Bool
  topicName : Bytes
  payload : Bytes
  properties : Props

structure Connect where
  protocol : Protocol
  cleanStart : Bool
  keepAlive : UInt16
  properties : Props
  clientId : Bytes
  lastWill : Option LastWill
  username : Option Bytes
  password : Option Bytes

structure Connack where
  sessionPresent : Bool
  reasonCode : UInt8
  properties : Props

structure Disconnect where
  reasonCode : UInt8
  properties : Props

structure Auth where
  reasonCode : UInt8
  properties : Props

structure Publish where
  dup : Bool
  retain : Bool
  qosPid : QosPid
  topicName : Bytes
  payload : Bytes
  properties : Props

/-- PUBACK / PUBREC / PUBREL / PUBCOMP bodies (four Rust types of identical shape). -/
structure Ack where
  pid : Pid
  reasonCode : UInt8
  properties : Props

structure SubOpts where
  maxQos : UInt8
  noLocal : Bool
  retainAsPublished : Bool
  retainHandling : UInt8
  deriving DecidableEq, Repr, Inhabited

structure Subscribe where
  pid : Pid
  properties : Props
  topics : List (Topic.TopicFilter × SubOpts)

/-- SUBACK / UNSUBACK bodies. -/
structure CodesAck where
  pid : Pid
  properties : Props
  topics : List UInt8

structure Unsubscribe where
  pid : Pid
  properties : Props
  topics : List Topic.TopicFilter

inductive Packet
  | connect (c : Connect)
  | connack (c : Connack)
  | publish (p : Publish)
  | puback (a : Ack)
  | pubrec (a : Ack)
  | pubrel (a : Ack)
  | pubcomp (a : Ack)
  | subscribe (s : Subscribe)
  | suback (s : CodesAck)
  | unsubscribe (u : Unsubscribe)
  | unsuback (s : CodesAck)
  | pingreq
  | pingresp
  | disconnect (d : Disconnect)
  | auth (a : Auth)

/-- Fixed header (`v5::Header`). -/
structure Header where
  typ : UInt8
  dup : Bool
  qos : UInt8
  retain : Bool
  remainingLen : Nat
  deriving DecidableEq, Repr, Inhabited

/-- `Header::new_with`, from the table extracted from the running code (Tie A). -/
def Header.newWith (hd : UInt8) (remainingLen : Nat) : Except ErrorV5 Header :=
  match Gen.headerV5.getD hd.toNat (.error .invalidHeader) with
  | .ok r => .ok ⟨r.typ, r.dup, r.qos, r.retain, remainingLen⟩
  | .error e => .error (.common e)

/-- The reason-code enum of each acknowledgement packet type. -/
def ackKind (typ : UInt8) : Gen.CodeKind :=
  match typ.toNat with
  | 4 => .pubackReason
  | 5 => .pubrecReason
  | 6 => .pubrelReason
  | 7 => .pubcompReason
  | 9 => .subscribeReason
  | _ => .unsubscribeReason

end Mqtt.V5
