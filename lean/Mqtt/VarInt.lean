/-
  Mqtt.VarInt — variable byte integers and the length helpers of
  `src/common/utils.rs` (`write_var_int`, `decode_var_int`, `var_int_len`,
  `total_len`, `header_len`, `remaining_len`, `decode_raw_header`).

  The four length helpers are *lookups in tables regenerated from the running
  code on every check* (`Mqtt.Gen.Tables`, Tie A): the harness scans the real
  functions over 0 ..= 2^28+8 and emits their break points.
-/
import Mqtt.Basic
import Mqtt.Error
import Mqtt.Gen.Tables

namespace Mqtt

/-- `write_var_int`: base-128 little-endian digits, continuation bit on all but
the last.  (The Rust loop is over `usize`; no upper bound is enforced here.) -/
def writeVarInt (n : Nat) : Bytes :=
  if h : n / 128 > 0 then UInt8.ofNat (n % 128 + 128) :: writeVarInt (n / 128)
  else [UInt8.ofNat (n % 128)]
termination_by n
decreasing_by omega

/-- The loop of `decode_var_int` with its counter `i` and accumulator.
`var_int |= (byte & 0x7F) << (7*i)` is rendered additively (the bit ranges are
disjoint, so `|` and `+` coincide; checked against the code by Tie B). -/
def decodeVarIntAux {ε} (inv : ε) : Nat → Nat → Parser ε (Nat × Nat)
  | _, _, [] => .more
  | i, acc, b :: rest =>
    let acc' := acc + (b.toNat % 128) * 128 ^ i
    if b.toNat < 128 then .ok (acc', i + 1) rest
    else if i < 3 then decodeVarIntAux inv (i + 1) acc' rest
    else .err inv

/-- `decode_var_int`: value and number of bytes consumed. -/
def decodeVarInt : Parser Error (Nat × Nat) := decodeVarIntAux Error.invalidVarByteInt 0 0

/-- `decode_raw_header`: control byte, remaining length. -/
def decodeRawHeader : Parser Error (UInt8 × Nat) := fun bs =>
  match bs with
  | [] => .more
  | t :: rest =>
    match decodeVarInt rest with
    | .ok (n, _) rest' => .ok (t, n) rest'
    | .more => .more
    | .err e => .err e
    | .panic s => .panic s

/-- Value of a step function given as ascending `(lower bound, value)` rows. -/
def lookupStep : List (Nat × Nat) → Nat → Nat → Nat
  | [], _, dflt => dflt
  | (lo, v) :: rest, n, dflt => if lo ≤ n then lookupStep rest n v else dflt

/-- `var_int_len`. -/
def varIntLen (n : Nat) : Except Error Nat :=
  if n < Gen.varIntLenErrFrom then .ok (lookupStep Gen.varIntLenSteps n 0)
  else .error .invalidVarByteInt

/-- `total_len`. -/
def totalLen (n : Nat) : Except Error Nat :=
  if n < Gen.totalLenErrFrom then .ok (n + lookupStep Gen.totalLenSteps n 0)
  else .error .invalidVarByteInt

/-- `header_len` (defined for every argument; meaningful for valid totals). -/
def headerLen (total : Nat) : Nat := lookupStep Gen.headerLenSteps total 0

/-- `remaining_len` (the Rust subtraction underflows for `total < 2`). -/
def remainingLen (total : Nat) : Nat := total - lookupStep Gen.remainingLenSteps total 0

end Mqtt
