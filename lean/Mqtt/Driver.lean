/-
  Mqtt.Driver — the line protocol of the correspondence check (Tie B), model side.
  One op per line in, one canonical result line out; the Rust harness
  (`/verif/harness`, `run`) implements the same ops on the real crate.
-/
import Mqtt.VarInt
import Mqtt.Pid
import Mqtt.Topic
import Mqtt.V3.Encode
import Mqtt.V3.Decode
import Mqtt.V3.Poll
import Mqtt.V3.Text
import Mqtt.V5.Encode
import Mqtt.V5.Decode
import Mqtt.V5.Poll
import Mqtt.V5.Text
import Mqtt.IO
import Spec.DecodeV3
import Spec.DecodeV5

namespace Mqtt.Driver
open Mqtt

def showExceptNat : Except Error Nat → String
  | .ok v => toString v
  | .error e => e.show

def opVi (n : Nat) : String :=
  let rl := if n ≥ 2 then toString (remainingLen n) else "-"
  let w := if n < 268435456 then hexOfBytes (writeVarInt n) else "-"
  s!"vil={showExceptNat (varIntLen n)} tl={showExceptNat (totalLen n)} hl={headerLen n} rl={rl} w={w}"

def opVib (bs : Bytes) : String :=
  match decodeRawHeader bs with
  | .ok (t, n) rest => s!"ok {t.toNat} {n} {bs.length - rest.length}"
  | .more => "more"
  | .err e => s!"err {e.show}"
  | .panic s => s!"panic {s}"

def showPidRes : Except String Pid → String
  | .ok p => toString p.val.toNat
  | .error s => s!"panic[{s}]"

def opPid (p u : Nat) : String :=
  match Pid.tryFrom (UInt16.ofNat p) with
  | .error e => s!"try={e.show}"
  | .ok pid =>
    let u16 := UInt16.ofNat u
    s!"try=ok add={showPidRes (pid.add u16)} sub={showPidRes (pid.sub u16)} addassign={showPidRes (pid.addAssign u16)} subassign={showPidRes (pid.subAssign u16)} value={pid.val.toNat}"

def b01 (b : Bool) : String := if b then "1" else "0"

def showOptBytes : Except String (Option Bytes) → String
  | .ok none => "~"
  | .ok (some b) => hexOrDash b
  | .error e => s!"panic[{e}]"

def opTf (debug : Bool) (bs : Bytes) : String :=
  match Utf8.decode bs with
  | none => "notutf8"
  | some cs =>
    match Topic.filterIsInvalid debug cs with
    | .panic s => s!"panic[{s}]"
    | .invalid => "inv=1 sep=0"
    | .valid sep =>
      let f : Topic.TopicFilter := ⟨bs, sep⟩
      s!"inv=0 sep={sep} shared={b01 f.isShared} group={showOptBytes f.sharedGroupName} filter={showOptBytes f.sharedFilter} sys={b01 (Topic.nameIsSys cs)}"

/-- `tfcmp a b`: Ord / PartialEq of two constructed filters (hand-written impls in the code). -/
def opTfCmp (debug : Bool) (a b : Bytes) : String :=
  let mk (bs : Bytes) : Option Topic.TopicFilter :=
    match Utf8.decode bs with
    | none => none
    | some cs => match Topic.filterIsInvalid debug cs with
      | .valid sep => some ⟨bs, sep⟩
      | _ => none
  match mk a, mk b with
  | some f, some g =>
    let o := match f.cmp g with | .lt => "lt" | .eq => "eq" | .gt => "gt"
    let r := match g.cmp f with | .lt => "lt" | .eq => "eq" | .gt => "gt"
    s!"cmp={o} rev={r} eq={b01 (decide (f = g))}"
  | _, _ => "inv"

def opTn (bs : Bytes) : String :=
  match Utf8.decode bs with
  | none => "notutf8"
  | some cs =>
    if Topic.nameIsInvalid cs then "inv=1"
    else s!"inv=0 shared={b01 (Topic.nameIsShared cs)} sys={b01 (Topic.nameIsSys cs)}"

def opUtf8 (bs : Bytes) : String := s!"valid={b01 (Utf8.valid bs)}"

/-! ### packets -/

def showEncLen : Except Error Nat → String
  | .ok n => toString n
  | .error e => e.show

def parseTerm (s0 : String) : Option V3.Term :=
  -- `err:Kind+<hex>`: the transport fails ONCE with that kind and would then deliver <hex>; a decoder
  -- that has returned the error never sees those bytes, so for the model this is `err:Kind`
  let s := (s0.splitOn "+").headD s0
  if s = "eof" then some .eof
  else match s.splitOn ":" with
    | ["err", k] => (IoKind.ofName? k).map V3.Term.err
    | _ => none

def parseSched (s : String) : Option (List Poll.Sched) :=
  if s = "-" then some [] else
  (s.splitOn ",").mapM fun it =>
    if it = "p" then some Poll.Sched.pending
    else if it = "d" then some Poll.Sched.pendingDrop
    else if it.startsWith "c" then (it.drop 1).toString.toNat?.map Poll.Sched.chunk
    -- `i<n>`: the transport fills through initialize_unfilled()+advance(n); same event for the model
    else if it.startsWith "i" then (it.drop 1).toString.toNat?.map Poll.Sched.chunk
    else none

/-- End of the current frame as far as the stream determines it: header + remaining length when the
length field is complete, 5 when it runs into a fifth continuation byte, and one past the stream when
it is cut short (the decoder may ask for the byte that would complete the header). -/
def frameLimit (bs : Bytes) : Nat :=
  let rec go (rest : Bytes) (k : Nat) (mul val : Nat) : Nat :=
    match k, rest with
    | 0, _ => 5
    | _, [] => bs.length + 1
    | k + 1, b :: rest' =>
      let val' := val + (b.toNat % 128) * mul
      if b.toNat < 128 then (1 + (4 - k)) + val' else go rest' k (mul * 128) val'
  match bs with
  | [] => 1
  | _ :: rest => go rest 4 1 0

/-- The PROPERTY-relevant abstraction of the read requests (position, capacity): every offered buffer
has room for at least one byte and ends within the current frame.  (The exact sizes of the reads are an
implementation choice; comparing them would flag harmless rewrites.) -/
def showReqs (bs : Bytes) (l : List (Nat × Nat)) : String :=
  match l.find? (fun (a, b) => b == 0 || a + b > frameLimit bs) with
  | none => "ok"
  | some (a, b) => s!"bad({a}:{b})"

def v3ShowOut : V3.Out Error V3.Packet → String
  | .ok p n => s!"ok {n} {p.show}"
  | .err e => s!"err {e.show}"
  | .panic s => s!"panic[{s}]"

def v3Dec (debug : Bool) (bs : Bytes) : String :=
  match V3.decodeBlocking debug bs with
  | .ok (some p) n => s!"ok {n} {p.show}"
  | .ok none _ => "none"
  | .err e => s!"err {e.show}"
  | .panic s => s!"panic[{s}]"

def v3Hdr (bs : Bytes) : String :=
  match V3.headerDecodeBlocking bs with
  | .ok h n => s!"ok {h.typ.toNat} {b01 h.dup} {h.qos.toNat} {b01 h.retain} {h.remainingLen} {n}"
  | .err e => s!"err {e.show}"
  | .panic s => s!"panic[{s}]"

def v3Parts : V3.Packet → String
  | .connect c =>
    let w := match c.lastWill with
      | some w => s!" will={hexOrDash w.encode}/{w.encodeLen}"
      | none => ""
    s!"body={hexOrDash c.encode} blen={c.encodeLen} proto={hexOrDash c.protocol.encode}/{c.protocol.encodeLen}{w}"
  | .publish p => s!"body={hexOrDash p.encode} blen={p.encodeLen}"
  | .subscribe x => s!"body={hexOrDash x.encode} blen={x.encodeLen}"
  | .suback x => s!"body={hexOrDash x.encode} blen={x.encodeLen}"
  | .unsubscribe x => s!"body={hexOrDash x.encode} blen={x.encodeLen}"
  | _ => "body=~"

def v3Enc (debug : Bool) (toks : List String) : String :=
  match V3.parsePacket toks with
  | .syntax => "bad-op"
  | .unconstructible w => s!"unconstructible {w}"
  | .ok p =>
    let len := showEncLen p.encodeLen
    match p.encode debug with
    | .ok vb => s!"ok {hexOfBytes vb.asRef} len={len} {v3Parts p}"
    | .err e => s!"err {e.show} len={len}"
    | .panic s => s!"panic[{s}]"

def v3Poll (debug : Bool) (bs : Bytes) (sched : List Poll.Sched) (term : V3.Term) : String :=
  let t : Poll.Term := match term with
    | .eof => .eof
    | .err k => .err k
  let r := Poll.run (V3.pollFamily debug) debug bs sched t
  let res := match r.result with
    | .ok total body p => s!"ok total={total} body={hexOrDash body} {p.show}"
    | .err e => s!"err {e.show}"
    | .panic s => s!"panic[{s}]"
  s!"{res} consumed={r.consumed} pend={r.log.pendings} reqs={showReqs bs r.log.requests}"

def v3Cwp (proto : String) (bs : Bytes) : String :=
  match V3.parseProtocol proto with
  | .ok p =>
    match V3.Connect.decodeWithProtocol p bs with
    | .ok c rest => s!"ok {bs.length - rest.length} {(V3.Packet.connect c).show}"
    | .more => "more"
    | .err e => s!"err {e.show}"
    | .panic s => s!"panic[{s}]"
  | _ => "bad-op"

def opProto (bs : Bytes) : String :=
  match Protocol.decode bs with
  | .ok p rest => s!"ok {p.name} {bs.length - rest.length}"
  | .more => "more"
  | .err e => s!"err {e.show}"
  | .panic s => s!"panic[{s}]"

/-! ### v5 packets -/

def parseTerm5 (s : String) : Option V5.Term :=
  (parseTerm s).map fun t => match t with
    | .eof => V5.Term.eof
    | .err k => V5.Term.err k

def v5ShowOut : V5.Out ErrorV5 V5.Packet → String
  | .ok p n => s!"ok {n} {p.show}"
  | .err e => s!"err {e.show}"
  | .panic s => s!"panic[{s}]"

def v5Dec (debug : Bool) (bs : Bytes) : String :=
  match V5.decodeBlocking debug bs with
  | .ok (some p) n => s!"ok {n} {p.show}"
  | .ok none _ => "none"
  | .err e => s!"err {e.show}"
  | .panic s => s!"panic[{s}]"

def v5Hdr (bs : Bytes) : String :=
  match V5.headerDecodeBlocking bs with
  | .ok h n => s!"ok {h.typ.toNat} {b01 h.dup} {h.qos.toNat} {b01 h.retain} {h.remainingLen} {n}"
  | .err e => s!"err {e.show}"
  | .panic s => s!"panic[{s}]"

def showPart (b : V5.PanicOr Bytes) (l : V5.PanicOr Nat) : String :=
  match b, l with
  | .ok b, .ok l => s!"{hexOrDash b}/{l}"
  | _, _ => "panic[part]"

def v5PropsPart (allowed : List UInt8) (ps : V5.Props) : String :=
  showPart (ps.encode allowed) (ps.encodeLen allowed)

def v5Parts : V5.Packet → String
  | .connect c =>
    let w := match c.lastWill with
      | some w => s!" will={showPart w.encode w.encodeLen} wprops={v5PropsPart V5.willProps w.properties}"
      | none => ""
    s!"body={showPart c.encode c.encodeLen} props={v5PropsPart V5.connectProps c.properties}{w}"
  | .connack c => s!"body={showPart c.encode c.encodeLen} props={v5PropsPart V5.connackProps c.properties}"
  | .publish p => s!"body={showPart p.encode p.encodeLen} props={v5PropsPart V5.publishProps p.properties}"
  | .puback a => s!"body={showPart (a.encode .pubackReason) (a.encodeLen .pubackReason)} props={v5PropsPart V5.ackProps a.properties}"
  | .pubrec a => s!"body={showPart (a.encode .pubrecReason) (a.encodeLen .pubrecReason)} props={v5PropsPart V5.ackProps a.properties}"
  | .pubrel a => s!"body={showPart (a.encode .pubrelReason) (a.encodeLen .pubrelReason)} props={v5PropsPart V5.ackProps a.properties}"
  | .pubcomp a => s!"body={showPart (a.encode .pubcompReason) (a.encodeLen .pubcompReason)} props={v5PropsPart V5.ackProps a.properties}"
  | .subscribe x => s!"body={showPart x.encode x.encodeLen} props={v5PropsPart V5.subscribeProps x.properties}"
  | .suback x => s!"body={showPart x.encode x.encodeLen} props={v5PropsPart V5.ackProps x.properties}"
  | .unsubscribe x => s!"body={showPart x.encode x.encodeLen} props={v5PropsPart V5.unsubscribeProps x.properties}"
  | .unsuback x => s!"body={showPart x.encode x.encodeLen} props={v5PropsPart V5.ackProps x.properties}"
  | .disconnect d => s!"body={showPart d.encode d.encodeLen} props={v5PropsPart V5.disconnectProps d.properties}"
  | .auth a => s!"body={showPart a.encode a.encodeLen} props={v5PropsPart V5.authProps a.properties}"
  | .pingreq | .pingresp => "body=~"

def showEncLen5 : EncRes Nat → String
  | .ok n => toString n
  | .err e => e.show
  | .panic s => s!"panic[{s}]"

def v5Enc (debug : Bool) (toks : List String) : String :=
  match V5.parsePacket toks with
  | .syntax => "bad-op"
  | .unconstructible w => s!"unconstructible {w}"
  | .ok p =>
    let len := showEncLen5 p.encodeLen
    match p.encode debug with
    | .ok vb => s!"ok {hexOfBytes vb.asRef} len={len} {v5Parts p}"
    | .err e => s!"err {e.show} len={len}"
    | .panic s => s!"panic[{s}]"

def v5Poll (debug : Bool) (bs : Bytes) (sched : List Poll.Sched) (term : V3.Term) : String :=
  let t : Poll.Term := match term with
    | .eof => .eof
    | .err k => .err k
  let r := Poll.run (V5.pollFamily debug) debug bs sched t
  let res := match r.result with
    | .ok total body p => s!"ok total={total} body={hexOrDash body} {p.show}"
    | .err e => s!"err {e.show}"
    | .panic s => s!"panic[{s}]"
  s!"{res} consumed={r.consumed} pend={r.log.pendings} reqs={showReqs bs r.log.requests}"

def v5Cwp (proto : String) (cb : UInt8) (rl : Nat) (bs : Bytes) : String :=
  match V3.parseProtocol proto, V5.Header.newWith cb rl with
  | .ok p, .ok h =>
    match V5.Connect.decodeWithProtocol h p bs with
    | .ok c rest => s!"ok {bs.length - rest.length} {(V5.Packet.connect c).show}"
    | .more => "more"
    | .err e => s!"err {e.show}"
    | .panic s => s!"panic[{s}]"
  | _, _ => "bad-op"

/-- `valid <fam> <packet>`: is the packet in the model's valid domain, and does the model
round-trip it (async decoder on encoding ++ one extra byte)?  Keeps the harness generator,
the `valid` predicate and the C01 statement in step. -/
def v3Valid (debug : Bool) (toks : List String) : String :=
  match V3.parsePacket toks with
  | .ok p =>
    let rt := match p.encode debug with
      | .ok vb => match V3.decodeAsync debug (vb.asRef ++ [0xc0]) with
        | .ok q rest => q.show == p.show && rest == [0xc0]
        | _ => false
      | _ => false
    let sp := match p.encode debug with
      | .ok vb => match Spec.decodeV3 (vb.asRef ++ [0xc0]) with
        | some (q, t) => q.show == p.show && t == vb.asRef.length
        | none => false
      | _ => false
    s!"valid={b01 p.valid} rt={b01 rt} spec={b01 sp}"
  | .unconstructible w => s!"unconstructible {w}"
  | .syntax => "bad-op"

def v5Valid (debug : Bool) (toks : List String) : String :=
  match V5.parsePacket toks with
  | .ok p =>
    let fits := match p.encodeLen with
      | .ok _ => true
      | _ => false
    let rt := match p.encode debug with
      | .ok vb => match V5.decodeAsync debug (vb.asRef ++ [0xc0]) with
        | .ok q rest => q.show == p.show && rest == [0xc0]
        | _ => false
      | _ => false
    let sp := match p.encode debug with
      | .ok vb => match Spec.decodeV5 (vb.asRef ++ [0xc0]) with
        | some (q, t) => q.show == p.show && t == vb.asRef.length
        | none => false
      | _ => false
    s!"valid={b01 (p.valid && fits)} rt={b01 rt} spec={b01 sp}"
  | .unconstructible w => s!"unconstructible {w}"
  | .syntax => "bad-op"

def parseSink (s : String) : Option (List IO.SinkItem) :=
  if s = "-" || s = "g" then some [] else
  -- a leading `g` = the sink also implements gathering writes; the encoders never issue one, so the
  -- model's sink has no such notion and the marker is dropped
  ((s.splitOn ",").filter (· != "g")).mapM fun it =>
    if it = "p" then some IO.SinkItem.pending
    else if it = "z" then some IO.SinkItem.zero
    else if it.startsWith "a" then (it.drop 1).toString.toNat?.map IO.SinkItem.accept
    else if it.startsWith "e:" then (IoKind.ofName? (it.drop 2).toString).map IO.SinkItem.err
    else none

def showWriteOut : IO.AsyncEncOut → String
  | .encodeErr e => s!"encode-err {e.show}"
  | .panic s => s!"panic[{s}]"
  | .wrote o =>
    let r := match o.result with
      | .ok () => "ok"
      | .error k => s!"err {k.name}"
    s!"{r} written={hexOrDash o.written} pend={o.pendings}"

def opEnca (debug : Bool) (fam sink : String) (toks : List String) : String :=
  match parseSink sink with
  | none => "bad-op"
  | some sc =>
    if fam = "v3" then
      match V3.parsePacket toks with
      | .ok p => showWriteOut (IO.v3EncodeAsync debug p sc)
      | .unconstructible w => s!"unconstructible {w}"
      | .syntax => "bad-op"
    else
      match V5.parsePacket toks with
      | .ok p => showWriteOut (IO.v5EncodeAsync debug p sc)
      | .unconstructible w => s!"unconstructible {w}"
      | .syntax => "bad-op"

/-- `spec <fam> <hex>`: the verdict of the independent specification decoder on a frame,
in the format of the implementation's strict (poll) decoder: `accept <total> <packet>` or
`reject`.  For frames with a non-minimally encoded variable byte integer (outside C04's
quantifier: the strict Spec rejects, the tolerant one accepts) the model's own verdict is
echoed, so that a difference between the two sides of the correspondence always means
"implementation and specification disagree on a minimally encoded frame" (or model ≠ code). -/
def opSpecV3 (debug : Bool) (bs : Bytes) : String :=
  let model := match (Poll.spec (V3.pollFamily debug) bs .eof).1 with
    | .ok t _ p => s!"accept {t} {p.show}"
    | .err _ => "reject"
    | .panic s => s!"panic[{s}]"
  match Spec.decodeV3 bs with
  | some (p, t) => s!"accept {t} {p.show}"
  | none =>
    match Spec.decodeV3Loose bs with
    | some (p, t) =>
      -- soundness up to non-minimal integers: what the model accepts here must be what the tolerant grammar says
      if model.startsWith "accept" && model != s!"accept {t} {p.show}" then s!"DISAGREE model={model} loose=accept {t} {p.show}" else model
    | none =>
      -- (K1: the grammar accepts but the packet type cannot represent it → both sides reject)
      if model.startsWith "accept" then s!"DISAGREE model accepts what the tolerant grammar rejects: {model}" else "reject"

def opSpecV5 (debug : Bool) (bs : Bytes) : String :=
  let model := match (Poll.spec (V5.pollFamily debug) bs .eof).1 with
    | .ok t _ p => s!"accept {t} {p.show}"
    | .err _ => "reject"
    | .panic s => s!"panic[{s}]"
  match Spec.decodeV5 bs with
  | some (p, t) => s!"accept {t} {p.show}"
  | none =>
    match Spec.decodeV5Loose bs with
    | some (p, t) =>
      -- soundness up to non-minimal integers: what the model accepts here must be what the tolerant grammar says
      if model.startsWith "accept" && model != s!"accept {t} {p.show}" then s!"DISAGREE model={model} loose=accept {t} {p.show}" else model
    | none =>
      -- (K1: the grammar accepts but the packet type cannot represent it → both sides reject)
      if model.startsWith "accept" then s!"DISAGREE model accepts what the tolerant grammar rejects: {model}" else "reject"

def withHex (h : String) (f : Bytes → String) : String :=
  match bytesOfHex h with
  | some bs => f bs
  | none => "bad-op"

def stepRaw (debug : Bool) (line : String) : String :=
  match line.trimAscii.toString.splitOn " " with
  | ["vi", n] => match n.toNat? with
    | some k => opVi k
    | none => "bad-op"
  | ["vib", h] => withHex h opVib
  | ["pid", p, u] => match p.toNat?, u.toNat? with
    | some a, some b => opPid a b
    | _, _ => "bad-op"
  | ["tf", h] => withHex h (opTf debug)
  | ["tfcmp", h1, h2] => match bytesOfHex h1, bytesOfHex h2 with
    | some a, some b => opTfCmp debug a b
    | _, _ => "bad-op"
  | ["tn", h] => withHex h opTn
  | ["utf8", h] => withHex h opUtf8
  | ["proto", h] => withHex h opProto
  | ["dec", "v3", h] => withHex h (v3Dec debug)
  | ["deca", "v3", h, t] => match parseTerm t with
    | some t => withHex h fun bs => v3ShowOut (V3.runAsync (V3.decodeAsync debug) bs t)
    | none => "bad-op"
  | ["hdr", "v3", h] => withHex h v3Hdr
  | "enc" :: "v3" :: toks => v3Enc debug toks
  | ["poll", "v3", h, sc, t] => match parseSched sc, parseTerm t with
    | some sc, some t => withHex h fun bs => v3Poll debug bs sc t
    | _, _ => "bad-op"
  | ["cwp", "v3", p, h] => withHex h (v3Cwp p)
  | "enca" :: fam :: sink :: toks => opEnca debug fam sink toks
  | "valid" :: "v3" :: toks => v3Valid debug toks
  | "valid" :: "v5" :: toks => v5Valid debug toks
  | ["spec", "v3", h] => withHex h (opSpecV3 debug)
  | ["spec", "v5", h] => withHex h (opSpecV5 debug)
  | ["dec", "v5", h] => withHex h (v5Dec debug)
  | ["deca", "v5", h, t] => match parseTerm5 t with
    | some t => withHex h fun bs => v5ShowOut (V5.runAsync (V5.decodeAsync debug) bs t)
    | none => "bad-op"
  | ["hdr", "v5", h] => withHex h v5Hdr
  | "enc" :: "v5" :: toks => v5Enc debug toks
  | ["poll", "v5", h, sc, t] => match parseSched sc, parseTerm t with
    | some sc, some t => withHex h fun bs => v5Poll debug bs sc t
    | _, _ => "bad-op"
  | ["cwp", "v5", p, rl, h] => match rl.toNat? with
    | some rl => withHex h (v5Cwp p 0x10 rl)
    | none => "bad-op"
  | _ => "bad-op"

/-- The Rust side can only report *that* an op panicked (catch_unwind), not where. -/
def step (debug : Bool) (line : String) : String :=
  let r := stepRaw debug line
  if (r.splitOn "panic[").length > 1 then "panic" else r

end Mqtt.Driver
