/-
  Mqtt.Driver — the line protocol of the correspondence check (Tie B), model side.
  One op per line in, one canonical result line out; the Rust harness
  (`/verif/harness`, `run`) implements the same ops on the real crate.
-/
import Mqtt.VarInt
import Mqtt.Pid
import Mqtt.Topic

namespace Mqtt.Driver
open Mqtt

def showExceptNat : Except Error Nat → String
  | .ok v => toString v
  | .error e => e.show

def opVi (n : Nat) : String :=
  let rl := if n ≥ 2 then toString (remainingLen n) else "-"
  let w := if n < 268435456 then hexOfBytes (writeVarInt n) else "-"
  s!"vil={showExceptNat (varIntLen n)} tl={showExceptNat (totalLen n)} hl={headerLen n} rl={rl} w={w}"

def opVib (bs : Bytes) : String :=
  match decodeRawHeader bs with
  | .ok (t, n) rest => s!"ok {t.toNat} {n} {bs.length - rest.length}"
  | .more => "more"
  | .err e => s!"err {e.show}"
  | .panic s => s!"panic {s}"

def showPidRes : Except String Pid → String
  | .ok p => toString p.val.toNat
  | .error s => s!"panic[{s}]"

def opPid (p u : Nat) : String :=
  match Pid.tryFrom (UInt16.ofNat p) with
  | .error e => s!"try={e.show}"
  | .ok pid =>
    let u16 := UInt16.ofNat u
    s!"try=ok add={showPidRes (pid.add u16)} sub={showPidRes (pid.sub u16)} addassign={showPidRes (pid.addAssign u16)} subassign={showPidRes (pid.subAssign u16)} value={pid.val.toNat}"

def b01 (b : Bool) : String := if b then "1" else "0"

def showOptBytes : Except String (Option Bytes) → String
  | .ok none => "~"
  | .ok (some b) => hexOrDash b
  | .error e => s!"panic[{e}]"

def opTf (debug : Bool) (bs : Bytes) : String :=
  match Utf8.decode bs with
  | none => "notutf8"
  | some cs =>
    match Topic.filterIsInvalid debug cs with
    | .panic s => s!"panic[{s}]"
    | .invalid => "inv=1 sep=0"
    | .valid sep =>
      let f : Topic.TopicFilter := ⟨bs, sep⟩
      s!"inv=0 sep={sep} shared={b01 f.isShared} group={showOptBytes f.sharedGroupName} filter={showOptBytes f.sharedFilter} sys={b01 (Topic.nameIsSys cs)}"

def opTn (bs : Bytes) : String :=
  match Utf8.decode bs with
  | none => "notutf8"
  | some cs =>
    if Topic.nameIsInvalid cs then "inv=1"
    else s!"inv=0 shared={b01 (Topic.nameIsShared cs)} sys={b01 (Topic.nameIsSys cs)}"

def opUtf8 (bs : Bytes) : String := s!"valid={b01 (Utf8.valid bs)}"

def step (line : String) : String :=
  match line.trimAscii.toString.splitOn " " with
  | ["vi", n] => match n.toNat? with
    | some k => opVi k
    | none => "bad-op"
  | ["vib", h] => match bytesOfHex h with
    | some bs => opVib bs
    | none => "bad-op"
  | ["pid", p, u] => match p.toNat?, u.toNat? with
    | some a, some b => opPid a b
    | _, _ => "bad-op"
  | ["tf", h] => match bytesOfHex h with
    | some bs => opTf false bs
    | none => "bad-op"
  | ["tfd", h] => match bytesOfHex h with
    | some bs => opTf true bs
    | none => "bad-op"
  | ["tn", h] => match bytesOfHex h with
    | some bs => opTn bs
    | none => "bad-op"
  | ["utf8", h] => match bytesOfHex h with
    | some bs => opUtf8 bs
    | none => "bad-op"
  | _ => "bad-op"

end Mqtt.Driver
