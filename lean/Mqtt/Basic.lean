/-
  Mqtt.Basic — byte strings, the reader result type, read/write primitives.

  Models `src/common/utils.rs` (read_u8/u16/u32/bytes/string, write_*), with the
  transport abstracted away: a reader is a function from the unread input to a
  `Res`.  `Res.more` is "read_exact ran out of input": what that turns into
  (Ok(None), an EOF error, a transport error) is decided by the front-end.

  No imports: this file is linked into the `mqttmodel` driver.
-/

namespace Mqtt

abbrev Bytes := List UInt8

/-- `std::io::ErrorKind`, restricted to the kinds the harness injects plus the two
the codec itself produces (`UnexpectedEof`, `WriteZero`, `InvalidData`). -/
inductive IoKind
  | unexpectedEof | connectionReset | timedOut | brokenPipe | wouldBlock
  | other | writeZero | invalidData | connectionAborted | notConnected
  | interrupted | permissionDenied | connectionRefused | invalidInput | notFound | outOfMemory
  deriving DecidableEq, Repr, Inhabited

/-- Result of running a reader on the unread input. -/
inductive Res (ε α : Type) where
  | ok (a : α) (rest : Bytes)
  | more                      -- read_exact reached the end of the available input
  | err (e : ε)
  | panic (site : String)     -- a Rust panic site (expect/unreachable/overflow/index)
  deriving Repr

abbrev Parser (ε α : Type) := Bytes → Res ε α

namespace Res

@[inline] def bind {ε α β} (r : Res ε α) (f : α → Bytes → Res ε β) : Res ε β :=
  match r with
  | .ok a rest => f a rest
  | .more => .more
  | .err e => .err e
  | .panic s => .panic s

@[inline] def map {ε α β} (f : α → β) : Res ε α → Res ε β
  | .ok a rest => .ok (f a) rest
  | .more => .more
  | .err e => .err e
  | .panic s => .panic s

@[inline] def mapErr {ε ε' α} (f : ε → ε') : Res ε α → Res ε' α
  | .ok a rest => .ok a rest
  | .more => .more
  | .err e => .err (f e)
  | .panic s => .panic s

def isPanic {ε α} : Res ε α → Bool
  | .panic _ => true
  | _ => false

def isOk {ε α} : Res ε α → Bool
  | .ok _ _ => true
  | _ => false

end Res

namespace Parser

@[inline] def pure {ε α} (a : α) : Parser ε α := fun bs => .ok a bs
@[inline] def bind {ε α β} (p : Parser ε α) (f : α → Parser ε β) : Parser ε β :=
  fun bs => (p bs).bind (fun a rest => f a rest)
@[inline] def fail {ε α} (e : ε) : Parser ε α := fun _ => .err e
@[inline] def panic {ε α} (s : String) : Parser ε α := fun _ => .panic s
@[inline] def mapErr {ε ε' α} (f : ε → ε') (p : Parser ε α) : Parser ε' α :=
  fun bs => (p bs).mapErr f

instance {ε} : Monad (Parser ε) where
  pure := Parser.pure
  bind := Parser.bind

end Parser

/-- `reader.read_exact(&mut [0u8; n])`: all `n` bytes or `more`.  A zero-length
read never touches the transport (tokio returns `Ok` at once). -/
def take {ε} (n : Nat) : Parser ε Bytes := fun bs =>
  if n ≤ bs.length then .ok (bs.take n) (bs.drop n) else .more

def readU8 {ε} : Parser ε UInt8 := fun bs =>
  match bs with
  | [] => .more
  | b :: rest => .ok b rest

/-- Big-endian 16-bit value of two bytes. -/
@[inline] def be16 (hi lo : UInt8) : UInt16 := UInt16.ofNat (hi.toNat * 256 + lo.toNat)

@[inline] def be32 (b0 b1 b2 b3 : UInt8) : UInt32 :=
  UInt32.ofNat (((b0.toNat * 256 + b1.toNat) * 256 + b2.toNat) * 256 + b3.toNat)

def readU16 {ε} : Parser ε UInt16 := fun bs =>
  match bs with
  | hi :: lo :: rest => .ok (be16 hi lo) rest
  | _ => .more

def readU32 {ε} : Parser ε UInt32 := fun bs =>
  match bs with
  | b0 :: b1 :: b2 :: b3 :: rest => .ok (be32 b0 b1 b2 b3) rest
  | _ => .more

/-- `read_bytes`: u16 length prefix, then that many bytes. -/
def readBytes {ε} : Parser ε Bytes := fun bs =>
  match readU16 (ε := ε) bs with
  | .ok n rest => take n.toNat rest
  | .more => .more
  | .err e => .err e
  | .panic s => .panic s

/-! ### writers (into a `Vec<u8>`; cannot fail) -/

@[inline] def u16be (v : UInt16) : Bytes :=
  [UInt8.ofNat (v.toNat / 256), UInt8.ofNat (v.toNat % 256)]

@[inline] def u32be (v : UInt32) : Bytes :=
  [UInt8.ofNat (v.toNat / 16777216), UInt8.ofNat (v.toNat / 65536 % 256),
   UInt8.ofNat (v.toNat / 256 % 256), UInt8.ofNat (v.toNat % 256)]

/-- `write_bytes`: `data.len() as u16` (truncating!) then the data. -/
@[inline] def writeBytes (data : Bytes) : Bytes :=
  u16be (UInt16.ofNat data.length) ++ data

/-! ### hex helpers for the driver -/

def hexDigit (n : Nat) : Char :=
  if n < 10 then Char.ofNat (48 + n) else Char.ofNat (87 + n)

def hexOfBytes (bs : Bytes) : String :=
  String.ofList (bs.flatMap fun b => [hexDigit (b.toNat / 16), hexDigit (b.toNat % 16)])

def hexVal (c : Char) : Option Nat :=
  if '0' ≤ c ∧ c ≤ '9' then some (c.toNat - 48)
  else if 'a' ≤ c ∧ c ≤ 'f' then some (c.toNat - 87)
  else if 'A' ≤ c ∧ c ≤ 'F' then some (c.toNat - 55)
  else none

def bytesOfHexChars : List Char → Option Bytes
  | [] => some []
  | [_] => none
  | a :: b :: rest =>
    match hexVal a, hexVal b, bytesOfHexChars rest with
    | some x, some y, some r => some (UInt8.ofNat (x * 16 + y) :: r)
    | _, _, _ => none

/-- `-` denotes the empty byte string on the wire protocol. -/
def bytesOfHex (s : String) : Option Bytes :=
  if s = "-" then some [] else bytesOfHexChars s.toList

def hexOrDash (bs : Bytes) : String := if bs.isEmpty then "-" else hexOfBytes bs

end Mqtt

namespace Mqtt

/-- `?` on a `Result` inside a reader: continue with the value or fail with the error. -/
@[inline] def liftExcept {ε α} : Except ε α → Parser ε α
  | .ok a => fun bs => .ok a bs
  | .error e => fun _ => .err e

/-- `x.checked_sub(y).ok_or(e)?`. -/
@[inline] def checkedSub {ε} (x y : Nat) (e : ε) : Parser ε Nat :=
  if y ≤ x then Parser.pure (x - y) else Parser.fail e

end Mqtt
