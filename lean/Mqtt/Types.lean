/-
  Mqtt.Types — shared types and helpers of both families: code tables (Tie A),
  `Protocol`, `QosPid`, `VarBytes`, string/topic readers, `encode_packet`.
-/
import Mqtt.VarInt
import Mqtt.Pid
import Mqtt.Topic

namespace Mqtt

/-- `X::from_u8(b)` for the enums written as `code as u8`: the discriminant of the
variant returned, from the table extracted from the running code. -/
def codeOfByte (k : Gen.CodeKind) (b : UInt8) : Option UInt8 := (Gen.codeTable k).lookup b

/-- `v` is the discriminant (`as u8`) of some variant of enum `k`. -/
def isVariant (k : Gen.CodeKind) (d : UInt8) : Bool := (Gen.variants k).contains d

/-- `QoS::from_u8`. -/
def qosFromU8 (b : UInt8) : Except Error UInt8 :=
  match codeOfByte .qos b with
  | some d => .ok d
  | none => .error (.invalidQos b)

def MQISDP : Bytes := [77, 81, 73, 115, 100, 112]   -- "MQIsdp"
def MQTTN : Bytes := [77, 81, 84, 84]                -- "MQTT"

/-- `Protocol::new`. -/
def Protocol.new (name : Bytes) (level : UInt8) : Except Error Protocol :=
  if name = MQISDP ∧ level = 3 then .ok .v310
  else if name = MQTTN ∧ level = 4 then .ok .v311
  else if name = MQTTN ∧ level = 5 then .ok .v500
  else if Utf8.valid name then .error (.invalidProtocol name level)
  else .error .invalidString

/-- `Protocol::to_pair`. -/
def Protocol.toPair : Protocol → Bytes × UInt8
  | .v310 => (MQISDP, 3)
  | .v311 => (MQTTN, 4)
  | .v500 => (MQTTN, 5)

/-- `Protocol::decode_async`. -/
def Protocol.decode : Parser Error Protocol := fun bs =>
  match readBytes (ε := Error) bs with
  | .ok name rest =>
    match readU8 (ε := Error) rest with
    | .ok level rest' =>
      match Protocol.new name level with
      | .ok p => .ok p rest'
      | .error e => .err e
    | .more => .more
    | .err e => .err e
    | .panic s => .panic s
  | .more => .more
  | .err e => .err e
  | .panic s => .panic s

/-- `impl Encodable for Protocol`: `encode`. -/
def Protocol.encode (p : Protocol) : Bytes :=
  let (name, level) := p.toPair
  u16be (UInt16.ofNat name.length) ++ name ++ [level]

/-- `impl Encodable for Protocol`: `encode_len` (hand-written constants in the code). -/
def Protocol.encodeLen : Protocol → Nat
  | .v310 => 2 + 6 + 1
  | .v311 => 2 + 4 + 1
  | .v500 => 2 + 4 + 1

inductive QosPid
  | level0
  | level1 (pid : Pid)
  | level2 (pid : Pid)
  deriving DecidableEq, Repr, Inhabited

/-- `read_string`: length-prefixed bytes that must be valid UTF-8. -/
def readString : Parser Error Bytes := fun bs =>
  match readBytes (ε := Error) bs with
  | .ok data rest => if Utf8.valid data then .ok data rest else .err .invalidString
  | .more => .more
  | .err e => .err e
  | .panic s => .panic s

/-- `TopicName::try_from(String)` on the bytes of a (valid UTF-8) string. -/
def topicNameTryFrom (bs : Bytes) : Except Error Bytes :=
  match Utf8.decode bs with
  | none => .error .invalidString          -- not reachable from the decoders (read_string validated)
  | some cs => if Topic.nameIsInvalid cs then .error (.invalidTopicName bs) else .ok bs

/-- `TopicFilter::try_from(String)`; `.panic` is the debug assertion. -/
def topicFilterTryFrom (debug : Bool) (bs : Bytes) : Res Error Topic.TopicFilter :=
  match Utf8.decode bs with
  | none => .err .invalidString
  | some cs =>
    match Topic.filterIsInvalid debug cs with
    | .invalid => .err (.invalidTopicFilter bs)
    | .valid sep => .ok ⟨bs, sep⟩ []
    | .panic s => .panic s

/-- `Pid::try_from(read_u16(reader)?)?`. -/
def readPid : Parser Error Pid := fun bs =>
  match readU16 (ε := Error) bs with
  | .ok v rest =>
    match Pid.tryFrom v with
    | .ok p => .ok p rest
    | .error e => .err e
  | .more => .more
  | .err e => .err e
  | .panic s => .panic s

/-- `VarBytes`. -/
inductive VarBytes
  | dynamic (v : Bytes)
  | fixed2 (a b : UInt8)
  | fixed4 (a b c d : UInt8)
  deriving DecidableEq, Repr, Inhabited

/-- `impl AsRef<[u8]> for VarBytes`. -/
def VarBytes.asRef : VarBytes → Bytes
  | .dynamic v => v
  | .fixed2 a b => [a, b]
  | .fixed4 a b c d => [a, b, c, d]

/-- Outcome of an encoder entry point. -/
inductive EncRes (α : Type)
  | ok (a : α)
  | err (e : Error)
  | panic (site : String)
  deriving Repr

/-- `encode_packet(control_byte, body)`: header from `encode_len`, then the body;
the `debug_assert_eq!(buf.len(), total)` is a panic site when `debug`. -/
def encodePacket (debug : Bool) (cb : UInt8) (bodyLen : Nat) (body : Bytes) : EncRes Bytes :=
  match totalLen bodyLen with
  | .error e => .err e
  | .ok total =>
    let buf := cb :: (writeVarInt bodyLen ++ body)
    if debug && buf.length != total then .panic "utils.rs:181 debug_assert_eq"
    else .ok buf

end Mqtt
