/-
  Mqtt.Topic — `TopicName::is_invalid`, `TopicFilter::is_invalid` (the single-pass
  state machine of src/common/types.rs:306-400) and the shared-subscription
  accessors, over `List Char` (= `value.chars()`).

  Panic sites rendered explicitly: the `debug_assert!` at types.rs:397 and the
  slice indexing of the accessors (types.rs:412-432).
-/
import Mqtt.Utf8

namespace Mqtt.Topic
open Mqtt

def LEVEL_SEP : Char := '/'
def MATCH_ONE : Char := '+'
def MATCH_ALL : Char := '#'
def SHARED_PREFIX : List Char := ['$', 's', 'h', 'a', 'r', 'e', '/']
def SYS_PREFIX : List Char := ['$', 'S', 'Y', 'S', '/']

/-- `TopicName::is_invalid`. -/
def nameIsInvalid (cs : List Char) : Bool :=
  if Utf8.byteLen cs > 65535 then true
  else cs.any (fun c => c == MATCH_ONE || c == MATCH_ALL || c == '\x00')

def nameIsShared (cs : List Char) : Bool := SHARED_PREFIX.isPrefixOf cs
def nameIsSys (cs : List Char) : Bool := SYS_PREFIX.isPrefixOf cs

/-- The mutable locals of the `for (char_idx, c) in value.chars().enumerate()` loop. -/
structure FState where
  lastSep : Option Nat := none
  hasAll : Bool := false
  hasOne : Bool := false
  byteIdx : Nat := 0
  isShared : Bool := true
  groupSep : Nat := 0      -- shared_group_sep  (u16; byte_idx ≤ 65535 here)
  filterSep : Nat := 0     -- shared_filter_sep
  deriving DecidableEq, Repr, Inhabited

/-- One iteration of the loop body; `none` is `return (true, 0)`. -/
def fstep (st : FState) (charIdx : Nat) (c : Char) : Option FState :=
  if c = '\x00' then none
  else if st.hasAll then none
  else
    let isShared :=
      if st.isShared && decide (charIdx < 7) && (c != SHARED_PREFIX.getD charIdx ' ') then false
      else st.isShared
    let st := { st with isShared := isShared }
    let next : Option FState :=
      if c = LEVEL_SEP then
        let st :=
          if st.isShared then
            if st.groupSep = 0 then { st with groupSep := st.byteIdx }
            else if st.filterSep = 0 then { st with filterSep := st.byteIdx }
            else st
          else st
        if st.hasOne && (some charIdx != st.lastSep.map (· + 2)) && (charIdx != 1) then none
        else some { st with lastSep := some charIdx, hasOne := false }
      else if c = MATCH_ALL then
        if decide (st.groupSep > 0) && decide (st.filterSep = 0) then none
        else if st.hasOne then none
        else if (some charIdx == st.lastSep.map (· + 1)) || charIdx == 0 then
          some { st with hasAll := true }
        else none
      else if c = MATCH_ONE then
        if decide (st.groupSep > 0) && decide (st.filterSep = 0) then none
        else if st.hasOne then none
        else if (some charIdx == st.lastSep.map (· + 1)) || charIdx == 0 then
          some { st with hasOne := true }
        else none
      else if st.hasOne then none            -- fix F3: an ordinary character after '+'
      else some st
    next.map fun st => { st with byteIdx := st.byteIdx + c.utf8Size }

/-- The loop. -/
def floop : List Char → Nat → FState → Option FState
  | [], _, st => some st
  | c :: cs, i, st =>
    match fstep st i c with
    | none => none
    | some st' => floop cs (i + 1) st'

inductive FRes
  | invalid                       -- (true, 0)
  | valid (sharedFilterSep : Nat) -- (false, sep)
  | panic (site : String)
  deriving DecidableEq, Repr

/-- `TopicFilter::is_invalid`; `debug` = debug assertions enabled. -/
def filterIsInvalid (debug : Bool) (cs : List Char) : FRes :=
  let len := Utf8.byteLen cs
  if len > 65535 then .invalid
  else if cs.isEmpty then .invalid
  else
    match floop cs 0 {} with
    | none => .invalid
    | some st =>
      if st.filterSep > 0 && st.filterSep == len - 1 then .invalid
      else if st.groupSep > 0 && st.filterSep == 0 then .invalid
      else if st.groupSep + 1 == st.filterSep then .invalid
      else if debug && !(st.groupSep == 0 || st.groupSep == 6) then .panic "types.rs:397 debug_assert"
      else .valid st.filterSep

/-- A constructed `TopicFilter`: its text (bytes) and the cached separator index. -/
structure TopicFilter where
  text : Bytes
  sharedFilterSep : Nat
  deriving DecidableEq, Repr, Inhabited

/-- Lexicographic comparison of byte strings = `str::cmp` / `String::cmp` in Rust (which compare the
UTF-8 bytes). -/
def lexCmp : Bytes → Bytes → Ordering
  | [], [] => .eq
  | [], _ :: _ => .lt
  | _ :: _, [] => .gt
  | a :: as, b :: bs => if a < b then .lt else if b < a then .gt else lexCmp as bs

/-- `impl Ord for TopicFilter` (= `PartialOrd`, and `PartialEq` is `cmp = eq`): the text only. -/
def TopicFilter.cmp (a b : TopicFilter) : Ordering := lexCmp a.text b.text

/-- `&inner[a..b]` on a `String`: panics unless `a ≤ b ≤ len` and both are char boundaries. -/
def strSlice (text : Bytes) (a b : Nat) : Except String Bytes :=
  if a ≤ b ∧ b ≤ text.length then
    let isBoundary (i : Nat) : Bool :=
      i == text.length || (match text[i]? with
        | some x => !(128 ≤ x.toNat && x.toNat < 192)
        | none => false)
    if isBoundary a && isBoundary b then .ok ((text.drop a).take (b - a))
    else .error "str slice: not a char boundary"
  else .error "str slice: out of range"

def TopicFilter.isShared (f : TopicFilter) : Bool := f.sharedFilterSep > 0

/-- `shared_group_name`. -/
def TopicFilter.sharedGroupName (f : TopicFilter) : Except String (Option Bytes) :=
  if f.isShared then (strSlice f.text 7 f.sharedFilterSep).map some else .ok none

/-- `shared_filter`. -/
def TopicFilter.sharedFilter (f : TopicFilter) : Except String (Option Bytes) :=
  if f.isShared then (strSlice f.text (f.sharedFilterSep + 1) f.text.length).map some else .ok none

end Mqtt.Topic
