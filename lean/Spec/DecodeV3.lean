/-
  Spec.DecodeV3 — reference decoder of MQTT 3.1 / 3.1.1 control packets, written from
  the standards (section numbers are those of MQTT 3.1.1 OASIS Standard unless noted).
  The 3.1.1 rules (fixed-header flags, CONNACK flags byte, SUBACK 0x80, binary password and
  will message) are applied to protocol level 3 as well.

    decodeV3 = splitFrame ▸ fieldsV3 (layoutV3) ▸ validV3 ▸ projectV3
-/
import Mqtt.V3.Types
import Spec.Layout

namespace Spec
open Mqtt (Bytes QosPid)
open Mqtt.V3

/-! ## (c) layouts -/

/-- Variable header + payload of each packet type (§3.1 - §3.14). -/
def layoutV3 (t : PType) (flags : UInt8) : List Item :=
  match t with
  | .connect     => [.val .str, .val .byte, .val .byte, .val .u16, .rest]  -- name, level, flags, keep alive; payload: see below
  | .connack     => [.val .byte, .val .byte]                               -- acknowledge flags, return code
  | .publish     => [.val .str, if pubQos flags = 0 then .absent else .val .u16, .rest]  -- topic, packet id (QoS > 0), payload
  | .puback | .pubrec | .pubrel | .pubcomp | .unsuback => [.val .u16]      -- packet id
  | .subscribe   => [.val .u16, .many [.str, .byte]]                       -- packet id, (filter, requested QoS)*
  | .suback      => [.val .u16, .many [.byte]]                             -- packet id, return code*
  | .unsubscribe => [.val .u16, .many [.str]]                              -- packet id, filter*
  | .pingreq | .pingresp | .disconnect | .auth => []                       -- no body

/-- §3.1.3 CONNECT payload: Client Identifier, Will Topic, Will Message, User Name, Password,
in this order, each present iff its flag is set. -/
def connectPayloadV3 (f : ConnectFlags) : List Item :=
  [ .val .str,
    if f.will then .val .str else .absent,
    if f.will then .val .bin else .absent,
    if f.username then .val .str else .absent,
    if f.password then .val .bin else .absent ]

/-- The fields of a frame.  CONNECT is the one packet whose layout depends on a field of its own
body (the Connect Flags): its payload is parsed in a second step and spliced in. -/
def fieldsV3 (minimal : Bool) (fr : Frame) : Option (List Field) := do
  let fs ← parseBody minimal (layoutV3 fr.ptype fr.flags) fr.body
  match fr.ptype, fs with
  | .connect, [name, level, .val (.byte cf), keepAlive, .rest payload] =>
    let f ← connectFlags? cf
    let ps ← parseBody minimal (connectPayloadV3 f) payload
    some ([name, level, .val (.byte cf), keepAlive] ++ ps)
  | _, _ => some fs

/-! ## (d) validation -/

def validV3 (t : PType) (flags : UInt8) (fs : List Field) : Bool :=
  fs.all Field.textOk &&   -- every UTF-8 encoded string is well formed [MQTT-1.5.3-1]
  match t, fs with
  | .connect, [.val (.str name), .val (.byte level), .val (.byte cf), _keepAlive,
               .val (.str cid), willTopic, _willMsg, _user, _pass] =>
    -- §3.1.2.1-2: "MQIsdp"/3 or "MQTT"/4
    (protocols.any fun (n, l, p) => n == name && l == level && p != .v500) &&
    -- the Will Topic is a Topic Name (§4.7)
    willTopic.str?.all isTopicName &&
    (Lenient.passwordWithoutUsername || bit cf 7 || !bit cf 6) &&
    (Lenient.anyClientId ||
      ((!cid.isEmpty || bit cf 1) && (level != 3 || (1 ≤ cid.length && cid.length ≤ 23))))
  | .connack, [.val (.byte ack), .val (.byte code)] =>
    -- §3.2.2.1: bits 7-1 reserved, bit 0 Session Present; §3.2.2.3 return codes
    ack ≤ 1 && connackCodesV3.contains code
  | .publish, [.val (.str topic), pid, .rest _] =>
    pubFlagsOk flags && isTopicName topic && (Lenient.emptyTopicName || !topic.isEmpty) &&
    pid.pidOk
  | .puback, [pid] | .pubrec, [pid] | .pubrel, [pid] | .pubcomp, [pid] | .unsuback, [pid] =>
    pid.pidOk
  | .subscribe, [pid, .many rows] =>
    -- [MQTT-3.8.3-3] at least one pair; [MQTT-3.8.3-4] requested QoS byte is 0, 1 or 2
    pid.pidOk && !rows.isEmpty &&
    rows.all fun | [.str f, .byte q] => isTopicFilter f && q ≤ 2 | _ => false
  | .suback, [pid, .many rows] =>
    -- [MQTT-3.9.3-2] return codes
    pid.pidOk && (Lenient.emptyCodeList || !rows.isEmpty) &&
    (rowBytes rows).all subackCodesV3.contains
  | .unsubscribe, [pid, .many rows] =>
    -- [MQTT-3.10.3-2] at least one filter
    pid.pidOk && !rows.isEmpty && rows.all fun | [.str f] => isTopicFilter f | _ => false
  | .pingreq, [] | .pingresp, [] | .disconnect, [] => true
  | _, _ => false

/-! ## (e) projection -/

def projectV3 (t : PType) (flags : UInt8) (fs : List Field) : Option Packet :=
  match t, fs with
  | .connect, [.val (.str name), .val (.byte level), .val (.byte cf), .val (.u16 keepAlive),
               .val (.str cid), willTopic, willMsg, user, pass] => do
    let (_, _, proto) ← protocols.find? fun (n, l, _) => n == name && l == level
    let will : Option LastWill := do
      let topic ← willTopic.str?
      let msg ← willMsg.bin?
      some { qos := UInt8.ofNat (bits cf 3 2), retain := bit cf 5, topicName := topic, message := msg }
    some (.connect { protocol := proto, cleanSession := bit cf 1, keepAlive := keepAlive,
                     clientId := cid, lastWill := will,
                     username := user.str?, password := pass.bin? })
  | .connack, [.val (.byte ack), .val (.byte code)] =>
    some (.connack { sessionPresent := bit ack 0, code := code })
  | .publish, [.val (.str topic), pid, .rest payload] =>
    let qosPid : QosPid :=
      match pubQos flags, pid.u16? with
      | 1, some v => .level1 ⟨v⟩
      | 2, some v => .level2 ⟨v⟩
      | _, _ => .level0
    some (.publish { dup := pubDup flags, retain := pubRetain flags, qosPid := qosPid,
                     topicName := topic, payload := payload })
  | .puback, [.val (.u16 v)] => some (.puback ⟨v⟩)
  | .pubrec, [.val (.u16 v)] => some (.pubrec ⟨v⟩)
  | .pubrel, [.val (.u16 v)] => some (.pubrel ⟨v⟩)
  | .pubcomp, [.val (.u16 v)] => some (.pubcomp ⟨v⟩)
  | .unsuback, [.val (.u16 v)] => some (.unsuback ⟨v⟩)
  | .subscribe, [.val (.u16 v), .many rows] =>
    some (.subscribe { pid := ⟨v⟩, topics := rows.filterMap fun
      | [.str f, .byte q] => some (topicFilterOf f, q) | _ => none })
  | .suback, [.val (.u16 v), .many rows] => some (.suback { pid := ⟨v⟩, topics := rowBytes rows })
  | .unsubscribe, [.val (.u16 v), .many rows] =>
    some (.unsubscribe { pid := ⟨v⟩, topics := rows.filterMap fun
      | [.str f] => some (topicFilterOf f) | _ => none })
  | .pingreq, [] => some .pingreq
  | .pingresp, [] => some .pingresp
  | .disconnect, [] => some .disconnect
  | _, _ => none

/-- `some (p, total)` iff `bs` starts with a well-formed MQTT 3.1 / 3.1.1 control packet of
`total` bytes whose field values are `p`. -/
def decodeV3With (minimal : Bool) (bs : Bytes) : Option (Packet × Nat) := do
  let fr ← splitFrame minimal false bs
  let fs ← fieldsV3 minimal fr
  guard (validV3 fr.ptype fr.flags fs)
  let p ← projectV3 fr.ptype fr.flags fs
  some (p, fr.total)

/-- The specification proper: every Variable Byte Integer minimally encoded ([MQTT-1.5.5-1]). -/
def decodeV3 (bs : Bytes) : Option (Packet × Nat) := decodeV3With true bs

/-- The same grammar with non-minimal Variable Byte Integers tolerated (NOT the standard:
used only to state what a decoder accepts beyond the specification). -/
def decodeV3Loose (bs : Bytes) : Option (Packet × Nat) := decodeV3With false bs

/-! ## examples (frames typed by hand) -/
section Examples

private def hex (s : String) : Bytes := (Mqtt.bytesOfHex (s.replace " " "")).getD []
private def ascii (s : String) : Bytes := s.toUTF8.toList
private def bad (s : String) : Bool := !(hex s).isEmpty && (decodeV3 (hex s)).isNone

#guard protocols.map (·.1) == [ascii "MQIsdp", ascii "MQTT", ascii "MQTT"]

-- CONNECT 3.1.1, clean session, keep alive 60, client id "abc" (+ one trailing byte of the next packet)
#guard decodeV3 (hex "10 0F 00 04 4D 51 54 54 04 02 00 3C 00 03 61 62 63 C0") ==
  some (.connect { protocol := .v311, cleanSession := true, keepAlive := 60, clientId := ascii "abc",
                   lastWill := none, username := none, password := none }, 17)
-- CONNECT 3.1 "MQIsdp", flags CE: user, password, will QoS 1, will, clean; will "w" -> "bye"; user "u"; password FF
#guard decodeV3 (hex "10 1F 00 06 4D 51 49 73 64 70 03 CE 00 0A 00 03 61 62 63 00 01 77 00 03 62 79 65 00 01 75 00 01 FF 00 00 00 00") ==
  some (.connect { protocol := .v310, cleanSession := true, keepAlive := 10, clientId := ascii "abc",
                   lastWill := some { qos := 1, retain := false, topicName := ascii "w", message := ascii "bye" },
                   username := some (ascii "u"), password := some [0xFF] }, 33)
-- leniencies: will retain without will (22), password without user name (42), empty client id with clean session 0 (00)
#guard (decodeV3 (hex "10 0F 00 04 4D 51 54 54 04 22 00 3C 00 03 61 62 63")).isSome
#guard (decodeV3 (hex "10 12 00 04 4D 51 54 54 04 42 00 3C 00 03 61 62 63 00 01 70")).isSome
#guard (decodeV3 (hex "10 0C 00 04 4D 51 54 54 04 00 00 3C 00 00")).isSome
#guard bad "10 0F 00 04 4D 51 54 54 04 03 00 3C 00 03 61 62 63"      -- reserved connect flag
#guard bad "10 0F 00 04 4D 51 54 54 04 0A 00 3C 00 03 61 62 63"      -- will QoS 1 without will flag
#guard bad "10 14 00 04 4D 51 54 54 04 1E 00 3C 00 03 61 62 63 00 01 77 00 00"  -- will QoS 3
#guard bad "10 0F 00 04 4D 51 54 54 05 02 00 3C 00 03 61 62 63"      -- level 5
#guard bad "10 0F 00 04 4D 51 54 54 03 02 00 3C 00 03 61 62 63"      -- "MQTT" with level 3
#guard bad "10 10 00 04 4D 51 54 54 04 02 00 3C 00 03 61 62 63 00"   -- body longer than its fields
#guard bad "10 0F 00 04 4D 51 54 54 04 82 00 3C 00 03 61 62 63"      -- user name flag, no user name
#guard bad "10 0F 00 04 4D 51 54 54 04 02 00 3C 00 03 61 C0 63"      -- ill-formed UTF-8 client id
#guard bad "10 0F 00 04 4D 51 54 54 04 02 00 3C 00 03 61 62"         -- frame not complete
#guard bad "11 0F 00 04 4D 51 54 54 04 02 00 3C 00 03 61 62 63"      -- fixed header flags

-- CONNACK
#guard decodeV3 (hex "20 02 01 00") == some (.connack { sessionPresent := true, code := 0 }, 4)
#guard decodeV3 (hex "20 02 00 05") == some (.connack { sessionPresent := false, code := 5 }, 4)
#guard bad "20 02 02 00"    -- reserved acknowledge flag
#guard bad "20 02 00 06"    -- reserved return code
#guard bad "20 03 00 00 00" -- too long
#guard bad "20 01 00"

-- PUBLISH
#guard decodeV3 (hex "30 07 00 03 61 2F 62 68 69") ==
  some (.publish { dup := false, retain := false, qosPid := .level0, topicName := ascii "a/b", payload := ascii "hi" }, 9)
#guard decodeV3 (hex "3B 09 00 03 61 2F 62 00 0A 68 69") ==
  some (.publish { dup := true, retain := true, qosPid := .level1 ⟨10⟩, topicName := ascii "a/b", payload := ascii "hi" }, 11)
#guard decodeV3 (hex "34 07 00 03 61 2F 62 12 34") ==
  some (.publish { dup := false, retain := false, qosPid := .level2 ⟨0x1234⟩, topicName := ascii "a/b", payload := [] }, 9)
#guard (decodeV3 (hex "38 02 00 00")).isSome                 -- leniencies: DUP with QoS 0, empty topic name
#guard bad "36 09 00 03 61 2F 62 00 0A 68 69"  -- QoS 3
#guard bad "32 09 00 03 61 2F 62 00 00 68 69"  -- packet id 0
#guard bad "30 07 00 03 61 2F 2B 68 69"        -- wildcard in topic name
#guard bad "30 07 00 03 61 00 62 68 69"        -- U+0000 in topic name
#guard bad "32 05 00 03 61 2F 62"              -- QoS 1 without packet id
#guard bad "30 80 00"                          -- remaining length not minimally encoded
#guard bad "30 FF FF FF FF 01"                 -- remaining length of five bytes

-- PUBACK .. UNSUBACK, PINGREQ .. DISCONNECT
#guard decodeV3 (hex "40 02 00 01") == some (.puback ⟨1⟩, 4)
#guard decodeV3 (hex "50 02 00 01") == some (.pubrec ⟨1⟩, 4)
#guard decodeV3 (hex "62 02 00 01") == some (.pubrel ⟨1⟩, 4)
#guard decodeV3 (hex "70 02 FF FF") == some (.pubcomp ⟨65535⟩, 4)
#guard decodeV3 (hex "B0 02 00 01") == some (.unsuback ⟨1⟩, 4)
#guard decodeV3 (hex "C0 00") == some (.pingreq, 2)
#guard decodeV3 (hex "D0 00 FF") == some (.pingresp, 2)
#guard decodeV3 (hex "E0 00") == some (.disconnect, 2)
#guard bad "60 02 00 01"    -- PUBREL flags must be 0010
#guard bad "40 02 00 00"    -- packet id 0
#guard bad "40 03 00 01 00" -- too long
#guard bad "C0 01 00"       -- PINGREQ with a body
#guard bad "F0 00"          -- type 15 is reserved
#guard bad "00 00"          -- type 0 is reserved

-- SUBSCRIBE / SUBACK / UNSUBSCRIBE
#guard decodeV3 (hex "82 0F 00 01 00 03 61 2F 23 01 00 04 2B 2F 2B 2F 02") ==
  some (.subscribe { pid := ⟨1⟩, topics := [(⟨ascii "a/#", 0⟩, 1), (⟨ascii "+/+/", 0⟩, 2)] }, 17)
#guard decodeV3 (hex "82 0F 00 02 00 0A 24 73 68 61 72 65 2F 67 2F 74 00") ==
  some (.subscribe { pid := ⟨2⟩, topics := [(⟨ascii "$share/g/t", 8⟩, 0)] }, 17)
#guard bad "80 08 00 01 00 03 61 2F 23 01"  -- flags must be 0010
#guard bad "82 02 00 01"                    -- no topic filter
#guard bad "82 08 00 01 00 03 61 2F 23 03"  -- requested QoS 3
#guard bad "82 08 00 01 00 03 61 23 2F 01"  -- '#' not last
#guard bad "82 07 00 01 00 03 61 2F 23"     -- requested QoS missing
#guard bad "82 05 00 01 00 00 00"           -- empty filter
#guard decodeV3 (hex "90 06 00 01 00 01 02 80") == some (.suback { pid := ⟨1⟩, topics := [0, 1, 2, 0x80] }, 8)
#guard decodeV3 (hex "90 02 00 01") == some (.suback { pid := ⟨1⟩, topics := [] }, 4)   -- leniency
#guard bad "90 03 00 01 03"                 -- return code 3
#guard decodeV3 (hex "A2 0A 00 07 00 01 61 00 03 62 2F 2B") ==
  some (.unsubscribe { pid := ⟨7⟩, topics := [⟨ascii "a", 0⟩, ⟨ascii "b/+", 0⟩] }, 12)
#guard bad "A2 02 00 07"                    -- no topic filter
#guard bad "A2 05 00 00 00 01 61"           -- packet id 0

end Examples
end Spec
