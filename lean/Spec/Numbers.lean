/-
  Spec.Numbers — the numeric tables of MQTT, typed from the standards
  (MQTT 3.1 IBM/Eurotech spec, MQTT 3.1.1 OASIS Standard, MQTT 5.0 OASIS Standard).
  Nothing here is derived from an implementation.  All numbers are wire values.
-/
import Mqtt.Error

namespace Spec
open Mqtt (Bytes Protocol)

/-- The fifteen control packet types. -/
inductive PType
  | connect | connack | publish | puback | pubrec | pubrel | pubcomp
  | subscribe | suback | unsubscribe | unsuback | pingreq | pingresp | disconnect | auth
  deriving DecidableEq, Repr, Inhabited

/-- Packet type nibble (fixed header byte 1, bits 7-4) and the value the flag nibble
(bits 3-0) MUST have; `none` = PUBLISH, whose flags are DUP / QoS / RETAIN.  The last column
is `true` for a type that exists in MQTT 5.0 only (nibble 15 is Reserved before 5.0; nibble 0
is Reserved in every version).
MQTT 3.1.1 §2.2.1 Table 2.1, §2.2.2 Table 2.2; MQTT 5.0 §2.1.2 Table 2-1, §2.1.3 Table 2-2. -/
def packetTypes : List (PType × UInt8 × Option UInt8 × Bool) :=
  [ (.connect,      1, some 0, false), (.connack,      2, some 0, false),
    (.publish,      3, none,   false), (.puback,       4, some 0, false),
    (.pubrec,       5, some 0, false), (.pubrel,       6, some 2, false),
    (.pubcomp,      7, some 0, false), (.subscribe,    8, some 2, false),
    (.suback,       9, some 0, false), (.unsubscribe, 10, some 2, false),
    (.unsuback,    11, some 0, false), (.pingreq,     12, some 0, false),
    (.pingresp,    13, some 0, false), (.disconnect,  14, some 0, false),
    (.auth,        15, some 0, true) ]

/-- Protocol Name (as its bytes) and Protocol Level of each version:
"MQIsdp" / 3 (MQTT 3.1 §3.1), "MQTT" / 4 (MQTT 3.1.1 §3.1.2.1-2), "MQTT" / 5 (MQTT 5.0 §3.1.2.1-2). -/
def protocols : List (Bytes × UInt8 × Protocol) :=
  [ ([0x4D, 0x51, 0x49, 0x73, 0x64, 0x70], 3, .v310),   -- "MQIsdp"
    ([0x4D, 0x51, 0x54, 0x54],             4, .v311),   -- "MQTT"
    ([0x4D, 0x51, 0x54, 0x54],             5, .v500) ]  -- "MQTT"

/-- CONNACK Connect Return codes, MQTT 3.1 §3.2 / MQTT 3.1.1 §3.2.2.3 Table 3.1: accepted,
unacceptable protocol version, identifier rejected, server unavailable, bad user name or
password, not authorized.  6-255 are reserved. -/
def connackCodesV3 : List UInt8 := [0, 1, 2, 3, 4, 5]

/-- SUBACK return codes, MQTT 3.1.1 §3.9.3: granted QoS 0/1/2, Failure (0x80). -/
def subackCodesV3 : List UInt8 := [0x00, 0x01, 0x02, 0x80]

/-- The Reason Code values each MQTT 5.0 packet type may carry:
CONNACK §3.2.2.2 Table 3-1, PUBACK §3.4.2.1 Table 3-4, PUBREC §3.5.2.1 Table 3-5,
PUBREL §3.6.2.1 Table 3-6, PUBCOMP §3.7.2.1 Table 3-7, SUBACK §3.9.3 Table 3-8,
UNSUBACK §3.11.3 Table 3-9, DISCONNECT §3.14.2.1 Table 3-10, AUTH §3.15.2.1 (cf. §2.4 Table 2-6). -/
def reasonCodesV5 : List (PType × List UInt8) :=
  [ (.connack,    [0x00, 0x80, 0x81, 0x82, 0x83, 0x84, 0x85, 0x86, 0x87, 0x88, 0x89, 0x8A, 0x8C,
                   0x90, 0x95, 0x97, 0x99, 0x9A, 0x9B, 0x9C, 0x9D, 0x9F]),
    (.puback,     [0x00, 0x10, 0x80, 0x83, 0x87, 0x90, 0x91, 0x97, 0x99]),
    (.pubrec,     [0x00, 0x10, 0x80, 0x83, 0x87, 0x90, 0x91, 0x97, 0x99]),
    (.pubrel,     [0x00, 0x92]),
    (.pubcomp,    [0x00, 0x92]),
    (.suback,     [0x00, 0x01, 0x02, 0x80, 0x83, 0x87, 0x8F, 0x91, 0x97, 0x9E, 0xA1, 0xA2]),
    (.unsuback,   [0x00, 0x11, 0x80, 0x83, 0x87, 0x8F, 0x91]),
    (.disconnect, [0x00, 0x04, 0x80, 0x81, 0x82, 0x83, 0x87, 0x89, 0x8B, 0x8D, 0x8E, 0x8F, 0x90,
                   0x93, 0x94, 0x95, 0x96, 0x97, 0x98, 0x99, 0x9A, 0x9B, 0x9C, 0x9D, 0x9E, 0x9F,
                   0xA0, 0xA1, 0xA2]),
    (.auth,       [0x00, 0x18, 0x19]) ]

/-- Data representations of property values, MQTT 5.0 §1.5 / §2.2.2.2 (also used for the
fields of packet bodies). -/
inductive WireType
  | byte | u16 | u32 | varint | str | bin | strPair
  deriving DecidableEq, Repr, Inhabited

/-- MQTT 5.0 §2.2.2.2 Table 2-4: identifier, name, type, the packets it may appear in, and
whether it may appear in the Will Properties of CONNECT. -/
def properties : List (UInt8 × String × WireType × List PType × Bool) :=
  [ (0x01, "Payload Format Indicator",          .byte,    [.publish], true),
    (0x02, "Message Expiry Interval",           .u32,     [.publish], true),
    (0x03, "Content Type",                      .str,     [.publish], true),
    (0x08, "Response Topic",                    .str,     [.publish], true),
    (0x09, "Correlation Data",                  .bin,     [.publish], true),
    (0x0B, "Subscription Identifier",           .varint,  [.publish, .subscribe], false),
    (0x11, "Session Expiry Interval",           .u32,     [.connect, .connack, .disconnect], false),
    (0x12, "Assigned Client Identifier",        .str,     [.connack], false),
    (0x13, "Server Keep Alive",                 .u16,     [.connack], false),
    (0x15, "Authentication Method",             .str,     [.connect, .connack, .auth], false),
    (0x16, "Authentication Data",               .bin,     [.connect, .connack, .auth], false),
    (0x17, "Request Problem Information",       .byte,    [.connect], false),
    (0x18, "Will Delay Interval",               .u32,     [], true),
    (0x19, "Request Response Information",      .byte,    [.connect], false),
    (0x1A, "Response Information",              .str,     [.connack], false),
    (0x1C, "Server Reference",                  .str,     [.connack, .disconnect], false),
    (0x1F, "Reason String",                     .str,     [.connack, .puback, .pubrec, .pubrel,
                                                           .pubcomp, .suback, .unsuback,
                                                           .disconnect, .auth], false),
    (0x21, "Receive Maximum",                   .u16,     [.connect, .connack], false),
    (0x22, "Topic Alias Maximum",               .u16,     [.connect, .connack], false),
    (0x23, "Topic Alias",                       .u16,     [.publish], false),
    (0x24, "Maximum QoS",                       .byte,    [.connack], false),
    (0x25, "Retain Available",                  .byte,    [.connack], false),
    (0x26, "User Property",                     .strPair, [.connect, .connack, .publish, .puback,
                                                           .pubrec, .pubrel, .pubcomp, .subscribe,
                                                           .suback, .unsubscribe, .unsuback,
                                                           .disconnect, .auth], true),
    (0x27, "Maximum Packet Size",               .u32,     [.connect, .connack], false),
    (0x28, "Wildcard Subscription Available",   .byte,    [.connack], false),
    (0x29, "Subscription Identifier Available", .byte,    [.connack], false),
    (0x2A, "Shared Subscription Available",     .byte,    [.connack], false) ]

/-! ### look-ups into the tables -/

/-- The packet type with this nibble in MQTT 5.0 (`v5`) or MQTT 3.x, and its required flags. -/
def ptypeOfNibble (v5 : Bool) (nibble : UInt8) : Option (PType × Option UInt8) :=
  (packetTypes.find? fun (_, n, _, only5) => n == nibble && (v5 || !only5)).map
    fun (t, _, flags, _) => (t, flags)

def reasonCodeOk (t : PType) (code : UInt8) : Bool :=
  match reasonCodesV5.lookup t with
  | some codes => codes.contains code
  | none => false

def propertyRow (id : UInt8) : Option (WireType × List PType × Bool) :=
  (properties.find? fun (i, _) => i == id).map fun (_, _, w, ps, will) => (w, ps, will)

def propertyWireType (id : UInt8) : Option WireType := (propertyRow id).map (·.1)

/-- May property `id` appear in packet `owner` (`none` = the Will Properties)? -/
def propertyAllowed (owner : Option PType) (id : UInt8) : Bool :=
  match propertyRow id, owner with
  | some (_, ps, _), some t => ps.contains t
  | some (_, _, will), none => will
  | none, _ => false

end Spec
