/-
  Spec.Layout — the version-independent part of the reference decoder:
  pinned leniencies, data representations (MQTT 5.0 §1.5 / 3.1.1 §1.5), fixed header
  (§2.1 / §2.2), layout descriptors and the generic body parser, text / topic checks.

  A decoder is:  splitFrame ▸ parseBody (layout) ▸ valid ▸ project.
-/
import Mqtt.Types
import Spec.Tables
import Spec.Topic
import Spec.Numbers

namespace Spec
open Mqtt (Bytes Pid)

/-! ## pinned leniencies
Semantic rules of the standards that the decoder deliberately does NOT enforce (they are
left to the user of the codec).  Every use reads `Lenient.x || <the rule>`. -/
namespace Lenient
/-- CONNECT: Will Retain = 1 while Will Flag = 0 ([MQTT-3.1.2-15] 3.1.1, [MQTT-3.1.2-13] 5.0). -/
def willRetainWithoutWill : Bool := true
/-- v3 CONNECT: Password Flag = 1 while User Name Flag = 0 ([MQTT-3.1.2-22] 3.1.1). -/
def passwordWithoutUsername : Bool := true
/-- v3 CONNECT: zero-length ClientId with CleanSession 0 ([MQTT-3.1.3-7]); 1-23 bytes in MQTT 3.1. -/
def anyClientId : Bool := true
/-- PUBLISH: zero-length Topic Name ([MQTT-4.7.3-1]; in 5.0: without a Topic Alias). -/
def emptyTopicName : Bool := true
/-- PUBLISH: DUP = 1 with QoS 0 ([MQTT-3.3.1-2]). -/
def dupWithQos0 : Bool := true
/-- SUBACK / UNSUBACK with no return / reason code at all. -/
def emptyCodeList : Bool := true
/-- UTF-8 Encoded Strings containing U+0000 ([MQTT-1.5.3-2] 3.1.1, [MQTT-1.5.4-2] 5.0).
(Control and non-characters are only SHOULD NOT in the standards.) -/
def nulInText : Bool := true
/-- v5 property values that are Protocol Errors: Receive Maximum 0 (§3.1.2.11.3),
Maximum Packet Size 0 (§3.1.2.11.4), Subscription Identifier 0 (§3.8.2.1.2), Topic Alias 0
(§3.3.2.3.4). -/
def zeroReceiveMaximum : Bool := true
def zeroMaximumPacketSize : Bool := true
def zeroSubscriptionIdentifier : Bool := true
def zeroTopicAlias : Bool := true
/-- v5 SUBSCRIBE: No Local = 1 on a Shared Subscription ([MQTT-3.8.3-4]). -/
def noLocalOnShared : Bool := true
end Lenient

/-! ## bits and integers -/

/-- Bit `i` (0 = least significant) of a byte. -/
def bit (b : UInt8) (i : Nat) : Bool := b.toNat.testBit i
/-- The `n`-bit field of a byte whose lowest bit is bit `lo`. -/
def bits (b : UInt8) (lo n : Nat) : Nat := b.toNat / 2 ^ lo % 2 ^ n

/-- Variable Byte Integer digits (§1.5.5 / 3.1.1 §2.2.3): 7 value bits per byte, least
significant group first, bit 7 = "more"; at most `maxDigits` bytes.  Value, digit count, rest. -/
def varintDigits : (maxDigits : Nat) → Bytes → Option (Nat × Nat × Bytes)
  | 0, _ | _, [] => none
  | k + 1, b :: r =>
    if b.toNat < 128 then some (b.toNat, 1, r)
    else (varintDigits k r).map fun (v, n, r') => (b.toNat % 128 + 128 * v, n + 1, r')

/-- A Variable Byte Integer of at most four bytes using the minimum number of bytes
([MQTT-1.5.5-1]). -/
def varint (minimal : Bool) (bs : Bytes) : Option (Nat × Bytes) :=
  (varintDigits 4 bs).bind fun (v, n, r) => if !minimal || n = varIntSize v then some (v, r) else none

/-- The same, also returning the number of bytes used.  (`minimal = false` is used ONLY to
state that a decoder under verification differs from this specification by nothing but its
tolerance of non-minimal encodings; the specification proper is `minimal = true`.) -/
def varintN (minimal : Bool) (bs : Bytes) : Option (Nat × Nat × Bytes) :=
  (varintDigits 4 bs).bind fun (v, n, r) => if !minimal || n = varIntSize v then some (v, n, r) else none

/-- Two Byte Integer length prefix followed by that many bytes (§1.5.4, §1.5.6). -/
def lenPrefixed : Bytes → Option (Bytes × Bytes)
  | hi :: lo :: r =>
    let n := hi.toNat * 256 + lo.toNat
    if n ≤ r.length then some (r.take n, r.drop n) else none
  | _ => none

/-! ## layout descriptors and generic fields -/

inductive Scalar
  | byte (b : UInt8) | u16 (v : UInt16) | u32 (v : UInt32) | varint (n : Nat)
  | str (s : Bytes) | bin (s : Bytes)
  deriving DecidableEq, Repr, Inhabited

/-- A raw property: identifier and value (two strings for a UTF-8 String Pair). -/
abbrev RawProp := UInt8 × List Scalar

/-- One item of a body layout. -/
inductive Item
  | val (w : WireType)          -- one value of that representation
  | absent                      -- an optional field that is not there (consumes nothing)
  | props                       -- Property Length + that many bytes of properties (§2.2.2)
  | rest                        -- all remaining bytes of the body (a payload)
  | many (row : List WireType)  -- the row repeated until the end of the body
  deriving Repr

inductive Field
  | val (v : Scalar) | absent | props (ps : List RawProp) | rest (b : Bytes)
  | many (rows : List (List Scalar))
  deriving DecidableEq, Repr, Inhabited

/-- One value of a representation (big-endian integers, §1.5.2-3). -/
def parseWire (minimal : Bool) : WireType → Bytes → Option (List Scalar × Bytes)
  | .byte, b :: r => some ([.byte b], r)
  | .u16, a :: b :: r => some ([.u16 (UInt16.ofNat (a.toNat * 256 + b.toNat))], r)
  | .u32, a :: b :: c :: d :: r =>
    some ([.u32 (UInt32.ofNat (((a.toNat * 256 + b.toNat) * 256 + c.toNat) * 256 + d.toNat))], r)
  | .varint, bs => (varint minimal bs).map fun (n, r) => ([.varint n], r)
  | .str, bs => (lenPrefixed bs).map fun (s, r) => ([.str s], r)
  | .bin, bs => (lenPrefixed bs).map fun (s, r) => ([.bin s], r)
  | .strPair, bs => do
    let (k, r) ← lenPrefixed bs
    let (v, r) ← lenPrefixed r
    some ([.str k, .str v], r)
  | _, _ => none

def parseRow (minimal : Bool) : List WireType → Bytes → Option (List Scalar × Bytes)
  | [], bs => some ([], bs)
  | w :: ws, bs => do
    let (v, r) ← parseWire minimal w bs
    let (vs, r) ← parseRow minimal ws r
    some (v ++ vs, r)

/-- Rows until the input is exhausted (`fuel` ≥ number of input bytes suffices). -/
def parseRows (minimal : Bool) (row : List WireType) : (fuel : Nat) → Bytes → Option (List (List Scalar))
  | _, [] => some []
  | 0, _ => none
  | f + 1, bs => do
    let (vs, r) ← parseRow minimal row bs
    (vs :: ·) <$> parseRows minimal row f r

/-- Properties until the input is exhausted: identifier, then a value of the type Table 2-4
gives that identifier.  (The identifier is formally a Variable Byte Integer, §2.2.2.2, but
every defined identifier is a single byte, so an unknown first byte is malformed.) -/
def parseTLVs (minimal : Bool) : (fuel : Nat) → Bytes → Option (List RawProp)
  | _, [] => some []
  | 0, _ => none
  | f + 1, id :: r => do
    let w ← propertyWireType id
    let (vs, r) ← parseWire minimal w r
    ((id, vs) :: ·) <$> parseTLVs minimal f r

/-- §2.2.2.1 Property Length (a Variable Byte Integer), then exactly that many bytes of properties. -/
def parseProps (minimal : Bool) (bs : Bytes) : Option (List RawProp × Bytes) := do
  let (len, r) ← varint minimal bs
  guard (len ≤ r.length)
  let ps ← parseTLVs minimal len (r.take len)
  some (ps, r.drop len)

/-- Fields of a layout, and the bytes left over. -/
def parseItems (minimal : Bool) : List Item → Bytes → Option (List Field × Bytes)
  | [], bs => some ([], bs)
  | .val w :: is, bs => do
    let (vs, r) ← parseWire minimal w bs
    let (fs, r) ← parseItems minimal is r
    some (vs.map .val ++ fs, r)
  | .absent :: is, bs => do
    let (fs, r) ← parseItems minimal is bs
    some (.absent :: fs, r)
  | .props :: is, bs => do
    let (ps, r) ← parseProps minimal bs
    let (fs, r) ← parseItems minimal is r
    some (.props ps :: fs, r)
  | .rest :: is, bs => do
    let (fs, r) ← parseItems minimal is []
    some (.rest bs :: fs, r)
  | .many row :: is, bs => do
    let rows ← parseRows minimal row bs.length bs
    let (fs, r) ← parseItems minimal is []
    some (.many rows :: fs, r)

/-- The body must be exactly the fields of its layout: nothing missing, nothing left. -/
def parseBody (minimal : Bool) (layout : List Item) (body : Bytes) : Option (List Field) :=
  (parseItems minimal layout body).bind fun (fs, left) => if left.isEmpty then some fs else none

/-! ## fixed header -/

structure Frame where
  ptype : PType
  flags : UInt8   -- bits 3-0 of byte 1
  body : Bytes    -- exactly Remaining Length bytes
  total : Nat     -- size of the whole control packet
  deriving Repr

/-- §2.1 / 3.1.1 §2.2: byte 1 = type nibble (must be a defined type of this version) and flag
nibble (must be the required value, Table 2-2); Remaining Length, minimally encoded; and
Remaining Length bytes must be available. -/
def splitFrame (minimal : Bool) (v5 : Bool) : Bytes → Option Frame
  | [] => none
  | b :: r => do
    let (t, required) ← ptypeOfNibble v5 (UInt8.ofNat (bits b 4 4))
    let flags := UInt8.ofNat (bits b 0 4)
    guard (required.all (· == flags))
    let (len, digits, r) ← varintN minimal r
    guard (len ≤ r.length)
    some ⟨t, flags, r.take len, 1 + digits + len⟩

/-- PUBLISH fixed-header flags (§3.3.1): DUP = bit 3, QoS = bits 2-1, RETAIN = bit 0. -/
def pubDup (flags : UInt8) : Bool := bit flags 3
def pubQos (flags : UInt8) : Nat := bits flags 1 2
def pubRetain (flags : UInt8) : Bool := bit flags 0

/-- [MQTT-3.3.1-4]: QoS bits 11 are malformed; DUP must be 0 for QoS 0 (pinned lenient). -/
def pubFlagsOk (flags : UInt8) : Bool :=
  pubQos flags ≠ 3 && (Lenient.dupWithQos0 || pubQos flags ≠ 0 || !pubDup flags)

/-- Connect Flags (§3.1.2.3 ff.): bit 7 User Name, 6 Password, 5 Will Retain, 4-3 Will QoS,
2 Will Flag, 1 Clean Session / Clean Start, 0 Reserved. -/
structure ConnectFlags where
  username : Bool
  password : Bool
  willRetain : Bool
  willQos : Nat
  will : Bool
  clean : Bool
  deriving Repr

/-- Reserved bit must be 0 ([MQTT-3.1.2-3]); Will QoS 3 is malformed; Will QoS must be 0 if the
Will Flag is 0 ([MQTT-3.1.2-13/14] 3.1.1, [MQTT-3.1.2-11/12] 5.0); Will Retain likewise (pinned
lenient: accepted and ignored). -/
def connectFlags? (b : UInt8) : Option ConnectFlags :=
  let f : ConnectFlags := ⟨bit b 7, bit b 6, bit b 5, bits b 3 2, bit b 2, bit b 1⟩
  if !bit b 0 && f.willQos ≠ 3 && (f.will || f.willQos = 0) &&
     (Lenient.willRetainWithoutWill || f.will || !f.willRetain)
  then some f else none

/-! ## text, topics, identifiers -/

/-- A UTF-8 Encoded String (§1.5.4 / 3.1.1 §1.5.3): well-formed UTF-8 (which excludes the
surrogates U+D800..U+DFFF), without U+0000 (pinned lenient). -/
def isText (s : Bytes) : Bool :=
  match Mqtt.Utf8.decode s with
  | some cs => Lenient.nulInText || !cs.contains '\x00'
  | none => false

/-- §4.7: a Topic Name (no wildcards, no U+0000). -/
def isTopicName (s : Bytes) : Bool :=
  match Mqtt.Utf8.decode s with
  | some cs => validName cs
  | none => false

def isTopicFilter (s : Bytes) : Bool :=
  match Mqtt.Utf8.decode s with
  | some cs => validFilter cs
  | none => false

def topicFilterOf (s : Bytes) : Mqtt.Topic.TopicFilter :=
  ⟨s, sharedSep ((Mqtt.Utf8.decode s).getD [])⟩

def Scalar.textOk : Scalar → Bool
  | .str s => isText s
  | _ => true

/-- Every UTF-8 String inside the field is well formed. -/
def Field.textOk : Field → Bool
  | .val v => v.textOk
  | .props ps => ps.all fun (_, vs) => vs.all Scalar.textOk
  | .many rows => rows.all fun vs => vs.all Scalar.textOk
  | _ => true

/-- A Packet Identifier field is non-zero (§2.2.1 / 3.1.1 §2.3.1); an absent one is fine. -/
def Field.pidOk : Field → Bool
  | .val (.u16 v) => v ≠ 0
  | .absent => true
  | _ => false

def Field.str? : Field → Option Bytes
  | .val (.str s) => some s
  | _ => none
def Field.bin? : Field → Option Bytes
  | .val (.bin s) => some s
  | _ => none
def Field.byte? : Field → Option UInt8
  | .val (.byte b) => some b
  | _ => none
def Field.u16? : Field → Option UInt16
  | .val (.u16 v) => some v
  | _ => none
def Field.props? : Field → Option (List RawProp)
  | .props ps => some ps
  | _ => none

/-- The single byte of each row of a `many [.byte]` field. -/
def rowBytes (rows : List (List Scalar)) : List UInt8 :=
  rows.filterMap fun | [.byte b] => some b | _ => none

end Spec
