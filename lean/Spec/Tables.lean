/-
  Spec.Tables — numbers typed from the MQTT documents (MQTT 3.1.1 OASIS os,
  MQTT 5.0 OASIS os), independent of the code.  The generated tables
  (`Mqtt.Gen.Tables`, extracted from the running code) are compared with these by
  the kernel.
-/
namespace Spec

/-- MQTT 5.0 §1.5.5 / 3.1.1 §2.2.3, Table "Size of Variable Byte Integer":
    digits ↦ (from, to). -/
def varIntRanges : List (Nat × Nat × Nat) :=
  [(1, 0, 127), (2, 128, 16383), (3, 16384, 2097151), (4, 2097152, 268435455)]

/-- Largest value of a variable byte integer. -/
def varIntMax : Nat := 268435455

/-- Number of bytes of the minimal variable-byte encoding of `n ≤ varIntMax`. -/
def varIntSize (n : Nat) : Nat :=
  if n ≤ 127 then 1 else if n ≤ 16383 then 2 else if n ≤ 2097151 then 3 else 4

end Spec
