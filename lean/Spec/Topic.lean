/-
  Spec.Topic — topic names and topic filters as MQTT defines them
  (MQTT 5.0 §4.7.1 wildcards, §4.7.3 semantics, §4.8.2 shared subscriptions;
  MQTT 3.1.1 §4.7), declaratively and independently of the code.

  Text is a list of Unicode scalar values; the length limit is on the UTF-8 size.
-/
namespace Spec

/-- UTF-8 size of a text. -/
def utf8Len (cs : List Char) : Nat := (cs.map Char.utf8Size).sum

/-- Topic levels: the text split at every '/'. Always at least one level. -/
def levels : List Char → List (List Char)
  | [] => [[]]
  | c :: cs =>
    if c = '/' then [] :: levels cs
    else match levels cs with
      | l :: ls => (c :: l) :: ls
      | [] => [[c]]

/-- §4.7.1.2: '#' must be the whole of the last level; §4.7.1.3: '+' must be the whole of a level. -/
def levelOk (isLast : Bool) (l : List Char) : Bool :=
  (!l.contains '#' || (l == ['#'] && isLast)) && (!l.contains '+' || l == ['+'])

def wildcardsOk : List (List Char) → Bool
  | [] => true
  | [l] => levelOk true l
  | l :: ls => levelOk false l && wildcardsOk ls

def sharePrefix : List Char := ['$', 's', 'h', 'a', 'r', 'e']

/-- §4.8.2: `$share/{ShareName}/{filter}`: ShareName non-empty, without '/', '+', '#';
followed by '/' and a non-empty filter. Only filters whose first level is `$share` and that
have a second level are concerned. -/
def sharedOk : List (List Char) → Bool
  | l0 :: l1 :: rest =>
    if l0 = sharePrefix then
      !rest.isEmpty && !l1.isEmpty && !l1.contains '+' && !l1.contains '#' && rest != [[]]
    else true
  | _ => true

/-- A text is a topic filter. -/
def validFilter (cs : List Char) : Bool :=
  !cs.isEmpty && decide (utf8Len cs ≤ 65535) && !cs.contains '\x00' &&
  wildcardsOk (levels cs) && sharedOk (levels cs)

/-- Byte index of the '/' that ends the share name (0 for a non-shared filter). -/
def sharedSep (cs : List Char) : Nat :=
  match levels cs with
  | l0 :: l1 :: _ => if l0 = sharePrefix then 7 + utf8Len l1 else 0
  | _ => 0

/-- A text is a topic name (§4.7.1.1: no wildcards; §1.5.4: no U+0000; ≤ 65,535 bytes). -/
def validName (cs : List Char) : Bool :=
  decide (utf8Len cs ≤ 65535) && !cs.contains '+' && !cs.contains '#' && !cs.contains '\x00'

end Spec
