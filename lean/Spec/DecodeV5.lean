/-
  Spec.DecodeV5 — reference decoder of MQTT 5.0 control packets, written from the
  MQTT Version 5.0 OASIS Standard (section numbers are those of that document).

    parseV5  = splitFrame ▸ fieldsV5 (layoutV5) ▸ validV5 ▸ projectV5
    decodeV5 = parseV5 ▸ toModelV5
-/
import Mqtt.V5.Types
import Spec.Layout

namespace Spec
open Mqtt (Bytes QosPid)
open Mqtt.V5

/-- A v5 packet value, plus all Subscription Identifiers of a PUBLISH in wire order (§3.3.2.3.8
allows several; `packet` keeps the first one under identifier 0x0B).  `[]` for other packets. -/
structure PacketV5 where
  packet : Packet
  subIds : List Nat

/-! ## (c) layouts -/

/-- Variable header + payload of each packet type (§3.1 - §3.15); `len` = Remaining Length. -/
def layoutV5 (t : PType) (flags : UInt8) (len : Nat) : List Item :=
  match t with
  | .connect     => [.val .str, .val .byte, .val .byte, .val .u16, .props, .rest]  -- name, version, flags, keep alive, properties; payload below
  | .connack     => [.val .byte, .val .byte, .props]                 -- acknowledge flags, reason code, properties
  | .publish     => [.val .str, if pubQos flags = 0 then .absent else .val .u16, .props, .rest]
  -- §3.4.2.1: Remaining Length 2 = no reason code (0x00) and no properties;
  -- §3.4.2.2.1: Remaining Length < 4 = no Property Length  (same in §3.5 - §3.7)
  | .puback | .pubrec | .pubrel | .pubcomp =>
    [.val .u16, if len < 3 then .absent else .val .byte, if len < 4 then .absent else .props]
  | .subscribe   => [.val .u16, .props, .many [.str, .byte]]          -- packet id, properties, (filter, options)*
  | .suback | .unsuback => [.val .u16, .props, .many [.byte]]         -- packet id, properties, reason code*
  | .unsubscribe => [.val .u16, .props, .many [.str]]                 -- packet id, properties, filter*
  | .pingreq | .pingresp => []
  -- §3.14.2.1: Remaining Length 0 = reason 0x00; §3.14.2.2.1: Remaining Length < 2 = no Property Length
  | .disconnect  => [if len < 1 then .absent else .val .byte, if len < 2 then .absent else .props]
  -- §3.15.2.1: Remaining Length 0 = reason 0x00 and no properties; otherwise both are required
  | .auth        => if len = 0 then [.absent, .absent] else [.val .byte, .props]

/-- §3.1.3 CONNECT payload: Client Identifier, Will Properties, Will Topic, Will Payload,
User Name, Password, in this order, each present iff its flag is set. -/
def connectPayloadV5 (f : ConnectFlags) : List Item :=
  [ .val .str,
    if f.will then .props else .absent,
    if f.will then .val .str else .absent,
    if f.will then .val .bin else .absent,
    if f.username then .val .str else .absent,
    if f.password then .val .bin else .absent ]

/-- The fields of a frame; the CONNECT payload is parsed in a second step (its layout depends on
the Connect Flags) and spliced in. -/
def fieldsV5 (minimal : Bool) (fr : Frame) : Option (List Field) := do
  let fs ← parseBody minimal (layoutV5 fr.ptype fr.flags fr.body.length) fr.body
  match fr.ptype, fs with
  | .connect, [name, level, .val (.byte cf), keepAlive, props, .rest payload] =>
    let f ← connectFlags? cf
    let ps ← parseBody minimal (connectPayloadV5 f) payload
    some ([name, level, .val (.byte cf), keepAlive, props] ++ ps)
  | _, _ => some fs

/-! ## (d) validation -/

/-- Value rules of single properties.  Every Byte property of MQTT 5.0 takes the values 0 and 1
only: Payload Format Indicator §3.3.2.3.2, Request Problem Information §3.1.2.11.7, Request
Response Information §3.1.2.11.6, Maximum QoS §3.2.2.3.4, Retain Available §3.2.2.3.5,
Wildcard / Subscription Identifier / Shared Subscription Available §3.2.2.3.11-13.
Response Topic (0x08) is a Topic Name (§3.3.2.3.5).  Zero values: see `Lenient`. -/
def propValueOk (id : UInt8) : Scalar → Bool
  | .byte b => b ≤ 1
  | .u16 v => (id != 0x21 || v != 0 || Lenient.zeroReceiveMaximum) &&
              (id != 0x23 || v != 0 || Lenient.zeroTopicAlias)
  | .u32 v => id != 0x27 || v != 0 || Lenient.zeroMaximumPacketSize
  | .varint n => id != 0x0B || n != 0 || Lenient.zeroSubscriptionIdentifier
  | .str s => id != 0x08 || isTopicName s
  | .bin _ => true

/-- The User Property may appear any number of times (§2.2.2.2 note to Table 2-4; e.g. §3.1.2.11.8);
so may the Subscription Identifier in a PUBLISH (§3.3.2.3.8).  Everything else at most once. -/
def repeatable (owner : Option PType) (id : UInt8) : Bool :=
  id == 0x26 || (id == 0x0B && owner == some .publish)

def noRepeats (owner : Option PType) : List UInt8 → Bool
  | [] => true
  | id :: ids => (repeatable owner id || !ids.contains id) && noRepeats owner ids

/-- A property section of packet `owner` (`none` = Will Properties): each property is allowed
there (Table 2-4), has a legal value, and is not repeated. -/
def propsOk (owner : Option PType) (ps : List RawProp) : Bool :=
  ps.all (fun (id, vs) => propertyAllowed owner id && vs.all (propValueOk id)) &&
  noRepeats owner (ps.map (·.1))

def Field.propsOk (owner : Option PType) : Field → Bool
  | .props ps => Spec.propsOk owner ps
  | .absent => true
  | _ => false

/-- Payload Format Indicator = 1: the payload is UTF-8 Encoded Character Data (§3.3.2.3.2, §3.1.3.2.3). -/
def payloadOk (props : Field) (payload : Bytes) : Bool :=
  !((props.props?.getD []).contains (0x01, [.byte 1])) || Mqtt.Utf8.valid payload

/-- A reason code field of packet `t`; an omitted one stands for 0x00, which every table contains. -/
def Field.reasonOk (t : PType) : Field → Bool
  | .val (.byte c) => reasonCodeOk t c
  | .absent => true
  | _ => false

/-- §3.8.3.1 Subscription Options: bits 1-0 Maximum QoS (≠ 3), bit 2 No Local, bit 3 Retain As
Published, bits 5-4 Retain Handling (≠ 3), bits 7-6 reserved (0) [MQTT-3.8.3-5].
[MQTT-3.8.3-4]: No Local on a Shared Subscription (pinned lenient). -/
def subOptsOk (filter : Bytes) (o : UInt8) : Bool :=
  bits o 0 2 ≠ 3 && bits o 4 2 ≠ 3 && bits o 6 2 = 0 &&
  (Lenient.noLocalOnShared || !bit o 2 || (topicFilterOf filter).sharedFilterSep = 0)

def validV5 (t : PType) (flags : UInt8) (fs : List Field) : Bool :=
  fs.all Field.textOk &&   -- every UTF-8 Encoded String is well formed [MQTT-1.5.4-1]
  match t, fs with
  | .connect, [.val (.str name), .val (.byte level), .val (.byte _cf), _keepAlive, props,
               .val (.str _cid), willProps, willTopic, willPayload, _user, _pass] =>
    -- §3.1.2.1-2: "MQTT" / 5
    (protocols.any fun (n, l, p) => n == name && l == level && p == .v500) &&
    props.propsOk (some .connect) && willProps.propsOk none &&
    willTopic.str?.all isTopicName &&          -- §3.1.3.3 with §4.7: a Topic Name
    payloadOk willProps (willPayload.bin?.getD [])
  | .connack, [.val (.byte ack), .val (.byte code), props] =>
    -- §3.2.2.1: bits 7-1 reserved, bit 0 Session Present
    ack ≤ 1 && reasonCodeOk .connack code && props.propsOk (some .connack)
  | .publish, [.val (.str topic), pid, props, .rest payload] =>
    pubFlagsOk flags && isTopicName topic && pid.pidOk && props.propsOk (some .publish) &&
    -- [MQTT-3.3.2-1] with §3.3.2.3.4: a zero-length Topic Name needs a Topic Alias
    (!topic.isEmpty || (props.props?.getD []).any (·.1 == 0x23) || Lenient.emptyTopicName) &&
    payloadOk props payload
  | .puback, [pid, code, props] | .pubrec, [pid, code, props] | .pubrel, [pid, code, props]
  | .pubcomp, [pid, code, props] =>
    pid.pidOk && code.reasonOk t && props.propsOk (some t)
  | .subscribe, [pid, props, .many rows] =>
    -- [MQTT-3.8.3-2] at least one pair
    pid.pidOk && props.propsOk (some t) && !rows.isEmpty &&
    rows.all fun | [.str f, .byte o] => isTopicFilter f && subOptsOk f o | _ => false
  | .suback, [pid, props, .many rows] | .unsuback, [pid, props, .many rows] =>
    pid.pidOk && props.propsOk (some t) && (Lenient.emptyCodeList || !rows.isEmpty) &&
    (rowBytes rows).all (reasonCodeOk t)
  | .unsubscribe, [pid, props, .many rows] =>
    -- [MQTT-3.10.3-2] at least one filter
    pid.pidOk && props.propsOk (some t) && !rows.isEmpty &&
    rows.all fun | [.str f] => isTopicFilter f | _ => false
  | .pingreq, [] | .pingresp, [] => true
  | .disconnect, [code, props] | .auth, [code, props] => code.reasonOk t && props.propsOk (some t)
  | _, _ => false

/-! ## (e) projection -/

def propVal : Scalar → PropVal
  | .byte b => .byte b | .u16 v => .u16 v | .u32 v => .u32 v
  | .varint n => .varint n | .str s => .str s | .bin s => .bin s

/-- The property set: User Properties in order; of a repeated identifier the first value. -/
def toProps (ps : List RawProp) : Props :=
  ps.foldl (init := Props.empty) fun acc (id, vs) =>
    match vs with
    | [.str k, .str v] => acc.pushUser k v
    | [v] => if (acc.get id).isSome then acc else acc.set id (propVal v)
    | _ => acc

/-- The property set of a (possibly omitted) property section. -/
def Field.toProps (f : Field) : Props := Spec.toProps (f.props?.getD [])

def subOpts (o : UInt8) : SubOpts :=
  { maxQos := UInt8.ofNat (bits o 0 2), noLocal := bit o 2, retainAsPublished := bit o 3,
    retainHandling := UInt8.ofNat (bits o 4 2) }

def projectV5 (t : PType) (flags : UInt8) (fs : List Field) : Option PacketV5 :=
  let only (p : Packet) : Option PacketV5 := some ⟨p, []⟩
  match t, fs with
  | .connect, [.val (.str _), .val (.byte _), .val (.byte cf), .val (.u16 keepAlive), props,
               .val (.str cid), willProps, willTopic, willPayload, user, pass] =>
    let will : Option LastWill := do
      let topic ← willTopic.str?
      let payload ← willPayload.bin?
      some { qos := UInt8.ofNat (bits cf 3 2), retain := bit cf 5, topicName := topic,
             payload := payload, properties := willProps.toProps }
    only (.connect { protocol := .v500, cleanStart := bit cf 1, keepAlive := keepAlive,
                     properties := props.toProps, clientId := cid, lastWill := will,
                     username := user.str?, password := pass.bin? })
  | .connack, [.val (.byte ack), .val (.byte code), props] =>
    only (.connack { sessionPresent := bit ack 0, reasonCode := code, properties := props.toProps })
  | .publish, [.val (.str topic), pid, props, .rest payload] =>
    let qosPid : QosPid :=
      match pubQos flags, pid.u16? with
      | 1, some v => .level1 ⟨v⟩
      | 2, some v => .level2 ⟨v⟩
      | _, _ => .level0
    some { packet := .publish { dup := pubDup flags, retain := pubRetain flags, qosPid := qosPid,
                                topicName := topic, payload := payload, properties := props.toProps }
           subIds := (props.props?.getD []).filterMap fun
             | (0x0B, [.varint n]) => some n | _ => none }
  | .puback, [.val (.u16 v), code, props] => only (.puback ⟨⟨v⟩, code.byte?.getD 0, props.toProps⟩)
  | .pubrec, [.val (.u16 v), code, props] => only (.pubrec ⟨⟨v⟩, code.byte?.getD 0, props.toProps⟩)
  | .pubrel, [.val (.u16 v), code, props] => only (.pubrel ⟨⟨v⟩, code.byte?.getD 0, props.toProps⟩)
  | .pubcomp, [.val (.u16 v), code, props] => only (.pubcomp ⟨⟨v⟩, code.byte?.getD 0, props.toProps⟩)
  | .subscribe, [.val (.u16 v), props, .many rows] =>
    only (.subscribe { pid := ⟨v⟩, properties := props.toProps, topics := rows.filterMap fun
      | [.str f, .byte o] => some (topicFilterOf f, subOpts o) | _ => none })
  | .suback, [.val (.u16 v), props, .many rows] => only (.suback ⟨⟨v⟩, props.toProps, rowBytes rows⟩)
  | .unsuback, [.val (.u16 v), props, .many rows] => only (.unsuback ⟨⟨v⟩, props.toProps, rowBytes rows⟩)
  | .unsubscribe, [.val (.u16 v), props, .many rows] =>
    only (.unsubscribe { pid := ⟨v⟩, properties := props.toProps, topics := rows.filterMap fun
      | [.str f] => some (topicFilterOf f) | _ => none })
  | .pingreq, [] => only .pingreq
  | .pingresp, [] => only .pingresp
  | .disconnect, [code, props] => only (.disconnect ⟨code.byte?.getD 0, props.toProps⟩)
  | .auth, [code, props] => only (.auth ⟨code.byte?.getD 0, props.toProps⟩)
  | _, _ => none

/-- `some (p, total)` iff `bs` starts with a well-formed MQTT 5.0 control packet of `total` bytes
whose field values are `p`. -/
def parseV5With (minimal : Bool) (bs : Bytes) : Option (PacketV5 × Nat) := do
  let fr ← splitFrame minimal true bs
  let fs ← fieldsV5 minimal fr
  guard (validV5 fr.ptype fr.flags fs)
  let p ← projectV5 fr.ptype fr.flags fs
  some (p, fr.total)

/-- The specification proper: every Variable Byte Integer minimally encoded ([MQTT-1.5.5-1]). -/
def parseV5 (bs : Bytes) : Option (PacketV5 × Nat) := parseV5With true bs

/-- The model's PUBLISH has one Subscription Identifier slot: `none` iff there are several. -/
def toModelV5 (p : PacketV5) : Option Packet :=
  if p.subIds.length > 1 then none else some p.packet

def decodeV5 (bs : Bytes) : Option (Packet × Nat) :=
  (parseV5 bs).bind fun (p, n) => (toModelV5 p).map (·, n)

/-- The same grammar with non-minimal Variable Byte Integers tolerated (NOT the standard:
used only to state what a decoder accepts beyond the specification). -/
def decodeV5Loose (bs : Bytes) : Option (Packet × Nat) :=
  (parseV5With false bs).bind fun (p, n) => (toModelV5 p).map (·, n)

/-! ## examples (frames typed by hand) -/
section Examples

private def hex (s : String) : Bytes := (Mqtt.bytesOfHex (s.replace " " "")).getD []
private def ascii (s : String) : Bytes := s.toUTF8.toList
private def bad (s : String) : Bool := !(hex s).isEmpty && (parseV5 (hex s)).isNone

/-- A comparable rendering of a packet: constructor name, scalar fields, properties, user properties. -/
private def dumpProps (ps : Props) : List (Nat × PropVal) × List (Bytes × Bytes) :=
  ((List.range 256).filterMap fun i => (ps.get (UInt8.ofNat i)).map (i, ·), ps.user)

private structure Dump where
  kind : String
  nums : List Nat := []
  strs : List Bytes := []
  props : List (Nat × PropVal) × List (Bytes × Bytes) := ([], [])
  will : Option (List Nat × List Bytes × (List (Nat × PropVal) × List (Bytes × Bytes))) := none
  filters : List (Mqtt.Topic.TopicFilter × Option SubOpts) := []
  deriving BEq

private def qp : QosPid → List Nat
  | .level0 => [0] | .level1 p => [1, p.val.toNat] | .level2 p => [2, p.val.toNat]
private def b2n (b : Bool) : Nat := if b then 1 else 0
private def ack (k : String) (a : Ack) : Dump :=
  { kind := k, nums := [a.pid.val.toNat, a.reasonCode.toNat], props := dumpProps a.properties }
private def codes (k : String) (a : CodesAck) : Dump :=
  { kind := k, nums := a.pid.val.toNat :: a.topics.map (·.toNat), props := dumpProps a.properties }

private def dump : Packet → Dump
  | .connect c =>
    { kind := "connect", nums := [c.protocol.level.toNat, b2n c.cleanStart, c.keepAlive.toNat],
      strs := [c.clientId] ++ c.username.toList ++ c.password.toList, props := dumpProps c.properties,
      will := c.lastWill.map fun w => ([w.qos.toNat, b2n w.retain], [w.topicName, w.payload], dumpProps w.properties) }
  | .connack c => { kind := "connack", nums := [b2n c.sessionPresent, c.reasonCode.toNat], props := dumpProps c.properties }
  | .publish p =>
    { kind := "publish", nums := [b2n p.dup, b2n p.retain] ++ qp p.qosPid, strs := [p.topicName, p.payload],
      props := dumpProps p.properties }
  | .puback a => ack "puback" a | .pubrec a => ack "pubrec" a
  | .pubrel a => ack "pubrel" a | .pubcomp a => ack "pubcomp" a
  | .subscribe s =>
    { kind := "subscribe", nums := [s.pid.val.toNat], props := dumpProps s.properties,
      filters := s.topics.map fun (f, o) => (f, some o) }
  | .suback s => codes "suback" s | .unsuback s => codes "unsuback" s
  | .unsubscribe s =>
    { kind := "unsubscribe", nums := [s.pid.val.toNat], props := dumpProps s.properties,
      filters := s.topics.map fun f => (f, none) }
  | .pingreq => { kind := "pingreq" } | .pingresp => { kind := "pingresp" }
  | .disconnect d => { kind := "disconnect", nums := [d.reasonCode.toNat], props := dumpProps d.properties }
  | .auth a => { kind := "auth", nums := [a.reasonCode.toNat], props := dumpProps a.properties }

private def dec (s : String) : Option (Dump × Nat) := (decodeV5 (hex s)).map fun (p, n) => (dump p, n)

#guard properties.length == 27 && (properties.map (·.1)).eraseDups.length == 27

-- CONNECT: clean start, keep alive 60, no properties, client id "abc"
#guard dec "10 10 00 04 4D 51 54 54 05 02 00 3C 00 00 03 61 62 63 FF" ==
  some ({ kind := "connect", nums := [5, 1, 60], strs := [ascii "abc"] }, 18)
-- CONNECT: flags EE (user, password, will retain, will QoS 1, will, clean start); Session Expiry 10, Receive Maximum 0,
-- user property ("k","v"); empty client id; will: delay 5, format 1, topic "w", payload "é"; user "u"; password 00 FF
#guard dec "10 32 00 04 4D 51 54 54 05 EE 00 00 0F 11 00 00 00 0A 21 00 00 26 00 01 6B 00 01 76 00 00 07 18 00 00 00 05 01 01 00 01 77 00 02 C3 A9 00 01 75 00 02 00 FF" ==
  some ({ kind := "connect", nums := [5, 1, 0], strs := [[], ascii "u", [0x00, 0xFF]],
          props := ([(0x11, .u32 10), (0x21, .u16 0)], [(ascii "k", ascii "v")]),
          will := some ([1, 1], [ascii "w", [0xC3, 0xA9]], ([(0x01, .byte 1), (0x18, .u32 5)], [])) }, 52)
#guard (dec "10 10 00 04 4D 51 54 54 05 22 00 3C 00 00 03 61 62 63").isSome   -- leniency: will retain without will
#guard bad "10 10 00 04 4D 51 54 54 04 02 00 3C 00 00 03 61 62 63"   -- version 4
#guard bad "10 10 00 04 4D 51 54 54 05 03 00 3C 00 00 03 61 62 63"   -- reserved connect flag
#guard bad "10 10 00 04 4D 51 54 54 05 12 00 3C 00 00 03 61 62 63"   -- will QoS 2 without will flag
#guard bad "10 11 00 04 4D 51 54 54 05 02 00 3C 00 00 03 61 62 63 00" -- body longer than its fields
#guard bad "10 12 00 04 4D 51 54 54 05 02 00 3C 02 24 01 00 03 61 62 63" -- Maximum QoS is not a CONNECT property
#guard bad "10 14 00 04 4D 51 54 54 05 02 00 3C 04 17 01 17 01 00 03 61 62 63" -- property twice
#guard bad "10 12 00 04 4D 51 54 54 05 02 00 3C 02 17 02 00 03 61 62 63" -- Request Problem Information = 2
#guard bad "10 11 00 04 4D 51 54 54 05 02 00 3C 80 00 00 03 61 62 63"  -- property length not minimal
#guard bad "10 1C 00 04 4D 51 54 54 05 06 00 00 00 00 00 07 18 00 00 00 05 01 01 00 01 77 00 02 C3 28" -- will payload not UTF-8, format 1
#guard bad "10 16 00 04 4D 51 54 54 05 06 00 00 00 00 00 03 23 00 01 00 01 77 00 00" -- Topic Alias is not a will property

-- CONNACK
#guard dec "20 03 00 00 00" == some ({ kind := "connack", nums := [0, 0] }, 5)
#guard dec "20 0A 01 9F 07 21 00 14 24 01 2A 00" ==
  some ({ kind := "connack", nums := [1, 0x9F], props := ([(0x21, .u16 20), (0x24, .byte 1), (0x2A, .byte 0)], []) }, 12)
#guard bad "20 02 00 00"          -- no property length
#guard bad "20 03 02 00 00"       -- reserved acknowledge flag
#guard bad "20 03 00 01 00"       -- 0x01 is not a CONNACK reason code
#guard bad "20 05 00 00 02 24 02" -- Maximum QoS = 2
#guard bad "20 05 00 00 02 7F 00" -- unknown property

-- PUBLISH
#guard dec "30 08 00 03 61 2F 62 00 68 69" ==
  some ({ kind := "publish", nums := [0, 0, 0], strs := [ascii "a/b", ascii "hi"] }, 10)
#guard dec "3D 1A 00 00 00 09 13 23 00 00 08 00 01 72 09 00 02 00 01 02 00 00 00 3C 01 00 FF FE" ==
  some ({ kind := "publish", nums := [1, 1, 2, 9], strs := [[], [0xFF, 0xFE]],
          props := ([(0x01, .byte 0), (0x02, .u32 60), (0x08, .str (ascii "r")), (0x09, .bin [0, 1]), (0x23, .u16 0)], []) }, 28)
-- two Subscription Identifiers (1 and 300): parseV5 accepts, decodeV5 does not
#guard (parseV5 (hex "30 0A 00 01 61 05 0B 01 0B AC 02 68")).map (fun (p, n) => (p.subIds, (dump p.packet).props, n)) ==
  some ([1, 300], ([(0x0B, .varint 1)], []), 12)
#guard (decodeV5 (hex "30 0A 00 01 61 05 0B 01 0B AC 02 68")).isNone
#guard dec "30 07 00 01 61 02 0B 00 68" ==   -- one Subscription Identifier (0: leniency)
  some ({ kind := "publish", nums := [0, 0, 0], strs := [ascii "a", ascii "h"], props := ([(0x0B, .varint 0)], []) }, 9)
#guard bad "36 0A 00 03 61 2F 62 00 01 00 68 69" -- QoS 3
#guard bad "32 0A 00 03 61 2F 62 00 00 00 68 69" -- packet id 0
#guard bad "30 08 00 03 61 2F 23 00 68 69"       -- wildcard in topic name
#guard bad "30 08 00 01 61 03 0B 80 00 68"       -- Subscription Identifier not minimally encoded
#guard bad "30 0A 00 01 61 04 01 01 01 01 68 69" -- Payload Format Indicator twice
#guard bad "30 08 00 01 61 02 01 01 C3 28"       -- format 1, payload not UTF-8
#guard bad "30 08 00 01 61 02 23 00 68 69"       -- property runs past the property length
#guard bad "30 0A 00 01 61 05 08 00 02 61 2B 68" -- wildcard in Response Topic
#guard bad "30 07 00 01 61 02 25 01 68"          -- Retain Available is not a PUBLISH property

-- PUBACK .. PUBCOMP: short forms
#guard dec "40 02 00 01" == some ({ kind := "puback", nums := [1, 0] }, 4)
#guard dec "40 03 00 01 10" == some ({ kind := "puback", nums := [1, 0x10] }, 5)
#guard dec "50 04 00 01 97 00" == some ({ kind := "pubrec", nums := [1, 0x97] }, 6)
#guard dec "62 09 00 01 92 05 1F 00 02 6E 6F" ==
  some ({ kind := "pubrel", nums := [1, 0x92], props := ([(0x1F, .str (ascii "no"))], []) }, 11)
#guard dec "70 02 FF FF" == some ({ kind := "pubcomp", nums := [65535, 0] }, 4)
#guard bad "40 03 00 01 01"       -- 0x01 is not a PUBACK reason code
#guard bad "62 03 00 01 10"       -- 0x10 is not a PUBREL reason code
#guard bad "60 02 00 01"          -- PUBREL flags must be 0010
#guard bad "40 02 00 00"          -- packet id 0
#guard bad "40 01 00"             -- too short
#guard bad "40 05 00 01 00 00 00" -- body longer than its fields
#guard bad "40 09 00 01 00 05 11 00 00 00 05" -- Session Expiry Interval is not a PUBACK property

-- SUBSCRIBE / SUBACK / UNSUBSCRIBE / UNSUBACK
#guard dec "82 18 00 01 02 0B 07 00 03 61 2F 23 2D 00 0A 24 73 68 61 72 65 2F 67 2F 74 04" ==
  some ({ kind := "subscribe", nums := [1], props := ([(0x0B, .varint 7)], []),
          filters := [(⟨ascii "a/#", 0⟩, some ⟨1, true, true, 2⟩),
                      (⟨ascii "$share/g/t", 8⟩, some ⟨0, true, false, 0⟩)] }, 26)   -- No Local on shared: leniency
#guard bad "80 09 00 01 00 00 03 61 2F 23 01"       -- flags must be 0010
#guard bad "82 03 00 01 00"                         -- no topic filter
#guard bad "82 09 00 01 00 00 03 61 2F 23 03"       -- QoS 3
#guard bad "82 09 00 01 00 00 03 61 2F 23 30"       -- Retain Handling 3
#guard bad "82 09 00 01 00 00 03 61 2F 23 40"       -- reserved option bit
#guard bad "82 0D 00 01 04 0B 01 0B 02 00 03 61 2F 23 00"  -- two Subscription Identifiers in SUBSCRIBE
#guard bad "82 0E 00 01 00 00 08 24 73 68 61 72 65 2F 67 00" -- "$share/g" has no filter
#guard dec "90 07 00 01 00 00 02 80 A2" == some ({ kind := "suback", nums := [1, 0, 2, 0x80, 0xA2] }, 9)
#guard dec "90 03 00 01 00" == some ({ kind := "suback", nums := [1] }, 5)     -- leniency
#guard bad "90 04 00 01 00 11"    -- 0x11 is an UNSUBACK code only
#guard dec "B0 05 00 01 00 00 11" == some ({ kind := "unsuback", nums := [1, 0, 0x11] }, 7)
#guard bad "B0 04 00 01 00 01"    -- 0x01 is a SUBACK code only
#guard dec "A2 0D 00 07 05 26 00 00 00 00 00 03 62 2F 2B" ==
  some ({ kind := "unsubscribe", nums := [7], props := ([], [([], [])]), filters := [(⟨ascii "b/+", 0⟩, none)] }, 15)
#guard bad "A2 03 00 07 00"       -- no topic filter
#guard bad "A2 08 00 07 02 0B 01 00 01 61"  -- Subscription Identifier is not an UNSUBSCRIBE property

-- PINGREQ, PINGRESP, DISCONNECT, AUTH
#guard dec "C0 00" == some ({ kind := "pingreq" }, 2)
#guard dec "D0 00" == some ({ kind := "pingresp" }, 2)
#guard bad "D0 01 00"
#guard dec "E0 00" == some ({ kind := "disconnect", nums := [0] }, 2)
#guard dec "E0 01 04" == some ({ kind := "disconnect", nums := [4] }, 3)
#guard dec "E0 07 8E 05 11 00 00 00 00" ==
  some ({ kind := "disconnect", nums := [0x8E], props := ([(0x11, .u32 0)], []) }, 9)
#guard bad "E0 01 01"             -- 0x01 is not a DISCONNECT reason code
#guard bad "E1 00"                -- flags must be 0
#guard dec "F0 00" == some ({ kind := "auth", nums := [0] }, 2)
#guard dec "F0 08 18 06 15 00 03 78 79 7A" ==
  some ({ kind := "auth", nums := [0x18], props := ([(0x15, .str (ascii "xyz"))], []) }, 10)
#guard bad "F0 01 00"             -- reason code without property length
#guard bad "F0 02 10 00"          -- 0x10 is not an AUTH reason code
#guard bad "00 00"                -- type 0 is reserved

end Examples
end Spec
