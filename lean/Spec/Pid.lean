/-
  Spec.Pid — packet identifiers as a cycle over 1 ..= 65535 (MQTT 2.2.1 / 2.3.1:
  a non-zero 16-bit identifier), independent of the code.
-/
namespace Spec

/-- next identifier on the cycle 1 → 2 → … → 65535 → 1 -/
def pidSucc (p : Nat) : Nat := if p = 65535 then 1 else p + 1
/-- previous identifier on the cycle -/
def pidPred (p : Nat) : Nat := if p = 1 then 65535 else p - 1

/-- `k` steps forward -/
def pidSuccN : Nat → Nat → Nat
  | 0, p => p
  | k + 1, p => pidSuccN k (pidSucc p)

/-- `k` steps backward -/
def pidPredN : Nat → Nat → Nat
  | 0, p => p
  | k + 1, p => pidPredN k (pidPred p)

end Spec
