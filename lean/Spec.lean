import Spec.DecodeV3
import Spec.DecodeV5
import Spec.Layout
import Spec.Numbers
import Spec.Pid
import Spec.Tables
import Spec.Topic
