//! Field-by-field invariant walkers over decoded packets (C12 oracle).

use mqtt_proto::{v3, v5, Pid, QosPid, TopicFilter, TopicName};
use std::sync::Arc;

fn text(out: &mut Vec<String>, what: &str, s: &str) {
    if std::str::from_utf8(s.as_bytes()).is_err() {
        out.push(format!("{} is not valid UTF-8", what));
    }
}
fn otext(out: &mut Vec<String>, what: &str, s: &Option<Arc<String>>) {
    if let Some(s) = s {
        text(out, what, s);
    }
}
fn pid(out: &mut Vec<String>, what: &str, p: Pid) {
    if p.value() == 0 {
        out.push(format!("{} is 0", what));
    }
}
fn qpid(out: &mut Vec<String>, q: QosPid) {
    if let Some(p) = q.pid() {
        pid(out, "publish pid", p);
    }
}
fn name(out: &mut Vec<String>, what: &str, t: &TopicName) {
    text(out, what, t);
    if TopicName::is_invalid(t) {
        out.push(format!("{} {:?} fails TopicName::is_invalid", what, &**t));
    } else if !crate::oracle::spec_name(t) {
        // (the rule written out independently of the crate: the crate's own validator may be the broken part)
        out.push(format!("{} {:?} is not a valid topic name (wildcard or NUL inside, or too long)", what, &**t));
    }
}
fn filter(out: &mut Vec<String>, f: &TopicFilter) {
    text(out, "topic filter", f);
    let (inv, sep) = TopicFilter::is_invalid(f);
    if inv {
        out.push(format!("topic filter {:?} fails TopicFilter::is_invalid", &**f));
        return;
    }
    if crate::oracle::spec_filter(f).is_none() {
        out.push(format!("topic filter {:?} is not a valid filter by the rule of MQTT 4.7 / 4.8.2 written out independently", &**f));
        return;
    }
    let s: &str = f;
    let r = std::panic::catch_unwind(std::panic::AssertUnwindSafe(|| (f.is_shared(), f.shared_group_name().map(|x| x.to_string()), f.shared_filter().map(|x| x.to_string()), f.shared_info().map(|(a, b)| (a.to_string(), b.to_string())))));
    match r {
        Err(_) => out.push(format!("shared-subscription accessor panics on {:?}", s)),
        Ok((sh, g, fl, info)) => {
            let expect = if sep > 0 { Some((s[7..sep as usize].to_string(), s[sep as usize + 1..].to_string())) } else { None };
            if sh != expect.is_some() || g != expect.as_ref().map(|e| e.0.clone()) || fl != expect.as_ref().map(|e| e.1.clone()) || info != expect {
                out.push(format!("accessors of {:?} disagree with the validator's index {}", s, sep));
            }
        }
    }
}
fn users(out: &mut Vec<String>, u: &[v5::UserProperty]) {
    for p in u {
        text(out, "user property name", &p.name);
        text(out, "user property value", &p.value);
    }
}
fn vbi(out: &mut Vec<String>, v: Option<v5::VarByteInt>) {
    if let Some(v) = v {
        if v.value() >= 268435456 {
            out.push(format!("variable byte integer {} >= 268435456", v.value()));
        }
    }
}

pub fn walk_v3(p: &v3::Packet) -> Vec<String> {
    let mut out = Vec::new();
    use v3::Packet::*;
    match p {
        Connect(c) => {
            text(&mut out, "client id", &c.client_id);
            otext(&mut out, "user name", &c.username);
            if let Some(w) = &c.last_will {
                name(&mut out, "will topic", &w.topic_name);
            }
        }
        Publish(x) => {
            name(&mut out, "topic name", &x.topic_name);
            qpid(&mut out, x.qos_pid);
        }
        Puback(x) | Pubrec(x) | Pubrel(x) | Pubcomp(x) | Unsuback(x) => pid(&mut out, "pid", *x),
        Subscribe(s) => {
            pid(&mut out, "pid", s.pid);
            for (f, _) in &s.topics {
                filter(&mut out, f);
            }
        }
        Suback(s) => pid(&mut out, "pid", s.pid),
        Unsubscribe(s) => {
            pid(&mut out, "pid", s.pid);
            for f in &s.topics {
                filter(&mut out, f);
            }
        }
        Connack(_) | Pingreq | Pingresp | Disconnect => {}
    }
    out
}

pub fn walk_v5(p: &v5::Packet) -> Vec<String> {
    let mut out = Vec::new();
    use v5::Packet::*;
    match p {
        Connect(c) => {
            text(&mut out, "client id", &c.client_id);
            otext(&mut out, "user name", &c.username);
            otext(&mut out, "auth method", &c.properties.auth_method);
            users(&mut out, &c.properties.user_properties);
            if let Some(w) = &c.last_will {
                name(&mut out, "will topic", &w.topic_name);
                otext(&mut out, "will content type", &w.properties.content_type);
                if let Some(t) = &w.properties.response_topic {
                    name(&mut out, "will response topic", t);
                }
                users(&mut out, &w.properties.user_properties);
                if w.properties.payload_is_utf8 == Some(true) && std::str::from_utf8(&w.payload).is_err() {
                    out.push("will payload flagged UTF-8 is not".into());
                }
            }
        }
        Connack(c) => {
            let q = &c.properties;
            for (w, s) in [("assigned client id", &q.assigned_client_id), ("reason string", &q.reason_string), ("response info", &q.response_info), ("server reference", &q.server_reference), ("auth method", &q.auth_method)] {
                otext(&mut out, w, s);
            }
            users(&mut out, &q.user_properties);
        }
        Publish(x) => {
            name(&mut out, "topic name", &x.topic_name);
            qpid(&mut out, x.qos_pid);
            otext(&mut out, "content type", &x.properties.content_type);
            if let Some(t) = &x.properties.response_topic {
                name(&mut out, "response topic", t);
            }
            users(&mut out, &x.properties.user_properties);
            vbi(&mut out, x.properties.subscription_id);
            if x.properties.payload_is_utf8 == Some(true) && std::str::from_utf8(&x.payload).is_err() {
                out.push("payload flagged UTF-8 is not".into());
            }
        }
        Puback(x) => {
            pid(&mut out, "pid", x.pid);
            otext(&mut out, "reason string", &x.properties.reason_string);
            users(&mut out, &x.properties.user_properties);
        }
        Pubrec(x) => {
            pid(&mut out, "pid", x.pid);
            otext(&mut out, "reason string", &x.properties.reason_string);
            users(&mut out, &x.properties.user_properties);
        }
        Pubrel(x) => {
            pid(&mut out, "pid", x.pid);
            otext(&mut out, "reason string", &x.properties.reason_string);
            users(&mut out, &x.properties.user_properties);
        }
        Pubcomp(x) => {
            pid(&mut out, "pid", x.pid);
            otext(&mut out, "reason string", &x.properties.reason_string);
            users(&mut out, &x.properties.user_properties);
        }
        Subscribe(s) => {
            pid(&mut out, "pid", s.pid);
            vbi(&mut out, s.properties.subscription_id);
            users(&mut out, &s.properties.user_properties);
            for (f, _) in &s.topics {
                filter(&mut out, f);
            }
        }
        Suback(s) => {
            pid(&mut out, "pid", s.pid);
            otext(&mut out, "reason string", &s.properties.reason_string);
            users(&mut out, &s.properties.user_properties);
        }
        Unsubscribe(s) => {
            pid(&mut out, "pid", s.pid);
            users(&mut out, &s.properties.user_properties);
            for f in &s.topics {
                filter(&mut out, f);
            }
        }
        Unsuback(s) => {
            pid(&mut out, "pid", s.pid);
            otext(&mut out, "reason string", &s.properties.reason_string);
            users(&mut out, &s.properties.user_properties);
        }
        Disconnect(d) => {
            otext(&mut out, "reason string", &d.properties.reason_string);
            otext(&mut out, "server reference", &d.properties.server_reference);
            users(&mut out, &d.properties.user_properties);
        }
        Auth(a) => {
            otext(&mut out, "auth method", &a.properties.auth_method);
            otext(&mut out, "reason string", &a.properties.reason_string);
            users(&mut out, &a.properties.user_properties);
        }
        Pingreq | Pingresp => {}
    }
    out
}
