//! Implementation-side oracles: each property's own statement evaluated directly
//! on the real crate.  This is *search support* (it turns a broken proof or a broken
//! correspondence into a concrete replay); it never stands in for a theorem.

use crate::fmt::*;
use crate::ops::real_write_var_int;
use crate::report::*;
use mqtt_proto::{decode_raw_header, header_len, remaining_len, total_len, var_int_len, Pid};
use std::convert::TryFrom;

fn threads() -> usize {
    std::thread::available_parallelism().map(|n| n.get()).unwrap_or(4)
}

/// closed form the C19 theorems prove equal to the model and to the cycle
fn pid_add_closed(p: u32, u: u32) -> u32 {
    (p - 1 + u) % 65535 + 1
}
fn pid_sub_closed(p: u32, u: u32) -> u32 {
    (p - 1 + (65535 - u % 65535)) % 65535 + 1
}

fn c19_pair(p: u32, u: u32, rep: &mut Report) {
    rep.cases += 1;
    if p == 0 {
        if Pid::try_from(0u16).is_ok() {
            rep.fail("pid-tryfrom", "pid 0 0".into(), "try_from(0) succeeded".into());
        }
        return;
    }
    let pid = Pid::try_from(p as u16).unwrap();
    let a = pid + (u as u16);
    let s = pid - (u as u16);
    if a.value() as u32 != pid_add_closed(p, u) || a.value() == 0 {
        rep.fail("pid-add", format!("pid {} {}", p, u), format!("add gave {}, cycle says {}", a.value(), pid_add_closed(p, u)));
    }
    if s.value() as u32 != pid_sub_closed(p, u) || s.value() == 0 {
        rep.fail("pid-sub", format!("pid {} {}", p, u), format!("sub gave {}, cycle says {}", s.value(), pid_sub_closed(p, u)));
    }
}

pub fn c19(tier: &str, ops: Option<&[String]>) -> Report {
    let mut rep = Report::new("C19", "all 65535 identifiers x all 65536 amounts: real +,-,+=,-= against the closed form ((p-1±u) mod 65535)+1 that the Lean theorems prove equal to the model and to u steps round the cycle; try_from for all 65536 raw values");
    let _ = tier;
    if let Some(ops) = ops {
        for op in ops {
            let t: Vec<&str> = op.split_whitespace().collect();
            if t.len() == 3 && t[0] == "pid" {
                c19_pair(t[1].parse().unwrap_or(1), t[2].parse().unwrap_or(0), &mut rep);
            }
        }
        rep.distinct = rep.cases;
        return rep;
    }
    let nt = threads();
    let handles: Vec<_> = (0..nt)
        .map(|t| {
            std::thread::spawn(move || {
                let mut rep = Report::new("C19", "");
                let mut p = 1 + t as u32;
                while p <= 65535 {
                    let pid = Pid::try_from(p as u16).unwrap();
                    for u in 0..=65535u32 {
                        let a = pid + (u as u16);
                        let s = pid - (u as u16);
                        let mut aa = pid;
                        aa += u as u16;
                        let mut ss = pid;
                        ss -= u as u16;
                        rep.cases += 1;
                        let ea = pid_add_closed(p, u);
                        let es = pid_sub_closed(p, u);
                        if a.value() as u32 != ea || aa != a || a.value() == 0 {
                            rep.fail("pid-add", format!("pid {} {}", p, u), format!("add gave {} (in-place {}), cycle says {}", a.value(), aa.value(), ea));
                        }
                        if s.value() as u32 != es || ss != s || s.value() == 0 {
                            rep.fail("pid-sub", format!("pid {} {}", p, u), format!("sub gave {} (in-place {}), cycle says {}", s.value(), ss.value(), es));
                        }
                        if (a - (u as u16)) != pid || (s + (u as u16)) != pid {
                            rep.fail("pid-inverse", format!("pid {} {}", p, u), "(p+u)-u or (p-u)+u differs from p".into());
                        }
                    }
                    p += nt as u32;
                }
                rep
            })
        })
        .collect();
    for h in handles {
        match h.join() {
            Ok(r) => rep.merge(r),
            Err(_) => rep.fail("pid-panic", "pid <p> <u>".into(), "a Pid operator panicked".into()),
        }
    }
    for v in 0..=65535u32 {
        rep.cases += 1;
        let r = Pid::try_from(v as u16);
        let ok = match (&r, v) {
            (Err(mqtt_proto::Error::ZeroPid), 0) => true,
            (Ok(p), v) if v != 0 => p.value() as u32 == v,
            _ => false,
        };
        if !ok {
            rep.fail("pid-tryfrom", format!("pid {} 0", v), format!("try_from gave {:?}", r.map(|p| p.value())));
        }
    }
    rep.distinct = rep.cases;
    rep.exhaustive = true;
    rep.sample("pid 65535 1 -> add=1".into());
    rep.sample("pid 1 65535 -> sub=1".into());
    rep.sample("pid 1 1 -> sub=65535".into());
    rep
}

fn check_varint_value(n: usize, rep: &mut Report) {
    rep.cases += 1;
    let vil = var_int_len(n);
    let tl = total_len(n);
    if n < (1 << 28) {
        let w = real_write_var_int(n as u32).unwrap();
        let k = w.len();
        if vil.as_ref().ok() != Some(&k) || !(1..=4).contains(&k) {
            rep.fail("varint-len", format!("vi {}", n), format!("write_var_int wrote {} bytes ({}), var_int_len says {:?}", k, hex(&w), vil));
        }
        // minimal form: continuation bits exactly on all but last, last digit non-zero unless single byte
        let minimal = w[..k - 1].iter().all(|b| b & 0x80 != 0) && w[k - 1] & 0x80 == 0 && (k == 1 || w[k - 1] != 0);
        if !minimal {
            rep.fail("varint-minimal", format!("vi {}", n), format!("non-minimal encoding {}", hex(&w)));
        }
        let mut frame = vec![0x30u8];
        frame.extend_from_slice(&w);
        frame.push(0xAA);
        let mut rd: &[u8] = &frame;
        match futures_lite::future::block_on(decode_raw_header(&mut rd)) {
            Ok((0x30, v)) if v as usize == n && rd.len() == 1 => {}
            other => rep.fail("varint-roundtrip", format!("vib {}", hex(&frame)), format!("decode of write_var_int({}) gave {:?}, {} bytes left", n, other, rd.len())),
        }
        match tl {
            Ok(t) if t == n + 1 + k => {
                if header_len(t) != 1 + k {
                    rep.fail("header-len", format!("vi {}", t), format!("header_len({}) = {}, expected {}", t, header_len(t), 1 + k));
                }
                if remaining_len(t) != n {
                    rep.fail("remaining-len", format!("vi {}", t), format!("remaining_len({}) = {}, expected {}", t, remaining_len(t), n));
                }
            }
            other => rep.fail("total-len", format!("vi {}", n), format!("total_len({}) = {:?}, expected {}", n, other, n + 1 + k)),
        }
    } else {
        if vil.is_ok() || tl.is_ok() {
            rep.fail("varint-limit", format!("vi {}", n), format!("value >= 2^28 accepted: var_int_len {:?} total_len {:?}", vil, tl));
        }
        if n <= u32::MAX as usize && mqtt_proto::v5::VarByteInt::try_from(n as u32).is_ok() {
            rep.fail("varint-limit", format!("vi {}", n), "VarByteInt::try_from accepted a value >= 2^28".into());
        }
    }
}

pub fn interesting_varints() -> Vec<usize> {
    let mut v = Vec::new();
    for t in [0usize, 128, 16384, 2097152, 268435456] {
        for d in 0..=66usize {
            if t >= d {
                v.push(t - d);
            }
            v.push(t + d);
        }
    }
    v.extend([u32::MAX as usize, u32::MAX as usize - 1, 1 << 31, (1 << 28) + 1000, 1 << 29]);
    v.sort();
    v.dedup();
    v
}

/// all continuation-bit patterns of up to 5 bytes, each byte drawn from a few payloads
pub fn varint_patterns() -> Vec<Vec<u8>> {
    let lows = [0x00u8, 0x01, 0x7f];
    let mut out = Vec::new();
    for len in 1..=5usize {
        for pat in 0..(1u32 << len) {
            for li in 0..lows.len() {
                let bytes: Vec<u8> = (0..len)
                    .map(|i| {
                        let cont = (pat >> i) & 1 == 1;
                        let low = lows[(li + i) % lows.len()];
                        if cont {
                            low | 0x80
                        } else {
                            low
                        }
                    })
                    .collect();
                out.push(bytes);
            }
        }
    }
    out
}

/// reference reading of a varint prefix, written from MQTT 1.5.5 (independent of the crate)
fn ref_varint(bs: &[u8]) -> Result<Option<(u32, usize)>, ()> {
    let mut val: u32 = 0;
    for i in 0..4 {
        match bs.get(i) {
            None => return Ok(None),
            Some(b) => {
                val += ((b & 0x7f) as u32) << (7 * i);
                if b & 0x80 == 0 {
                    return Ok(Some((val, i + 1)));
                }
            }
        }
    }
    Err(())
}

pub fn c15(tier: &str, seed: u64, ops: Option<&[String]>) -> Report {
    let mut rep = Report::new("C15", "varint/length-helper laws on the real functions over ALL 2^28+9 values (write/size/minimal form/read back/total/header/remaining/limit), plus all continuation-bit patterns up to 5 bytes through decode_raw_header and the poll header machine against a reference reading of MQTT 1.5.5");
    let _ = (tier, seed);
    let mut patterns = varint_patterns();
    if let Some(ops) = ops {
        patterns.clear();
        for op in ops {
            let t: Vec<&str> = op.split_whitespace().collect();
            if t.len() == 2 && t[0] == "vi" {
                if let Ok(n) = t[1].parse::<usize>() {
                    check_varint_value(n, &mut rep);
                }
            } else if t.len() == 2 && t[0] == "vib" {
                if let Some(b) = unhex(t[1]) {
                    if b.len() > 1 {
                        patterns.push(b[1..].to_vec());
                    }
                }
            }
        }
    } else if true {
        let nt = threads();
        let handles: Vec<_> = (0..nt)
            .map(|t| {
                std::thread::spawn(move || {
                    let mut rep = Report::new("C15", "");
                    let mut n = t;
                    while n < (1 << 28) + 9 {
                        check_varint_value(n, &mut rep);
                        n += nt;
                    }
                    rep
                })
            })
            .collect();
        for h in handles {
            match h.join() {
                Ok(r) => rep.merge(r),
                Err(_) => rep.fail("varint-panic", "vi <n>".into(), "a helper panicked during the exhaustive scan".into()),
            }
        }
        rep.exhaustive = true;
    } else {
        for n in interesting_varints() {
            check_varint_value(n, &mut rep);
        }
        let mut rng = Rng::new(seed);
        for _ in 0..200_000 {
            let bits = 1 + rng.below(29);
            let n = (rng.next() & ((1u64 << bits) - 1)) as usize;
            check_varint_value(n, &mut rep);
        }
    }
    // byte patterns: standalone reader and poll header machine against the reference reading
    for pat in patterns {
        rep.cases += 1;
        let mut frame = vec![0x30u8];
        frame.extend_from_slice(&pat);
        let expect = ref_varint(&pat);
        let mut rd: &[u8] = &frame;
        let got = futures_lite::future::block_on(decode_raw_header(&mut rd));
        let consumed = frame.len() - rd.len();
        let ok = match (&expect, &got) {
            (Ok(Some((v, k))), Ok((0x30, g))) => g == v && consumed == 1 + k,
            (Ok(None), Err(e)) => e.is_eof(),
            (Err(()), Err(mqtt_proto::Error::InvalidVarByteInt)) => true,
            _ => false,
        };
        if !ok {
            rep.fail("varint-decode", format!("vib {}", hex(&frame)), format!("decode_raw_header gave {:?} (consumed {}), reference {:?}", got, consumed, expect));
        }
        // poll header machine (v3, PUBLISH control byte)
        // (only the header bytes are fed: anything after them would be body)
        let hdr_only = match &expect {
            Ok(Some((_, k))) => &frame[..1 + k],
            _ => &frame[..],
        };
        let ph = crate::ops::poll_header_probe(hdr_only);
        let pok = match (&expect, ph.as_str()) {
            (Ok(Some((v, k))), s) => {
                if *v == 0 {
                    s == "err InvalidRemainingLength"
                } else {
                    s == format!("body {} {}", v, 1 + k + *v as usize)
                }
            }
            (Ok(None), s) => s == "header",
            (Err(()), s) => s == "err InvalidVarByteInt",
        };
        if !pok {
            rep.fail("varint-poll", format!("vib {}", hex(&frame)), format!("poll header machine gave '{}', reference {:?}", ph, expect));
        }
        rep.count(match expect {
            Ok(Some(_)) => "pattern:complete",
            Ok(None) => "pattern:incomplete",
            Err(()) => "pattern:overlong",
        });
    }
    rep.distinct = rep.cases;
    rep.sample("vi 16383 -> 2 bytes ff7f".into());
    rep.sample("vi 268435455 -> 4 bytes ffffff7f".into());
    rep.sample("vib 30ffffffff01 -> InvalidVarByteInt".into());
    rep
}
