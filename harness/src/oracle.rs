//! Implementation-side oracles: each property's own statement evaluated directly
//! on the real crate.  This is *search support* (it turns a broken proof or a broken
//! correspondence into a concrete replay); it never stands in for a theorem.

use crate::fmt::*;
use crate::ops::real_write_var_int;
use crate::report::*;
use mqtt_proto::{decode_raw_header, header_len, remaining_len, total_len, var_int_len, Pid};
use std::convert::TryFrom;

fn threads() -> usize {
    std::thread::available_parallelism().map(|n| n.get()).unwrap_or(4)
}

/// closed form the C19 theorems prove equal to the model and to the cycle
fn pid_add_closed(p: u32, u: u32) -> u32 {
    (p - 1 + u) % 65535 + 1
}
fn pid_sub_closed(p: u32, u: u32) -> u32 {
    (p - 1 + (65535 - u % 65535)) % 65535 + 1
}

fn c19_pair(p: u32, u: u32, rep: &mut Report) {
    rep.cases += 1;
    if p == 0 {
        if Pid::try_from(0u16).is_ok() {
            rep.fail("pid-tryfrom", "pid 0 0".into(), "try_from(0) succeeded".into());
        }
        return;
    }
    let pid = Pid::try_from(p as u16).unwrap();
    let a = pid + (u as u16);
    let s = pid - (u as u16);
    if a.value() as u32 != pid_add_closed(p, u) || a.value() == 0 {
        rep.fail("pid-add", format!("pid {} {}", p, u), format!("add gave {}, cycle says {}", a.value(), pid_add_closed(p, u)));
    }
    if s.value() as u32 != pid_sub_closed(p, u) || s.value() == 0 {
        rep.fail("pid-sub", format!("pid {} {}", p, u), format!("sub gave {}, cycle says {}", s.value(), pid_sub_closed(p, u)));
    }
}

pub fn c19(tier: &str, ops: Option<&[String]>) -> Report {
    let mut rep = Report::new("C19", "all 65535 identifiers x all 65536 amounts: real +,-,+=,-= against the closed form ((p-1±u) mod 65535)+1 that the Lean theorems prove equal to the model and to u steps round the cycle; try_from for all 65536 raw values");
    let _ = tier;
    if let Some(ops) = ops {
        for op in ops {
            let t: Vec<&str> = op.split_whitespace().collect();
            if t.len() == 3 && t[0] == "pid" {
                c19_pair(t[1].parse().unwrap_or(1), t[2].parse().unwrap_or(0), &mut rep);
            }
        }
        rep.distinct = rep.cases;
        return rep;
    }
    let nt = threads();
    let handles: Vec<_> = (0..nt)
        .map(|t| {
            std::thread::spawn(move || {
                let mut rep = Report::new("C19", "");
                let mut p = 1 + t as u32;
                while p <= 65535 {
                    let pid = Pid::try_from(p as u16).unwrap();
                    for u in 0..=65535u32 {
                        let a = pid + (u as u16);
                        let s = pid - (u as u16);
                        let mut aa = pid;
                        aa += u as u16;
                        let mut ss = pid;
                        ss -= u as u16;
                        rep.cases += 1;
                        let ea = pid_add_closed(p, u);
                        let es = pid_sub_closed(p, u);
                        if a.value() as u32 != ea || aa != a || a.value() == 0 {
                            rep.fail("pid-add", format!("pid {} {}", p, u), format!("add gave {} (in-place {}), cycle says {}", a.value(), aa.value(), ea));
                        }
                        if s.value() as u32 != es || ss != s || s.value() == 0 {
                            rep.fail("pid-sub", format!("pid {} {}", p, u), format!("sub gave {} (in-place {}), cycle says {}", s.value(), ss.value(), es));
                        }
                        if (a - (u as u16)) != pid || (s + (u as u16)) != pid {
                            rep.fail("pid-inverse", format!("pid {} {}", p, u), "(p+u)-u or (p-u)+u differs from p".into());
                        }
                    }
                    p += nt as u32;
                }
                rep
            })
        })
        .collect();
    for h in handles {
        match h.join() {
            Ok(r) => rep.merge(r),
            Err(_) => rep.fail("pid-panic", "pid <p> <u>".into(), "a Pid operator panicked".into()),
        }
    }
    for v in 0..=65535u32 {
        rep.cases += 1;
        let r = Pid::try_from(v as u16);
        let ok = match (&r, v) {
            (Err(mqtt_proto::Error::ZeroPid), 0) => true,
            (Ok(p), v) if v != 0 => p.value() as u32 == v,
            _ => false,
        };
        if !ok {
            rep.fail("pid-tryfrom", format!("pid {} 0", v), format!("try_from gave {:?}", r.map(|p| p.value())));
        }
    }
    rep.distinct = rep.cases;
    rep.exhaustive = true;
    {
        // the identifier a client starts from: Pid::default() is a valid identifier like any other
        use mqtt_proto::Pid;
        use std::convert::TryFrom;
        rep.cases += 1;
        let d = Pid::default();
        if d.value() == 0 || Pid::try_from(d.value()) != Ok(d) || (d + 5) - 5 != d {
            rep.fail("pid-default", "Pid::default()".into(), format!("Pid::default() has value {} (identifiers are 1..=65535), try_from of it gives {:?}, (default + 5) - 5 = {}", d.value(), Pid::try_from(d.value()).map(|p| p.value()), ((d + 5) - 5).value()));
        }
    }
    rep.sample("pid 65535 1 -> add=1".into());
    rep.sample("pid 1 65535 -> sub=1".into());
    rep.sample("pid 1 1 -> sub=65535".into());
    rep
}

fn check_varint_value(n: usize, rep: &mut Report) {
    rep.cases += 1;
    let vil = var_int_len(n);
    let tl = total_len(n);
    if n < (1 << 28) {
        let w = real_write_var_int(n as u32).unwrap();
        let k = w.len();
        if vil.as_ref().ok() != Some(&k) || !(1..=4).contains(&k) {
            rep.fail("varint-len", format!("vi {}", n), format!("write_var_int wrote {} bytes ({}), var_int_len says {:?}", k, hex(&w), vil));
        }
        // minimal form: continuation bits exactly on all but last, last digit non-zero unless single byte
        let minimal = w[..k - 1].iter().all(|b| b & 0x80 != 0) && w[k - 1] & 0x80 == 0 && (k == 1 || w[k - 1] != 0);
        if !minimal {
            rep.fail("varint-minimal", format!("vi {}", n), format!("non-minimal encoding {}", hex(&w)));
        }
        let mut frame = vec![0x30u8];
        frame.extend_from_slice(&w);
        frame.push(0xAA);
        let mut rd: &[u8] = &frame;
        match futures_lite::future::block_on(decode_raw_header(&mut rd)) {
            Ok((0x30, v)) if v as usize == n && rd.len() == 1 => {}
            other => rep.fail("varint-roundtrip", format!("vib {}", hex(&frame)), format!("decode of write_var_int({}) gave {:?}, {} bytes left", n, other, rd.len())),
        }
        match tl {
            Ok(t) if t == n + 1 + k => {
                if header_len(t) != 1 + k {
                    rep.fail("header-len", format!("vi {}", t), format!("header_len({}) = {}, expected {}", t, header_len(t), 1 + k));
                }
                if remaining_len(t) != n {
                    rep.fail("remaining-len", format!("vi {}", t), format!("remaining_len({}) = {}, expected {}", t, remaining_len(t), n));
                }
            }
            other => rep.fail("total-len", format!("vi {}", n), format!("total_len({}) = {:?}, expected {}", n, other, n + 1 + k)),
        }
    } else {
        if vil.is_ok() || tl.is_ok() {
            rep.fail("varint-limit", format!("vi {}", n), format!("value >= 2^28 accepted: var_int_len {:?} total_len {:?}", vil, tl));
        }
        if n <= u32::MAX as usize && mqtt_proto::v5::VarByteInt::try_from(n as u32).is_ok() {
            rep.fail("varint-limit", format!("vi {}", n), "VarByteInt::try_from accepted a value >= 2^28".into());
        }
    }
}

pub fn interesting_varints() -> Vec<usize> {
    let mut v = Vec::new();
    for t in [0usize, 128, 16384, 2097152, 268435456] {
        for d in 0..=66usize {
            if t >= d {
                v.push(t - d);
            }
            v.push(t + d);
        }
    }
    v.extend([u32::MAX as usize, u32::MAX as usize - 1, 1 << 31, (1 << 28) + 1000, 1 << 29]);
    // far beyond the scan: every power of two up to 2^63 (±1, +5, + each in-range boundary): a helper that
    // narrows its argument (`as u32`, `as u16`) maps these back into the accepted range
    for k in 28..64u32 {
        let p = 1usize << k;
        v.extend([p - 1, p, p + 1, p + 5, p + 127, p + 128, p + 16_384, p + 2_097_152, p + 268_435_455]);
    }
    v.extend([usize::MAX, usize::MAX - 1, usize::MAX - 127, (1usize << 32) * 3 + 7, (1usize << 40) + (1 << 20)]);
    v.sort();
    v.dedup();
    v
}

/// all continuation-bit patterns of up to 5 bytes, each byte drawn from a few payloads
pub fn varint_patterns() -> Vec<Vec<u8>> {
    let lows = [0x00u8, 0x01, 0x7f];
    let mut out = Vec::new();
    for len in 1..=5usize {
        for pat in 0..(1u32 << len) {
            for li in 0..lows.len() {
                let bytes: Vec<u8> = (0..len)
                    .map(|i| {
                        let cont = (pat >> i) & 1 == 1;
                        let low = lows[(li + i) % lows.len()];
                        if cont {
                            low | 0x80
                        } else {
                            low
                        }
                    })
                    .collect();
                out.push(bytes);
            }
        }
    }
    out
}

/// reference reading of a varint prefix, written from MQTT 1.5.5 (independent of the crate)
fn ref_varint(bs: &[u8]) -> Result<Option<(u32, usize)>, ()> {
    let mut val: u32 = 0;
    for i in 0..4 {
        match bs.get(i) {
            None => return Ok(None),
            Some(b) => {
                val += ((b & 0x7f) as u32) << (7 * i);
                if b & 0x80 == 0 {
                    return Ok(Some((val, i + 1)));
                }
            }
        }
    }
    Err(())
}

pub fn c15(tier: &str, seed: u64, ops: Option<&[String]>) -> Report {
    let mut rep = Report::new("C15", "varint/length-helper laws on the real functions over ALL 2^28+9 values (write/size/minimal form/read back/total/header/remaining/limit), plus all continuation-bit patterns up to 5 bytes through decode_raw_header and the poll header machine against a reference reading of MQTT 1.5.5");
    let _ = (tier, seed);
    let mut patterns = varint_patterns();
    if let Some(ops) = ops {
        patterns.clear();
        for op in ops {
            let t: Vec<&str> = op.split_whitespace().collect();
            if t.len() == 2 && t[0] == "vi" {
                if let Ok(n) = t[1].parse::<usize>() {
                    check_varint_value(n, &mut rep);
                }
            } else if t.len() == 2 && t[0] == "vib" {
                if let Some(b) = unhex(t[1]) {
                    if b.len() > 1 {
                        patterns.push(b[1..].to_vec());
                    }
                }
            }
        }
    } else if true {
        let nt = threads();
        let handles: Vec<_> = (0..nt)
            .map(|t| {
                std::thread::spawn(move || {
                    let mut rep = Report::new("C15", "");
                    let mut n = t;
                    while n < (1 << 28) + 9 {
                        check_varint_value(n, &mut rep);
                        n += nt;
                    }
                    rep
                })
            })
            .collect();
        for h in handles {
            match h.join() {
                Ok(r) => rep.merge(r),
                Err(_) => rep.fail("varint-panic", "vi <n>".into(), "a helper panicked during the exhaustive scan".into()),
            }
        }
        // … and, beyond the scanned range, the sparse set of huge arguments (powers of two up to 2^63 etc.)
        for n in interesting_varints() {
            if n > (1 << 28) + 8 {
                let r = std::panic::catch_unwind(|| {
                    let mut one = Report::new("C15", "");
                    check_varint_value(n, &mut one);
                    one
                });
                match r {
                    Ok(one) => rep.merge(one),
                    Err(_) => rep.fail("varint-panic", format!("vi {}", n), "a length helper panicked".into()),
                }
            }
        }
        rep.exhaustive = true;
    } else {
        for n in interesting_varints() {
            check_varint_value(n, &mut rep);
        }
        let mut rng = Rng::new(seed);
        for _ in 0..200_000 {
            let bits = 1 + rng.below(29);
            let n = (rng.next() & ((1u64 << bits) - 1)) as usize;
            check_varint_value(n, &mut rep);
        }
    }
    // byte patterns: standalone reader and poll header machine against the reference reading
    for pat in patterns {
        rep.cases += 1;
        let mut frame = vec![0x30u8];
        frame.extend_from_slice(&pat);
        let expect = ref_varint(&pat);
        let mut rd: &[u8] = &frame;
        let got = futures_lite::future::block_on(decode_raw_header(&mut rd));
        let consumed = frame.len() - rd.len();
        let ok = match (&expect, &got) {
            (Ok(Some((v, k))), Ok((0x30, g))) => g == v && consumed == 1 + k,
            (Ok(None), Err(e)) => e.is_eof(),
            (Err(()), Err(mqtt_proto::Error::InvalidVarByteInt)) => true,
            _ => false,
        };
        if !ok {
            rep.fail("varint-decode", format!("vib {}", hex(&frame)), format!("decode_raw_header gave {:?} (consumed {}), reference {:?}", got, consumed, expect));
        }
        // poll header machine (v3, PUBLISH control byte)
        // (only the header bytes are fed: anything after them would be body)
        let hdr_only = match &expect {
            Ok(Some((_, k))) => &frame[..1 + k],
            _ => &frame[..],
        };
        let ph = crate::ops::poll_header_probe(hdr_only);
        let pok = match (&expect, ph.as_str()) {
            (Ok(Some((v, k))), s) => {
                if *v == 0 {
                    s == "err InvalidRemainingLength"
                } else {
                    s == format!("body {} {}", v, 1 + k + *v as usize)
                }
            }
            (Ok(None), s) => s == "header",
            (Err(()), s) => s == "err InvalidVarByteInt",
        };
        if !pok {
            rep.fail("varint-poll", format!("vib {}", hex(&frame)), format!("poll header machine gave '{}', reference {:?}", ph, expect));
        }
        rep.count(match expect {
            Ok(Some(_)) => "pattern:complete",
            Ok(None) => "pattern:incomplete",
            Err(()) => "pattern:overlong",
        });
    }
    // body-less packets (PINGREQ, PINGRESP, DISCONNECT) with remaining length 0 spelled in 1..4 bytes: the poll
    // decoder reports 1 + (size of the length field) — the bytes it consumed
    if ops.is_none() {
        for cb in [0xc0u8, 0xd0, 0xe0] {
            for k in 1..=4usize {
                rep.cases += 1;
                let mut frame = vec![cb];
                for j in 0..k {
                    frame.push(if j + 1 == k { 0x00 } else { 0x80 });
                }
                let got = crate::ops::poll_header_probe(&frame);
                if got != format!("ok {}", 1 + k) {
                    rep.fail("varint-poll", format!("vib {}", hex(&frame)), format!("poll decoder on a body-less packet whose zero remaining length is spelled in {} byte(s) gave '{}', expected 'ok {}'", k, got, 1 + k));
                }
            }
        }
    }
    rep.distinct = rep.cases;
    rep.sample("vi 16383 -> 2 bytes ff7f".into());
    rep.sample("vi 268435455 -> 4 bytes ffffff7f".into());
    rep.sample("vib 30ffffffff01 -> InvalidVarByteInt".into());
    rep
}

// ---------------------------------------------------------------- topics (C16, C17, C18)

/// MQTT 4.7 / 4.8.2 written out independently of the crate.  Returns the byte index of the
/// '/' before the shared filter for a valid shared filter, 0 for a valid ordinary one.
pub fn spec_filter(s: &str) -> Option<usize> {
    if s.is_empty() || s.len() > 65535 || s.contains('\0') {
        return None;
    }
    let levels: Vec<&str> = s.split('/').collect();
    for (i, l) in levels.iter().enumerate() {
        if l.contains('#') && (*l != "#" || i + 1 != levels.len()) {
            return None;
        }
        if l.contains('+') && *l != "+" {
            return None;
        }
    }
    if levels[0] == "$share" && levels.len() >= 2 {
        if levels.len() < 3 {
            return None;
        }
        let g = levels[1];
        if g.is_empty() || g.contains('+') || g.contains('#') {
            return None;
        }
        let sep = 7 + g.len();
        if s.len() == sep + 1 {
            return None;
        }
        return Some(sep);
    }
    Some(0)
}

pub fn spec_name(s: &str) -> bool {
    s.len() <= 65535 && !s.contains('+') && !s.contains('#') && !s.contains('\0')
}

fn strings_from_ops(ops: &[String], name: &str) -> Vec<String> {
    let mut v = Vec::new();
    for op in ops {
        let t: Vec<&str> = op.split_whitespace().collect();
        if t.len() == 2 && (t[0] == name || (name == "tf" && t[0] == "tfd")) {
            if let Some(b) = unhex(t[1]) {
                if let Ok(s) = String::from_utf8(b) {
                    v.push(s);
                }
            }
        }
    }
    v
}

fn gen_strings(stream: &str, tier: &str, seed: u64) -> Vec<String> {
    strings_from_ops(&crate::gen::gen(stream, tier, seed), stream)
}

fn hash_of<T: std::hash::Hash>(t: &T) -> u64 {
    use std::hash::Hasher;
    let mut h = std::collections::hash_map::DefaultHasher::new();
    t.hash(&mut h);
    h.finish()
}

pub fn c16(tier: &str, seed: u64, ops: Option<&[String]>) -> Report {
    use mqtt_proto::TopicFilter;
    let mut rep = Report::new("C16", "TopicFilter::is_invalid/try_from and the SUBSCRIBE/UNSUBSCRIBE decoders (v3 and v5) against MQTT 4.7/4.8.2 written independently: all strings up to length 5 (thorough 6) over {/ + # $ a NUL é 你 😀}, every $share prefix shape x short strings, 65534/65535/65536-byte strings, random");
    let strs = match ops {
        Some(o) => strings_from_ops(o, "tf"),
        None => gen_strings("tf", tier, seed),
    };
    let mut seen = std::collections::HashSet::new();
    for s in strs {
        rep.cases += 1;
        if !seen.insert(s.clone()) {
            continue;
        }
        rep.distinct += 1;
        let spec = spec_filter(&s);
        let (inv, sep) = match std::panic::catch_unwind(|| TopicFilter::is_invalid(&s)) {
            Ok(r) => r,
            Err(_) => {
                rep.fail("filter-panic", format!("tf {}", hex_or_dash(s.as_bytes())), "is_invalid panicked".into());
                continue;
            }
        };
        rep.count(if spec.is_some() { if spec == Some(0) { "valid-plain" } else { "valid-shared" } } else { "invalid" });
        let ctor = TopicFilter::try_from(s.clone()).is_ok();
        if inv == spec.is_some() || ctor != spec.is_some() {
            let key = if spec.is_some() { "filter-rejects-valid" } else { "filter-accepts-invalid" };
            rep.fail(key, format!("tf {}", hex_or_dash(s.as_bytes())), format!("{:?}: is_invalid={} try_from.is_ok={} but MQTT says valid={}", s, inv, ctor, spec.is_some()));
            continue;
        }
        if let Some(sp) = spec {
            if sep as usize != sp {
                rep.fail("filter-sep", format!("tf {}", hex_or_dash(s.as_bytes())), format!("{:?}: separator index {} expected {}", s, sep, sp));
            }
        }
        // same decision inside SUBSCRIBE / UNSUBSCRIBE packets, v3 and v5 (strings that fit a packet)
        if s.len() <= 65535 {
            let verdicts = crate::pkt::filter_in_packets(&s);
            for (what, accepted) in verdicts {
                if accepted != spec.is_some() {
                    rep.fail("filter-packet-path", format!("tf {}", hex_or_dash(s.as_bytes())), format!("{:?}: {} accepted={} but MQTT says valid={}", s, what, accepted, spec.is_some()));
                }
            }
        }
    }
    if ops.is_none() {
        // EVERY Unicode scalar value as a one-character filter, inside a level, and as a share name
        for cp in 0..=0x10ffffu32 {
            if let Some(c) = char::from_u32(cp) {
                rep.cases += 1;
                for s in [c.to_string(), format!("a/{}b/+", c), format!("$share/{}/t", c)] {
                    let spec = spec_filter(&s);
                    let (inv, sep) = TopicFilter::is_invalid(&s);
                    let ok = TopicFilter::try_from(s.clone()).is_ok();
                    if inv == spec.is_some() || ok != spec.is_some() || (spec.is_some() && sep as usize != spec.unwrap()) {
                        rep.fail("filter-scalar", format!("tf {}", hex_or_dash(s.as_bytes())), format!("{:?} (U+{:04X}): is_invalid=({}, {}) try_from.is_ok={} but MQTT says {:?}", s, cp, inv, sep, ok, spec));
                    }
                }
            }
        }
    }
    rep.sample("tf 2b78 (\"+x\") -> invalid".into());
    rep.sample("tf 2473686172652f672f23 (\"$share/g/#\") -> valid, sep 8".into());
    rep
}

pub fn c17(tier: &str, seed: u64, ops: Option<&[String]>) -> Report {
    use mqtt_proto::TopicFilter;
    let mut rep = Report::new("C17", "for every accepted filter of the tf stream: accessors = the unique split $share/<name>/<filter> computed independently, non-shared report none, to_string/deref = text; ==, cmp, partial_cmp, hash of filters agree with those of their texts on consecutive pairs AND on all pairs of a pool of ~1,000-3,000 accepted filters plus families of related shared filters (group names / filters extended by one character below, at and above '/'); sorting filters = sorting texts");
    let strs = match ops {
        Some(o) => strings_from_ops(o, "tf"),
        None => gen_strings("tf", tier, seed),
    };
    let mut prev: Option<(String, TopicFilter)> = None;
    let mut pool: Vec<String> = Vec::new();
    let mut seen = std::collections::HashSet::new();
    for s in strs {
        let f = match TopicFilter::try_from(s.clone()) {
            Ok(f) => f,
            Err(_) => continue,
        };
        rep.cases += 1;
        if seen.insert(s.clone()) {
            rep.distinct += 1;
        }
        let input = format!("tf {}", hex_or_dash(s.as_bytes()));
        // independent split
        let expect: Option<(String, String)> = if s.starts_with("$share/") {
            let rest = &s[7..];
            rest.find('/').map(|i| (rest[..i].to_string(), rest[i + 1..].to_string()))
        } else {
            None
        };
        rep.count(if expect.is_some() { "shared" } else { "plain" });
        let got = std::panic::catch_unwind(std::panic::AssertUnwindSafe(|| {
            (f.shared_group_name().map(|x| x.to_string()), f.shared_filter().map(|x| x.to_string()), f.shared_info().map(|(a, b)| (a.to_string(), b.to_string())), f.is_shared())
        }));
        match got {
            Err(_) => rep.fail("filter-accessor-panic", input.clone(), format!("{:?}: a shared-subscription accessor panicked", s)),
            Ok((g, fl, info, sh)) => {
                let e_g = expect.as_ref().map(|e| e.0.clone());
                let e_f = expect.as_ref().map(|e| e.1.clone());
                if g != e_g || fl != e_f || info != expect || sh != expect.is_some() {
                    rep.fail("filter-accessors", input.clone(), format!("{:?}: accessors gave {:?}/{:?}/{:?}/{} expected {:?}", s, g, fl, info, sh, expect));
                }
            }
        }
        if f.to_string() != s || &*f != s.as_str() {
            rep.fail("filter-text", input.clone(), "to_string/deref differs from the original text".into());
        }
        if hash_of(&f) != hash_of(&s) {
            rep.fail("filter-hash", input.clone(), "hash(filter) != hash(text)".into());
        }
        if let Some((ps, pf)) = &prev {
            if (pf == &f) != (ps == &s) || pf.cmp(&f) != ps.cmp(&s) || pf.partial_cmp(&f) != ps.partial_cmp(&s) {
                rep.fail("filter-cmp", input.clone(), format!("==/cmp of filters {:?},{:?} disagree with their texts", ps, s));
            }
            // a filter built twice from the same text is equal to itself with equal hash
            let again = TopicFilter::try_from(s.clone()).unwrap();
            if again != f || hash_of(&again) != hash_of(&f) {
                rep.fail("filter-cmp", input.clone(), "two filters from the same text differ".into());
            }
        }
        if pool.len() < 4000 && s.len() <= 40 && (expect.is_some() || pool.len() % 3 == 0) {
            pool.push(s.clone());
        }
        prev = Some((s, f));
    }
    // ALL PAIRS over a pool of accepted filters plus families of RELATED filters: for each shared filter
    // `$share/G/F`, group names that extend G by one character below / equal to / above '/' in code-point
    // order, filters that extend F, and the ordinary filter with the same text after the prefix.
    // (The ordering of two filters must be the ordering of their texts: sort, BTreeSet, binary search.)
    let mut fam: Vec<String> = Vec::new();
    for s in pool.iter().filter(|s| s.starts_with("$share/")).take(if tier == "thorough" { 400 } else { 120 }) {
        let rest = &s[7..];
        if let Some(i) = rest.find('/') {
            let (g, f) = (&rest[..i], &rest[i + 1..]);
            for c in [" ", "!", "$", "-", ".", "0", "a", "\u{7f}", "é", "\u{1}"] {
                fam.push(format!("$share/{}{}/{}", g, c, f));
                fam.push(format!("$share/{}/{}{}", g, f.trim_end_matches('#').trim_end_matches('+'), c));
            }
            fam.push(format!("{}/{}", g, f));
            fam.push(format!("$share/{}/{}/x", g, f.trim_end_matches('#')));
        }
    }
    let mut all: Vec<(String, TopicFilter)> = Vec::new();
    let limit = if tier == "thorough" { 2500 } else { 900 };
    let step = (pool.len() / limit).max(1);
    for s in pool.iter().step_by(step).chain(fam.iter()) {
        if let Ok(f) = TopicFilter::try_from(s.clone()) {
            all.push((s.clone(), f));
        }
    }
    if ops.is_none() || !all.is_empty() {
        for (i, (sa, fa)) in all.iter().enumerate() {
            for (sb, fb) in all.iter().skip(i) {
                rep.cases += 1;
                if fa.cmp(fb) != sa.cmp(sb) || fa.partial_cmp(fb) != sa.partial_cmp(sb) || (fa == fb) != (sa == sb) || fb.cmp(fa) != sb.cmp(sa) || (fa == fb && hash_of(fa) != hash_of(fb)) {
                    rep.fail(
                        "filter-cmp",
                        format!("tf {}", hex_or_dash(sa.as_bytes())),
                        format!("filters {:?} and {:?}: cmp={:?} eq={} but their texts compare {:?} eq={}", sa, sb, fa.cmp(fb), fa == fb, sa.cmp(sb), sa == sb),
                    );
                }
            }
        }
        // and as a whole: sorting the filters = sorting the texts
        let mut by_filter: Vec<&(String, TopicFilter)> = all.iter().collect();
        by_filter.sort_by(|a, b| a.1.cmp(&b.1));
        let mut by_text: Vec<&String> = all.iter().map(|x| &x.0).collect();
        by_text.sort();
        if by_filter.iter().map(|x| &x.0).collect::<Vec<_>>() != by_text {
            let k = by_filter.iter().zip(by_text.iter()).position(|(a, b)| &&a.0 != b).unwrap_or(0);
            rep.fail("filter-cmp", format!("tf {}", hex_or_dash(by_text[k].as_bytes())), format!("sorting {} filters gives a different order than sorting their texts (first difference at rank {}: {:?} vs {:?})", all.len(), k, by_filter[k].0, by_text[k]));
        }
    }
    rep.count(&format!("all-pairs-pool:{}", all.len()));
    rep.sample("tf 2473686172652fe4bda0e5a5bd2f2b -> group 你好, filter +".into());
    rep
}

pub fn c18(tier: &str, seed: u64, ops: Option<&[String]>) -> Report {
    use mqtt_proto::TopicName;
    let mut rep = Report::new("C18", "TopicName::is_invalid/try_from and the PUBLISH / will / response-topic decode paths (v3, v5) against the MQTT rule written independently; text preserved; $share/ and $SYS/ prefixes; same string space as C16");
    let strs = match ops {
        Some(o) => strings_from_ops(o, "tn"),
        None => gen_strings("tn", tier, seed),
    };
    let mut seen = std::collections::HashSet::new();
    for s in strs {
        rep.cases += 1;
        if !seen.insert(s.clone()) {
            continue;
        }
        rep.distinct += 1;
        let input = format!("tn {}", hex_or_dash(s.as_bytes()));
        let spec = spec_name(&s);
        rep.count(if spec { "valid" } else { "invalid" });
        let inv = TopicName::is_invalid(&s);
        match TopicName::try_from(s.clone()) {
            Ok(t) => {
                if !spec || inv {
                    rep.fail("name-accepts-invalid", input.clone(), format!("{:?} accepted", s));
                }
                if &*t != s.as_str() || t.to_string() != s {
                    rep.fail("name-text", input.clone(), "text not preserved".into());
                }
                if t.is_shared() != s.starts_with("$share/") || t.is_sys() != s.starts_with("$SYS/") {
                    rep.fail("name-prefix", input.clone(), format!("{:?}: is_shared={} is_sys={}", s, t.is_shared(), t.is_sys()));
                }
            }
            Err(_) => {
                if spec || !inv {
                    rep.fail("name-rejects-valid", input.clone(), format!("{:?} rejected", s));
                }
            }
        }
        if spec && !s.is_empty() && s.len() <= 300 && s.bytes().any(|b| b.is_ascii_alphabetic()) {
            // inside a v5 PUBLISH next to a Response Topic that differs only in ASCII case: both texts come back exactly
            for resp in [s.to_ascii_uppercase(), s.to_ascii_lowercase(), s.clone()] {
                match crate::pkt::name_with_similar_response_topic(&s, &resp) {
                    Some((t, r, sys, sh)) if t == s && r.as_deref() == Some(resp.as_str()) && sys == s.starts_with("$SYS/") && sh == s.starts_with("$share/") => {}
                    other => rep.fail("name-packet-text", input.clone(), format!("v5 PUBLISH with topic {:?} and response topic {:?} decoded to {:?}", s, resp, other)),
                }
            }
        }
        if s.len() <= 65535 {
            for (what, accepted) in crate::pkt::name_in_packets(&s) {
                if accepted != spec {
                    rep.fail("name-packet-path", input.clone(), format!("{:?}: {} accepted={} but the rule says valid={}", s, what, accepted, spec));
                }
            }
        }
    }
    if ops.is_none() {
        // EVERY Unicode scalar value as a one-character name and embedded in a longer one
        for cp in 0..=0x10ffffu32 {
            if let Some(c) = char::from_u32(cp) {
                rep.cases += 1;
                for s in [c.to_string(), format!("a/{}b", c)] {
                    let spec = spec_name(&s);
                    let inv = TopicName::is_invalid(&s);
                    let ok = TopicName::try_from(s.clone()).is_ok();
                    if inv == spec || ok != spec {
                        rep.fail("name-scalar", format!("tn {}", hex_or_dash(s.as_bytes())), format!("{:?} (U+{:04X}): is_invalid={} try_from.is_ok={} but MQTT says valid={}", s, cp, inv, ok, spec));
                    }
                }
            }
        }
    }
    rep.sample("tn 612b (\"a+\") -> invalid".into());
    rep
}

// ---------------------------------------------------------------- packet-level properties

use crate::fam::{Fam, V3, V5};
use crate::poracle as po;

fn both<FN3, FN5>(rep: &mut Report, f3: FN3, f5: FN5)
where
    FN3: FnOnce(&mut Report),
    FN5: FnOnce(&mut Report),
{
    f3(rep);
    f5(rep);
}

fn distinct_of<T: std::fmt::Debug>(xs: &[T]) -> u64 {
    let mut s = std::collections::HashSet::new();
    for x in xs {
        s.insert(format!("{:?}", x));
    }
    s.len() as u64
}

pub fn packet_oracle(prop: &str, tier: &str, seed: u64, ops: Option<&[String]>) -> Report {
    let rule = match prop {
        "C01" => "type-directed generator of valid packets (all 14 v3 / 15 v5 types; every optional field and property present/absent incl. all-present, none, exactly-one and all-but-one property subsets; every code; boundary lengths 0,1,127,128,16383..16385,65534,65535) -> encode, then blocking/async/poll decode of the encoding alone and followed by trailing bytes; poll total and raw body compared",
        "C02" => "same generator: encode vs encode_len, fixed-header remaining length vs bytes following, Encodable::encode of every body vs its encode_len and vs the packet body; remaining lengths exactly at 127/128, 16383/16384, 2097151/2097152, 268435455/268435456 (v3 PUBLISH with shared payload); oversize v5 property sections; run in release and in debug (debug assertions + overflow checks) builds",
        "C03" => "valid encodings with structure-aware corruptions (bit flips, length edits, truncation, extension, splicing, maximal remaining length, non-minimal lengths) and random strings through blocking/async/poll decoders of both families under catch_unwind in release and debug builds; the exhaustive <=2-byte (thorough: sampled 3-byte) strings are in the correspondence stream",
        "C05" => "for every byte string of the mutated-encoding corpus: poll with two random schedules (chunks, Pending, Pending+drop/re-create) and random terminal event vs one uninterrupted read: same result, same consumption, Pending count = transport Pendings, every requested buffer within the frame, consumed = reported total",
        "C06" => "blocking vs async(EOF mapped) vs poll on valid, corrupted and random byte strings of both families; per error variant tallies",
        "C07" => "every cut position (all positions up to 400 bytes, 200 sampled beyond) of every generated valid packet on blocking/async/poll (random schedule) decoders; encoding followed by random or adversarial (another packet) suffix",
        "C08" => "sequences of 1..20 generated valid packets (mixed types incl. zero-body and multi-byte-length headers) decoded back-to-back by blocking (advance by encode_len), async (reader position) and poll (reported total, random chunking) front-ends",
        "C09" => "encode twice; encode_async into sinks accepting everything / 1 byte / random 1..7 bytes with Pendings; Encodable::encode of the body into a chunking io::Write sink vs the packet body",
        "C11" => "every byte string of the mutated corpus that any front-end accepts: re-encode, decode again on blocking and poll, compare length with bytes consumed",
        "C12" => "field-by-field walker over every packet any front-end returns for the mutated corpus: UTF-8 of every text, TopicName/TopicFilter validity, accessors vs validator index, pid != 0, VarByteInt < 2^28, flagged payloads",
        "C14" => "read side: a transport error of a random kind (6 kinds) or EOF at every cut of every generated packet, async and poll (random schedules); write side: error or zero-length write at a random position of encode_async and of the streaming body encoder",
        _ => "",
    };
    let mut rep = Report::new(prop, rule);
    let thorough = tier == "thorough";
    match prop {
        "C01" | "C02" | "C09" | "C07" | "C14" | "C08" => {
            let (nq, nt) = match prop {
                "C07" | "C14" => (600, 6000),
                "C08" => (3000, 30000),
                _ => (6000, 60000),
            };
            let i3 = po::inputs::<V3>(tier, seed, ops, nq, nt, false);
            let i5 = po::inputs::<V5>(tier, seed.wrapping_add(1), ops, nq, nt, false);
            rep.distinct = distinct_of(&i3.packets) + distinct_of(&i5.packets);
            let mut rng = Rng::new(seed ^ 0x5151);
            match prop {
                "C01" => {
                    for p in &i3.packets {
                        po::c01::<V3>(&mut rep, p);
                    }
                    for p in &i5.packets {
                        po::c01::<V5>(&mut rep, p);
                    }
                    if ops.is_none() {
                        po::pair_sweeps(&mut rep, true);
                        po::full_1d_sweeps(&mut rep, true);
                        po::all_scalars(&mut rep);
                    }
                }
                "C02" => {
                    for p in &i3.packets {
                        po::c02::<V3>(&mut rep, p);
                    }
                    for p in &i5.packets {
                        po::c02::<V5>(&mut rep, p);
                    }
                    if ops.is_none() {
                        po::pair_sweeps(&mut rep, false);
                        po::full_1d_sweeps(&mut rep, false);
                        po::c02_oversize(&mut rep);
                        po::c02_property_boundaries(&mut rep);
                        po::c02_boundary(&mut rep);
                    }
                }
                "C09" => {
                    for p in &i3.packets {
                        po::c09::<V3>(&mut rep, p, &mut rng, false);
                    }
                    for p in &i5.packets {
                        po::c09::<V5>(&mut rep, p, &mut rng, false);
                    }
                }
                "C07" => {
                    for p in &i3.packets {
                        po::c07::<V3>(&mut rep, p, &mut rng, false);
                    }
                    for p in &i5.packets {
                        po::c07::<V5>(&mut rep, p, &mut rng, false);
                    }
                }
                "C14" => {
                    for p in &i3.packets {
                        po::c07::<V3>(&mut rep, p, &mut rng, true);
                        po::c09::<V3>(&mut rep, p, &mut rng, true);
                    }
                    for p in &i5.packets {
                        po::c07::<V5>(&mut rep, p, &mut rng, true);
                        po::c09::<V5>(&mut rep, p, &mut rng, true);
                    }
                    c14_conversions(&mut rep);
                }
                _ => {
                    let mut k = 0;
                    while k < i3.packets.len() {
                        let n = 1 + rng.below(20) as usize;
                        let end = (k + n).min(i3.packets.len());
                        po::c08::<V3>(&mut rep, &i3.packets[k..end], &mut rng);
                        k = end;
                    }
                    let mut k = 0;
                    while k < i5.packets.len() {
                        let n = 1 + rng.below(20) as usize;
                        let end = (k + n).min(i5.packets.len());
                        po::c08::<V5>(&mut rep, &i5.packets[k..end], &mut rng);
                        k = end;
                    }
                }
            }
        }
        _ => {
            let (nq, nt) = (2500, 25000);
            let i3 = po::inputs::<V3>(tier, seed, ops, nq, nt, true);
            let i5 = po::inputs::<V5>(tier, seed.wrapping_add(1), ops, nq, nt, true);
            let mut extra: Vec<Vec<u8>> = Vec::new();
            let mut rng = Rng::new(seed ^ 0x7777);
            if ops.is_none() {
                for _ in 0..(if thorough { 20000 } else { 2000 }) {
                    let n = rng.below(24) as usize;
                    extra.push((0..n).map(|_| rng.next() as u8).collect());
                }
            }
            rep.distinct = distinct_of(&i3.bytes) + distinct_of(&i5.bytes) + 2 * distinct_of(&extra);
            let fl = po::ByteFlags { c03: prop == "C03", c05: prop == "C05", c06: prop == "C06", c11: prop == "C11" };
            let c12 = prop == "C12";
            for b in i3.bytes.iter().chain(extra.iter()) {
                po::bytes_pass::<V3>(&mut rep, b, &mut rng, &fl, &|p| crate::walk::walk_v3(p), c12);
            }
            for b in i5.bytes.iter().chain(extra.iter()) {
                po::bytes_pass::<V5>(&mut rep, b, &mut rng, &fl, &|p| crate::walk::walk_v5(p), c12);
            }
        }
    }
    if prop == "C11" && ops.is_none() {
        c11_probes(&mut rep);
        c11_probe_max_frame(&mut rep);
        if thorough {
            c11_probe_oversize(&mut rep);
        }
    }
    let _ = both::<fn(&mut Report), fn(&mut Report)>;
    rep.sample(format!("enc v3 {}", crate::v3text::show(&crate::pgen::gen_v3(&mut Rng::new(seed), 2, crate::pgen::Sizes { big: false }))));
    rep.sample(format!("enc v5 {}", crate::v5text::show(&crate::pgen::gen_v5(&mut Rng::new(seed), 0, crate::pgen::Sizes { big: false }, 1, 0))));
    rep
}

fn c14_conversions(rep: &mut Report) {
    use mqtt_proto::{v5::ErrorV5, Error, Protocol};
    use std::io;
    let kinds = [io::ErrorKind::UnexpectedEof, io::ErrorKind::ConnectionReset, io::ErrorKind::TimedOut, io::ErrorKind::BrokenPipe, io::ErrorKind::WouldBlock, io::ErrorKind::Other, io::ErrorKind::WriteZero, io::ErrorKind::InvalidData, io::ErrorKind::ConnectionAborted, io::ErrorKind::NotConnected];
    let kinds: Vec<io::ErrorKind> = kinds.iter().cloned().chain(po::READ_IOKINDS.iter().cloned()).collect();
    for k in kinds {
        // every kind with the bare error and with 40 realistic messages (short, long, multi-byte at every alignment)
        for salt in 0..41usize {
            rep.cases += 1;
            let mk = || if salt == 40 { io::Error::from(k) } else { crate::sio::fault(k, salt) };
            let r = std::panic::catch_unwind(|| {
                let e: Error = mk().into();
                let back: io::Error = e.clone().into();
                let e5: ErrorV5 = mk().into();
                let ok = matches!(&e, Error::IoError(k2, _) if *k2 == k) && back.kind() == k && e5 == ErrorV5::Common(e.clone()) && (e.is_eof() == (k == io::ErrorKind::UnexpectedEof)) && e5.is_eof() == e.is_eof();
                (ok, format!("Error::from gives {:?}, back to io gives {:?}", e, back.kind()))
            });
            match r {
                Ok((true, _)) => {}
                Ok((false, d)) => rep.fail("io-conversion", format!("io::ErrorKind::{:?} with message {:?}", k, mk().to_string()), d),
                Err(_) => rep.fail("io-conversion", format!("io::ErrorKind::{:?} with message {:?}", k, mk().to_string()), "the conversion PANICKED".into()),
            }
        }
    }
    let protos: Vec<Error> = vec![
        Error::InvalidRemainingLength, Error::EmptySubscription, Error::ZeroPid, Error::InvalidQos(3), Error::InvalidConnectFlags(1), Error::InvalidConnackFlags(2),
        Error::InvalidConnectReturnCode(6), Error::InvalidProtocol("x".into(), 1), Error::UnexpectedProtocol(Protocol::V500), Error::InvalidHeader, Error::InvalidVarByteInt,
        Error::InvalidTopicName("+".into()), Error::InvalidTopicFilter("".into()), Error::InvalidString,
    ];
    for e in protos {
        rep.cases += 1;
        let io: io::Error = e.clone().into();
        if io.kind() != io::ErrorKind::InvalidData || e.is_eof() {
            rep.fail("io-conversion", format!("{:?}", e), format!("maps to io kind {:?}", io.kind()));
        }
    }
}

// ---------------------------------------------------------------- C13

pub fn c13(tier: &str, seed: u64, ops: Option<&[String]>) -> Report {
    use crate::sio::{ScriptReader, Term};
    use mqtt_proto::{v3, v5, Error, Protocol};
    let mut rep = Report::new("C13", "every generated valid v5 CONNECT into the v3 decoders and every v3.1/v3.1.1 CONNECT into the v5 decoders (blocking, async with reader position, poll with random chunking): UnexpectedProtocol naming the version found, no byte beyond name+level consumed by the async decoder, continuation with decode_with_protocol on the rest equals native decode; Protocol::new over 6 names x all 256 levels");
    // "naming the version found": the rendered errors (and the versions' own labels) must tell the three versions
    // apart — whatever the labels are
    {
        rep.cases += 1;
        let all = [Protocol::V310, Protocol::V311, Protocol::V500];
        for (i, a) in all.iter().enumerate() {
            for b in all.iter().skip(i + 1) {
                let (ea, eb) = (Error::UnexpectedProtocol(*a).to_string(), Error::UnexpectedProtocol(*b).to_string());
                let (va, vb) = (v5::ErrorV5::Common(Error::UnexpectedProtocol(*a)).to_string(), v5::ErrorV5::Common(Error::UnexpectedProtocol(*b)).to_string());
                if ea == eb || va == vb || a.to_string() == b.to_string() || format!("{:?}", a) == format!("{:?}", b) {
                    rep.fail("error-text-does-not-name-version", format!("proto labels {:?} {:?}", a, b), format!("UnexpectedProtocol({:?}) renders as {:?} and UnexpectedProtocol({:?}) as {:?}: the message does not name the version found", a, ea, b, eb));
                }
            }
        }
    }
    let i3 = po::inputs::<V3>(tier, seed, ops, 0, 0, false);
    let i5 = po::inputs::<V5>(tier, seed.wrapping_add(1), ops, 0, 0, false);
    let mut rng = Rng::new(seed ^ 0x1313);
    let n = if ops.is_some() { 0 } else if tier == "thorough" { 20000 } else { 2000 };
    let mut v3c: Vec<v3::Packet> = i3.packets.into_iter().filter(|p| matches!(p, v3::Packet::Connect(_))).collect();
    let mut v5c: Vec<v5::Packet> = i5.packets.into_iter().filter(|p| matches!(p, v5::Packet::Connect(_))).collect();
    for i in 0..n {
        v3c.push(crate::pgen::gen_v3(&mut rng, 0, crate::pgen::Sizes { big: i % 90 == 0 }));
        v5c.push(crate::pgen::gen_v5(&mut rng, 0, crate::pgen::Sizes { big: i % 90 == 0 }, [0u8, 1, 2, 3, 4][i % 5], i));
    }
    if ops.is_none() {
        // LARGE CONNECTs: the verdict on a foreign CONNECT must not depend on how big it claims to be — v5 CONNECTs
        // beyond the largest possible v3 CONNECT (327,697 bytes) and up to a few MiB, and the largest v3 CONNECTs
        use std::sync::Arc;
        let big_v5 = |total: usize| -> v5::Packet {
            let mut ups = Vec::new();
            let mut left = total;
            while left > 0 {
                let take = left.min(60_000);
                ups.push(v5::UserProperty { name: Arc::new("k".into()), value: Arc::new("v".repeat(take)) });
                left -= take;
            }
            v5::Packet::Connect(v5::Connect {
                protocol: Protocol::V500,
                clean_start: true,
                keep_alive: 10,
                properties: v5::ConnectProperties { user_properties: ups, ..Default::default() },
                client_id: Arc::new("c".into()),
                last_will: None,
                username: None,
                password: None,
            })
        };
        let mut totals = vec![70_000usize, 200_000, 327_000, 327_600, 327_680, 327_700, 400_000, 1 << 20, (5 << 20) + 3];
        if tier == "thorough" {
            totals.extend([100_000, 131_072, 262_144, 327_690, 524_288, 2 << 20, 16 << 20]);
        }
        for t in totals {
            v5c.push(big_v5(t));
        }
        for protocol in [Protocol::V310, Protocol::V311] {
            for l in [65_535usize, 65_534, 40_000] {
                v3c.push(v3::Packet::Connect(v3::Connect {
                    protocol,
                    clean_session: false,
                    keep_alive: 1,
                    client_id: Arc::new("c".repeat(l)),
                    last_will: Some(v3::LastWill { qos: mqtt_proto::QoS::Level1, retain: true, topic_name: mqtt_proto::TopicName::try_from("t".repeat(l)).unwrap(), message: bytes::Bytes::from(vec![7u8; l]) }),
                    username: Some(Arc::new("u".repeat(l))),
                    password: Some(bytes::Bytes::from(vec![b'p'; l])),
                }));
            }
        }
    }
    for p in &v5c {
        rep.cases += 1;
        let input = format!("enc v5 {}", crate::v5text::show(p));
        let e = match p.encode() {
            Ok(e) => e.as_ref().to_vec(),
            Err(_) => continue,
        };
        let hl = mqtt_proto::header_len(e.len());
        let expect = Error::UnexpectedProtocol(Protocol::V500);
        if v3::Packet::decode(&e) != Err(expect.clone()) {
            rep.fail("cross-blocking", format!("dec v3 {}", hex(&e)), format!("v3 blocking decoder on a v5 CONNECT gave {:?}", v3::Packet::decode(&e).map(|o| o.map(|q| crate::v3text::show(&q)))));
        }
        let mut rd = ScriptReader::new(e.clone(), vec![], Term::Eof);
        let r = {
            let mut fut = Box::pin(v3::Packet::decode_async(&mut rd));
            crate::sio::drive(fut.as_mut()).0
        };
        if r != Err(expect.clone()) || rd.pos > hl + 7 {
            rep.fail("cross-async", format!("deca v3 {} eof", hex(&e)), format!("async gave {:?} having consumed {} bytes (header {} + protocol 7)", r.map(|q| crate::v3text::show(&q)), rd.pos, hl));
        }
        let o = V3::poll(&e, crate::pktops::parse_sched(&crate::pgen::gen_sched(&mut rng, e.len())).unwrap(), Term::Eof);
        if o.res.as_ref().err().map(|x| x.text.as_str()) != Some("UnexpectedProtocol(V500)") {
            rep.fail("cross-poll", format!("poll v3 {} - eof", hex(&e)), format!("poll gave {:?}", o.res.map(|x| x.0)));
        }
        // … and as soon as name and level have arrived: every prefix that contains them
        for cut in [hl + 7, hl + 8, (hl + 7 + e.len()) / 2, e.len().saturating_sub(1)] {
            if cut >= hl + 7 && cut < e.len() {
                rep.cases += 1;
                let r = v3::Packet::decode(&e[..cut]);
                if r != Err(expect.clone()) {
                    rep.fail("cross-prefix", format!("dec v3 {}", hex(&e[..cut])), format!("v3 blocking decoder on the first {} of {} bytes of a v5 CONNECT (protocol name and level are in) gave {:?}", cut, e.len(), r.map(|o| o.map(|q| crate::v3text::show(&q)))));
                }
            }
        }
        // the known-protocol entry points handed a FOREIGN protocol must refuse before reading anything
        {
            let header = v5::Header::new_with(e[0], (e.len() - hl) as u32).unwrap();
            for foreign in [Protocol::V311, Protocol::V310] {
                rep.cases += 1;
                let mut rest: &[u8] = &e[hl + 7..];
                let before = rest.len();
                let r = futures_lite::future::block_on(v5::Connect::decode_with_protocol(&mut rest, header, foreign));
                if !matches!(&r, Err(v5::ErrorV5::Common(Error::UnexpectedProtocol(p))) if *p == foreign) || rest.len() != before {
                    rep.fail("foreign-protocol-entry", format!("cwp v5 {} {} {}", if foreign == Protocol::V311 { 4 } else { 3 }, e.len() - hl, hex_or_dash(&e[hl + 7..])), format!("v5::Connect::decode_with_protocol given {:?} returned {:?} after consuming {} bytes", foreign, r.map(|c| crate::v5text::show(&v5::Packet::Connect(c))), before - rest.len()));
                }
            }
            rep.cases += 1;
            let mut rest: &[u8] = &e[hl + 7..];
            let before = rest.len();
            let r = futures_lite::future::block_on(v3::Connect::decode_with_protocol(&mut rest, Protocol::V500));
            if r != Err(Error::UnexpectedProtocol(Protocol::V500)) || rest.len() != before {
                rep.fail("foreign-protocol-entry", format!("cwp v3 5 {}", hex_or_dash(&e[hl + 7..])), format!("v3::Connect::decode_with_protocol given V500 returned {:?} after consuming {} bytes", r.map(|c| crate::v3text::show(&v3::Packet::Connect(c))), before - rest.len()));
            }
        }
        // continue natively on the rest
        let mut rest: &[u8] = &e[hl + 7..];
        let header = v5::Header::new_with(e[0], (e.len() - hl) as u32).unwrap();
        match futures_lite::future::block_on(v5::Connect::decode_with_protocol(&mut rest, header, Protocol::V500)) {
            Ok(c) if v5::Packet::Connect(c.clone()) == *p && rest.is_empty() => {}
            other => rep.fail("cross-continue", input.clone(), format!("decode_with_protocol on the remainder gave {:?}", other.map(|c| crate::v5text::show(&v5::Packet::Connect(c))))),
        }
    }
    for p in &v3c {
        rep.cases += 1;
        let input = format!("enc v3 {}", crate::v3text::show(p));
        let e = match p.encode() {
            Ok(e) => e.as_ref().to_vec(),
            Err(_) => continue,
        };
        let proto = match p {
            v3::Packet::Connect(c) => c.protocol,
            _ => continue,
        };
        let hl = mqtt_proto::header_len(e.len());
        let plen = 2 + (e[hl + 1] as usize) + 1;
        let expect = v5::ErrorV5::Common(Error::UnexpectedProtocol(proto));
        if v5::Packet::decode(&e) != Err(expect.clone()) {
            rep.fail("cross-blocking", format!("dec v5 {}", hex(&e)), format!("v5 blocking decoder on a v3 CONNECT gave {:?}", v5::Packet::decode(&e).map(|o| o.map(|q| crate::v5text::show(&q)))));
        }
        let mut rd = ScriptReader::new(e.clone(), vec![], Term::Eof);
        let r = {
            let mut fut = Box::pin(v5::Packet::decode_async(&mut rd));
            crate::sio::drive(fut.as_mut()).0
        };
        if r != Err(expect.clone()) || rd.pos > hl + plen {
            rep.fail("cross-async", format!("deca v5 {} eof", hex(&e)), format!("async gave {:?} having consumed {} bytes (header {} + protocol {})", r.map(|q| crate::v5text::show(&q)), rd.pos, hl, plen));
        }
        let o = V5::poll(&e, crate::pktops::parse_sched(&crate::pgen::gen_sched(&mut rng, e.len())).unwrap(), Term::Eof);
        let want = format!("UnexpectedProtocol({})", protocol(proto));
        if o.res.as_ref().err().map(|x| x.text.clone()) != Some(want) {
            rep.fail("cross-poll", format!("poll v5 {} - eof", hex(&e)), format!("poll gave {:?}", o.res.map(|x| x.0)));
        }
        for cut in [hl + plen, hl + plen + 1, (hl + plen + e.len()) / 2, e.len().saturating_sub(1)] {
            if cut >= hl + plen && cut < e.len() {
                rep.cases += 1;
                let r = v5::Packet::decode(&e[..cut]);
                if r != Err(expect.clone()) {
                    rep.fail("cross-prefix", format!("dec v5 {}", hex(&e[..cut])), format!("v5 blocking decoder on the first {} of {} bytes of a v3 CONNECT (protocol name and level are in) gave {:?}", cut, e.len(), r.map(|o| o.map(|q| crate::v5text::show(&q)))));
                }
            }
        }
        let mut rest: &[u8] = &e[hl + plen..];
        match futures_lite::future::block_on(v3::Connect::decode_with_protocol(&mut rest, proto)) {
            Ok(c) if v3::Packet::Connect(c.clone()) == *p && rest.is_empty() => {}
            other => rep.fail("cross-continue", input.clone(), format!("decode_with_protocol on the remainder gave {:?}", other.map(|c| crate::v3text::show(&v3::Packet::Connect(c))))),
        }
    }
    if ops.is_none() {
        for name in [&b"MQTT"[..], b"MQIsdp", b"MQTt", b"", b"MQTTT", b"MQ\xff", b"mqtt"] {
            for level in 0..=255u8 {
                rep.cases += 1;
                let got = Protocol::new(name, level);
                let want: Result<Protocol, Error> = match (name, level) {
                    (b"MQIsdp", 3) => Ok(Protocol::V310),
                    (b"MQTT", 4) => Ok(Protocol::V311),
                    (b"MQTT", 5) => Ok(Protocol::V500),
                    _ => match std::str::from_utf8(name) {
                        Ok(s) => Err(Error::InvalidProtocol(s.to_string(), level)),
                        Err(_) => Err(Error::InvalidString),
                    },
                };
                if got != want {
                    rep.fail("protocol-pair", format!("proto {}", hex(&[&(name.len() as u16).to_be_bytes()[..], name, &[level]].concat())), format!("Protocol::new gave {:?}, expected {:?}", got, want));
                }
            }
        }
    }
    // the wire path (`Protocol::decode_async`) and whole CONNECT frames on both families, for near-miss
    // names; in --ops mode: the `proto` and CONNECT `dec`/`poll` lines handed over by the check
    fn pair(name: &[u8], level: u8) -> Option<Protocol> {
        match (name, level) {
            (b"MQIsdp", 3) => Some(Protocol::V310),
            (b"MQTT", 4) => Some(Protocol::V311),
            (b"MQTT", 5) => Some(Protocol::V500),
            _ => None,
        }
    }
    let mut wire: Vec<Vec<u8>> = Vec::new();
    let mut frames: Vec<(bool, Vec<u8>)> = Vec::new();
    match ops {
        None => {
            for name in crate::gen::proto_names() {
                for level in [0u8, 3, 4, 5, 6, 0x84] {
                    let mut f = (name.len() as u16).to_be_bytes().to_vec();
                    f.extend_from_slice(&name);
                    f.push(level);
                    wire.push(f.clone());
                    if matches!(level, 3 | 4 | 5) && !name.is_empty() && name.len() < 100 {
                        let mut body = f;
                        body.extend_from_slice(&[2, 0, 10]);
                        if level == 5 {
                            body.push(0);
                        }
                        body.extend_from_slice(&[0, 1, b'c']);
                        let mut fr = vec![0x10, body.len() as u8];
                        fr.extend_from_slice(&body);
                        frames.push((true, fr.clone()));
                        frames.push((false, fr));
                    }
                }
            }
        }
        Some(lines) => {
            for l in lines {
                let t: Vec<&str> = l.split_whitespace().collect();
                if t.len() >= 2 && t[0] == "proto" {
                    if let Some(b) = crate::fmt::unhex(t[1]) {
                        wire.push(b);
                    }
                } else if t.len() >= 3 && (t[0] == "dec" || t[0] == "poll") {
                    if let Some(b) = crate::fmt::unhex(t[2]) {
                        if b.len() > 4 && b[0] == 0x10 && b[1] < 0x80 {
                            frames.push((t[1] == "v3", b));
                        }
                    }
                }
            }
        }
    }
    for w in wire {
        if w.len() < 3 || w.len() != 3 + (((w[0] as usize) << 8) | w[1] as usize) {
            continue;
        }
        rep.cases += 1;
        let (name, level) = (&w[2..w.len() - 1], w[w.len() - 1]);
        let mut rd: &[u8] = &w;
        let got = futures_lite::future::block_on(Protocol::decode_async(&mut rd));
        let good = match (pair(name, level), &got) {
            (Some(p), Ok(q)) => p == *q && rd.is_empty(),
            // an invalid pair is reported as InvalidProtocol carrying name and level; a name that is not UTF-8 as InvalidString
            (None, Err(e)) => match std::str::from_utf8(name) {
                Ok(t) => *e == Error::InvalidProtocol(t.to_string(), level),
                Err(_) => *e == Error::InvalidString,
            },
            _ => false,
        };
        if !good {
            rep.fail("protocol-wire", format!("proto {}", hex(&w)), format!("name {:?} level {}: Protocol::decode_async gave {:?}; the only valid pairs are (MQIsdp,3), (MQTT,4), (MQTT,5)", String::from_utf8_lossy(name), level, got));
        }
    }
    for (is_v3, fr) in frames {
        let n = ((fr[2] as usize) << 8) | fr[3] as usize;
        if fr.len() < 4 + n + 1 {
            continue;
        }
        rep.cases += 1;
        let (name, level) = (&fr[4..4 + n], fr[4 + n]);
        let native = match pair(name, level) {
            Some(Protocol::V500) => !is_v3,
            Some(_) => is_v3,
            None => false,
        };
        let (blocking_ok, poll_ok, text) = if is_v3 {
            let r = v3::Packet::decode(&fr);
            (matches!(r, Ok(Some(_))), V3::poll(&fr, vec![], Term::Eof).res.is_ok(), format!("{:?}", r.map(|o| o.map(|q| crate::v3text::show(&q)))))
        } else {
            let r = v5::Packet::decode(&fr);
            (matches!(r, Ok(Some(_))), V5::poll(&fr, vec![], Term::Eof).res.is_ok(), format!("{:?}", r.map(|o| o.map(|q| crate::v5text::show(&q)))))
        };
        if !native && (blocking_ok || poll_ok) {
            rep.fail(
                "protocol-pair-accepted",
                format!("dec {} {}", if is_v3 { "v3" } else { "v5" }, hex(&fr)),
                format!("CONNECT with protocol name {:?} level {} is not a {} CONNECT, but the decoder returned {}", String::from_utf8_lossy(name), level, if is_v3 { "v3" } else { "v5" }, text),
            );
        }
    }
    rep.distinct = rep.cases;
    rep.sample("dec v3 <encoding of a v5 CONNECT> -> err UnexpectedProtocol(V500)".into());
    rep
}

// ---------------------------------------------------------------- C20

pub fn c20(tier: &str, seed: u64, ops: Option<&[String]>) -> Report {
    let mut rep = Report::new("C20", "malformation catalogue x generated valid packets of both families x every position where each malformation applies (each field located in the encoding by re-encoding with that field changed and diffing): illegal header flags, PUBLISH QoS 3, reserved types, 5-byte remaining length, zero pid, return/reason code out of table, CONNACK flags, reserved connect flag, will QoS without will / QoS 3, wrong protocol name/level, cross-family level, non-UTF-8 in every text/topic/filter field, wildcard in topic names, invalid filters, SUBSCRIBE QoS 3 / option reserved bits / retain handling 3, empty subscription list, v5 unknown / disallowed / duplicated property, boolean property > 1, inner length past the frame, remaining length too long; expected error variants written from the doc-comments of Error/ErrorV5");
    crate::catalogue::run::<V3>(&mut rep, tier, seed, ops);
    crate::catalogue::run::<V5>(&mut rep, tier, seed.wrapping_add(7), ops);
    if ops.is_none() {
        // the classification of a frame must not depend on what was decoded before it
        po::history_invariance::<V3>(&mut rep, &po::hist_frames::<V3>(tier, seed));
        po::history_invariance::<V5>(&mut rep, &po::hist_frames::<V5>(tier, seed));
    }
    rep.distinct = rep.cases;
    rep.sample("zero-pid: 40020000 -> ZeroPid on blocking, async, poll".into());
    rep.sample("non-utf8-string in CONNECT client id -> InvalidString".into());
    rep
}

/// C11: lenient framing probes (the lenient front-ends never compare a CONNECT body with the
/// fixed header's remaining length — `// FIXME: check remaining length` in v5/connect.rs).
fn c11_probes(rep: &mut Report) {
    use mqtt_proto::{v3, v5};
    // fixed header claims remaining length 0 (one length byte) in front of a 132-byte CONNECT body
    for fam in ["v3", "v5"] {
        rep.cases += 1;
        let mut body: Vec<u8> = Vec::new();
        body.extend_from_slice(&[0, 4, b'M', b'Q', b'T', b'T', if fam == "v3" { 4 } else { 5 }, 0x02, 0, 10]);
        if fam == "v5" {
            body.push(0);
        }
        body.extend_from_slice(&[0, 120]);
        body.extend(std::iter::repeat(b'a').take(120));
        let mut frame = vec![0x10, 0x00];
        frame.extend_from_slice(&body);
        let (accepted, consumed, relen) = if fam == "v3" {
            let mut rd: &[u8] = &frame;
            match futures_lite::future::block_on(v3::Packet::decode_async(&mut rd)) {
                Ok(p) => (true, frame.len() - rd.len(), p.encode().map(|v| v.as_ref().len()).ok()),
                Err(_) => (false, 0, None),
            }
        } else {
            let mut rd: &[u8] = &frame;
            match futures_lite::future::block_on(v5::Packet::decode_async(&mut rd)) {
                Ok(p) => (true, frame.len() - rd.len(), p.encode().map(|v| v.as_ref().len()).ok()),
                Err(_) => (false, 0, None),
            }
        };
        if accepted {
            match relen {
                Some(l) if l <= consumed => {}
                other => rep.fail("lenient-understated-remaining-length", format!("dec {} {}", fam, hex(&frame)), format!("lenient decoder accepts a CONNECT whose fixed header understates the remaining length with a shorter length field: consumed {} bytes, re-encoding is {:?} bytes", consumed, other)),
            }
        }
    }
}

// ---------------------------------------------------------------- C04 (implementation vs the standard, probes)

pub fn c04(tier: &str, seed: u64, ops: Option<&[String]>) -> Report {
    use crate::sio::Term;
    let mut rep = Report::new("C04", "the implementation's strict decoder against the independent specification decoder is the `spec` correspondence stream (valid encodings, trailing bytes, mutations, all <=2-byte strings, short bodies, hand-picked corpus); this oracle adds frames the generators cannot reach: well-formed frames that the MQTT standard allows and the codec cannot represent (known findings), and grammar-generated frames with 1..3 injected violations which must all be rejected by the strict decoder");
    let _ = (tier, ops);
    // K1: v5 PUBLISH with two Subscription Identifiers (MQTT 5.0 §3.3.2.3.8 allows several)
    rep.cases += 1;
    let frame = crate::pkt::frame(0x30, &[0, 1, b'a', 4, 0x0b, 1, 0x0b, 2, b'h']);
    match V5::poll(&frame, vec![], Term::Eof).res {
        Ok(_) => rep.count("multi-subid-accepted"),
        Err(e) => rep.fail("publish-multiple-subscription-identifiers", format!("poll v5 {} - eof", hex(&frame)), format!("a well-formed v5 PUBLISH carrying two Subscription Identifiers is refused with {}", e.text)),
    }
    // injected violations on catalogue frames: the strict decoder must reject every one
    let mut rng = Rng::new(seed ^ 0x404);
    let n = if tier == "thorough" { 8000 } else { 1000 };
    for i in 0..n {
        let p5 = V5::gen(&mut rng, i, crate::pgen::Sizes { big: false });
        for m in crate::catalogue::malformations::<V5>(&p5, &mut rng) {
            rep.cases += 1;
            if V5::poll(&m.frame, vec![], Term::Eof).res.is_ok() {
                rep.fail("malformed-accepted", format!("poll v5 {} - eof", hex(&m.frame)), format!("strict decoder accepts a frame with an injected violation ({})", m.kind));
            }
        }
        let p3 = V3::gen(&mut rng, i, crate::pgen::Sizes { big: false });
        for m in crate::catalogue::malformations::<V3>(&p3, &mut rng) {
            rep.cases += 1;
            if V3::poll(&m.frame, vec![], Term::Eof).res.is_ok() {
                rep.fail("malformed-accepted", format!("poll v3 {} - eof", hex(&m.frame)), format!("strict decoder accepts a frame with an injected violation ({})", m.kind));
            }
        }
    }
    rep.distinct = rep.cases;
    rep.sample("poll v5 3009000161040b010b0268 (two Subscription Identifiers) -> DuplicatedProperty(11): known finding K1".into());
    rep
}

/// K2 (thorough tier only: needs a 270 MB input): a v5 CONNECT whose property section makes the
/// body exceed 268,435,455 bytes is accepted by the lenient decoder and cannot be re-encoded.
fn c11_probe_oversize(rep: &mut Report) {
    use mqtt_proto::v5;
    rep.cases += 1;
    let big = vec![b'a'; 65535];
    let n = 2050usize; // 2050 x (1 + 2 + 65535 + 2 + 65535) = 268,713,750 > 268,435,455 ... too large for a property length
    let _ = n;
    // property length is itself limited to 268,435,455: fill it up, the other CONNECT fields push the body over the limit
    let per = 1 + 2 + 65535 + 2 + 65535;
    let count = 268_435_455 / per; // 2047 full pairs
    let mut props: Vec<u8> = Vec::with_capacity(count * per + 70000);
    for _ in 0..count {
        props.push(0x26);
        props.extend_from_slice(&[0xff, 0xff]);
        props.extend_from_slice(&big);
        props.extend_from_slice(&[0xff, 0xff]);
        props.extend_from_slice(&big);
    }
    // one more user property sized to reach exactly the maximum property length
    let left = 268_435_455 - props.len();
    if left >= 5 {
        let l = left - 5;
        let a = l.min(65535);
        let b = l - a;
        props.push(0x26);
        props.extend_from_slice(&(a as u16).to_be_bytes());
        props.extend(std::iter::repeat(b'a').take(a));
        props.extend_from_slice(&(b as u16).to_be_bytes());
        props.extend(std::iter::repeat(b'a').take(b));
    }
    let mut frame: Vec<u8> = vec![0x10, 0x00, 0, 4, b'M', b'Q', b'T', b'T', 5, 0x02, 0, 10];
    frame.extend_from_slice(&[0xff, 0xff, 0xff, 0x7f]);
    let plen = props.len();
    frame.extend_from_slice(&props);
    drop(props);
    frame.extend_from_slice(&[0, 3, b'c', b'i', b'd']);
    let mut rd: &[u8] = &frame;
    match futures_lite::future::block_on(v5::Packet::decode_async(&mut rd)) {
        Ok(p) => {
            let consumed = frame.len() - rd.len();
            match p.encode() {
                Ok(v) if v.as_ref().len() <= consumed => {}
                other => rep.fail("lenient-oversize-body", format!("v5 CONNECT behind fixed header 10 00 with a {}-byte property section ({} bytes consumed)", plen, consumed), format!("accepted by the lenient decoder but re-encoding gives {:?}", other.map(|v| v.as_ref().len()))),
            }
        }
        Err(e) => rep.notes.push(format!("oversize probe: decoder refused ({:?})", e)),
    }
}

/// C11 at the top of the size range: a frame whose remaining length is the maximum 268,435,455
/// (v3 PUBLISH, 256 MiB of zero payload) is accepted by the blocking and poll front-ends and must
/// re-encode to exactly the same number of bytes.
fn c11_probe_max_frame(rep: &mut Report) {
    use crate::sio::Term;
    for rl in [268_435_455usize, 268_435_451] {
        rep.cases += 1;
        let mut frame: Vec<u8> = Vec::with_capacity(rl + 5);
        frame.push(0x30);
        let mut n = rl;
        loop {
            let mut b = (n % 128) as u8;
            n /= 128;
            if n > 0 {
                b |= 0x80;
            }
            frame.push(b);
            if n == 0 {
                break;
            }
        }
        frame.extend_from_slice(&[0, 1, b't']);
        frame.resize(5 + rl, 0);
        let input = format!("v3 PUBLISH frame with remaining length {}", rl);
        let o = V3::poll(&frame, vec![], Term::Eof);
        match o.res {
            Ok((total, _, p)) => {
                drop(frame);
                match V3::encode(&p) {
                    Ok(e) if e.len() == total => {}
                    Ok(e) => rep.fail("reencode-longer", input, format!("re-encoding is {} bytes, decoder consumed {}", e.len(), total)),
                    Err(e) => rep.fail("reencode-error", input, format!("a packet accepted by the strict decoder cannot be re-encoded: {}", e.text)),
                }
            }
            Err(e) => rep.fail("max-frame-rejected", input, format!("strict decoder refused a maximum-size frame: {}", e.text)),
        }
    }
}
