//! Canonical text forms shared with the Lean driver.

use mqtt_proto::{v5::ErrorV5, Error, Protocol};
use std::io;

pub fn hex(bs: &[u8]) -> String {
    if bs.len() > (16 << 20) {
        // no op line carries 16 MiB, so no correct decoder can return this much: print a digest instead
        // of half a gigabyte of hex (the model will disagree with this line, as it should)
        let mut h: u64 = 0xcbf29ce484222325;
        for b in bs {
            h = (h ^ (*b as u64)).wrapping_mul(0x100000001b3);
        }
        return format!("huge[len={},fnv={}]", bs.len(), h);
    }
    const D: &[u8; 16] = b"0123456789abcdef";
    let mut v = Vec::with_capacity(bs.len() * 2);
    for b in bs {
        v.push(D[(b >> 4) as usize]);
        v.push(D[(b & 15) as usize]);
    }
    String::from_utf8(v).unwrap()
}

pub fn hex_or_dash(bs: &[u8]) -> String {
    if bs.is_empty() {
        "-".into()
    } else {
        hex(bs)
    }
}

pub fn unhex(s: &str) -> Option<Vec<u8>> {
    if s == "-" {
        return Some(Vec::new());
    }
    if s.len() % 2 != 0 {
        return None;
    }
    let b = s.as_bytes();
    let mut out = Vec::with_capacity(b.len() / 2);
    for i in (0..b.len()).step_by(2) {
        let h = (b[i] as char).to_digit(16)?;
        let l = (b[i + 1] as char).to_digit(16)?;
        out.push((h * 16 + l) as u8);
    }
    Some(out)
}

pub fn io_kind(k: io::ErrorKind) -> &'static str {
    use io::ErrorKind::*;
    match k {
        UnexpectedEof => "UnexpectedEof",
        ConnectionReset => "ConnectionReset",
        TimedOut => "TimedOut",
        BrokenPipe => "BrokenPipe",
        WouldBlock => "WouldBlock",
        Other => "Other",
        WriteZero => "WriteZero",
        InvalidData => "InvalidData",
        ConnectionAborted => "ConnectionAborted",
        NotConnected => "NotConnected",
        Interrupted => "Interrupted",
        PermissionDenied => "PermissionDenied",
        ConnectionRefused => "ConnectionRefused",
        InvalidInput => "InvalidInput",
        NotFound => "NotFound",
        OutOfMemory => "OutOfMemory",
        _ => "Unmodelled",
    }
}

pub fn io_kind_of(name: &str) -> Option<io::ErrorKind> {
    use io::ErrorKind::*;
    Some(match name {
        "UnexpectedEof" => UnexpectedEof,
        "ConnectionReset" => ConnectionReset,
        "TimedOut" => TimedOut,
        "BrokenPipe" => BrokenPipe,
        "WouldBlock" => WouldBlock,
        "Other" => Other,
        "WriteZero" => WriteZero,
        "InvalidData" => InvalidData,
        "ConnectionAborted" => ConnectionAborted,
        "NotConnected" => NotConnected,
        "Interrupted" => Interrupted,
        "PermissionDenied" => PermissionDenied,
        "ConnectionRefused" => ConnectionRefused,
        "InvalidInput" => InvalidInput,
        "NotFound" => NotFound,
        "OutOfMemory" => OutOfMemory,
        _ => return None,
    })
}

pub fn protocol(p: Protocol) -> &'static str {
    match p {
        Protocol::V310 => "V310",
        Protocol::V311 => "V311",
        Protocol::V500 => "V500",
    }
}

pub fn error(e: &Error) -> String {
    match e {
        Error::InvalidRemainingLength => "InvalidRemainingLength".into(),
        Error::EmptySubscription => "EmptySubscription".into(),
        Error::ZeroPid => "ZeroPid".into(),
        Error::InvalidQos(b) => format!("InvalidQos({})", b),
        Error::InvalidConnectFlags(b) => format!("InvalidConnectFlags({})", b),
        Error::InvalidConnackFlags(b) => format!("InvalidConnackFlags({})", b),
        Error::InvalidConnectReturnCode(b) => format!("InvalidConnectReturnCode({})", b),
        Error::InvalidProtocol(n, l) => format!("InvalidProtocol({},{})", hex_or_dash(n.as_bytes()), l),
        Error::UnexpectedProtocol(p) => format!("UnexpectedProtocol({})", protocol(*p)),
        Error::InvalidHeader => "InvalidHeader".into(),
        Error::InvalidVarByteInt => "InvalidVarByteInt".into(),
        Error::InvalidTopicName(s) => format!("InvalidTopicName({})", hex_or_dash(s.as_bytes())),
        Error::InvalidTopicFilter(s) => format!("InvalidTopicFilter({})", hex_or_dash(s.as_bytes())),
        Error::InvalidString => "InvalidString".into(),
        Error::IoError(k, _) => format!("IoError({})", io_kind(*k)),
    }
}

pub fn error_v5(e: &ErrorV5) -> String {
    use crate::tables::v5_type_nibble as tn;
    match e {
        ErrorV5::Common(e) => error(e),
        ErrorV5::InvalidReasonCode(t, c) => format!("InvalidReasonCode({},{})", tn(*t), c),
        ErrorV5::InvalidSubscriptionOption(b) => format!("InvalidSubscriptionOption({})", b),
        ErrorV5::InvalidPayloadFormat => "InvalidPayloadFormat".into(),
        ErrorV5::InvalidResponseTopic => "InvalidResponseTopic".into(),
        ErrorV5::InvalidPropertyId(b) => format!("InvalidPropertyId({})", b),
        ErrorV5::InvalidPropertyLength(n) => format!("InvalidPropertyLength({})", n),
        ErrorV5::InvalidByteProperty(p, v) => format!("InvalidByteProperty({},{})", *p as u8, v),
        ErrorV5::DuplicatedProperty(p) => format!("DuplicatedProperty({})", *p as u8),
        ErrorV5::InvalidProperty(t, p) => format!("InvalidProperty({},{})", tn(*t), *p as u8),
        ErrorV5::InvalidWillProperty(p) => format!("InvalidWillProperty({})", *p as u8),
    }
}
