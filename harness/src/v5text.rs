//! Flat text form of v5 packets (same as `Mqtt/V5/Text.lean`) and its parser.

use crate::fmt::*;
use crate::v3text::{b01, by_disc, level, mk_qos, mk_text, mk_topic_filter, mk_topic_name, of_opt, opt_hex, parse_bool, parse_opt_hex, parse_opt_text, parse_pid, parse_protocol, parse_qos_pid, show_qos_pid, tri, Build};
use bytes::Bytes;
use mqtt_proto::v5::*;
use mqtt_proto::{QoS, TopicName};
use std::collections::BTreeMap;
use std::convert::TryFrom;
use std::sync::Arc;

#[derive(Clone, Debug, PartialEq)]
pub enum Val {
    Byte(u8),
    U16(u16),
    U32(u32),
    Str(String),
    Bin(Vec<u8>),
    VarInt(u32),
}

#[derive(Clone, Debug, Default, PartialEq)]
pub struct PMap {
    pub known: BTreeMap<u8, Val>,
    pub user: Vec<(String, String)>,
}

fn ob(m: &mut PMap, id: u8, v: Option<bool>) {
    if let Some(b) = v {
        m.known.insert(id, Val::Byte(b as u8));
    }
}
fn o16(m: &mut PMap, id: u8, v: Option<u16>) {
    if let Some(b) = v {
        m.known.insert(id, Val::U16(b));
    }
}
fn o32(m: &mut PMap, id: u8, v: Option<u32>) {
    if let Some(b) = v {
        m.known.insert(id, Val::U32(b));
    }
}
fn ostr(m: &mut PMap, id: u8, v: &Option<Arc<String>>) {
    if let Some(b) = v {
        m.known.insert(id, Val::Str((**b).clone()));
    }
}
fn obin(m: &mut PMap, id: u8, v: &Option<Bytes>) {
    if let Some(b) = v {
        m.known.insert(id, Val::Bin(b.to_vec()));
    }
}
fn otopic(m: &mut PMap, id: u8, v: &Option<TopicName>) {
    if let Some(b) = v {
        m.known.insert(id, Val::Str(b.to_string()));
    }
}
fn users(m: &mut PMap, u: &[UserProperty]) {
    for p in u {
        m.user.push(((*p.name).clone(), (*p.value).clone()));
    }
}

pub fn connect_props(p: &ConnectProperties) -> PMap {
    let mut m = PMap::default();
    o32(&mut m, 0x11, p.session_expiry_interval);
    o16(&mut m, 0x21, p.receive_max);
    o32(&mut m, 0x27, p.max_packet_size);
    o16(&mut m, 0x22, p.topic_alias_max);
    ob(&mut m, 0x19, p.request_response_info);
    ob(&mut m, 0x17, p.request_problem_info);
    ostr(&mut m, 0x15, &p.auth_method);
    obin(&mut m, 0x16, &p.auth_data);
    users(&mut m, &p.user_properties);
    m
}
pub fn will_props(p: &WillProperties) -> PMap {
    let mut m = PMap::default();
    o32(&mut m, 0x18, p.delay_interval);
    ob(&mut m, 0x01, p.payload_is_utf8);
    o32(&mut m, 0x02, p.message_expiry_interval);
    ostr(&mut m, 0x03, &p.content_type);
    otopic(&mut m, 0x08, &p.response_topic);
    obin(&mut m, 0x09, &p.correlation_data);
    users(&mut m, &p.user_properties);
    m
}
pub fn connack_props(p: &ConnackProperties) -> PMap {
    let mut m = PMap::default();
    o32(&mut m, 0x11, p.session_expiry_interval);
    o16(&mut m, 0x21, p.receive_max);
    if let Some(q) = p.max_qos {
        m.known.insert(0x24, Val::Byte(q as u8));
    }
    ob(&mut m, 0x25, p.retain_available);
    o32(&mut m, 0x27, p.max_packet_size);
    ostr(&mut m, 0x12, &p.assigned_client_id);
    o16(&mut m, 0x22, p.topic_alias_max);
    ostr(&mut m, 0x1f, &p.reason_string);
    ob(&mut m, 0x28, p.wildcard_subscription_available);
    ob(&mut m, 0x29, p.subscription_id_available);
    ob(&mut m, 0x2a, p.shared_subscription_available);
    o16(&mut m, 0x13, p.server_keep_alive);
    ostr(&mut m, 0x1a, &p.response_info);
    ostr(&mut m, 0x1c, &p.server_reference);
    ostr(&mut m, 0x15, &p.auth_method);
    obin(&mut m, 0x16, &p.auth_data);
    users(&mut m, &p.user_properties);
    m
}
pub fn disconnect_props(p: &DisconnectProperties) -> PMap {
    let mut m = PMap::default();
    o32(&mut m, 0x11, p.session_expiry_interval);
    ostr(&mut m, 0x1f, &p.reason_string);
    ostr(&mut m, 0x1c, &p.server_reference);
    users(&mut m, &p.user_properties);
    m
}
pub fn auth_props(p: &AuthProperties) -> PMap {
    let mut m = PMap::default();
    ostr(&mut m, 0x15, &p.auth_method);
    obin(&mut m, 0x16, &p.auth_data);
    ostr(&mut m, 0x1f, &p.reason_string);
    users(&mut m, &p.user_properties);
    m
}
pub fn publish_props(p: &PublishProperties) -> PMap {
    let mut m = PMap::default();
    ob(&mut m, 0x01, p.payload_is_utf8);
    o32(&mut m, 0x02, p.message_expiry_interval);
    o16(&mut m, 0x23, p.topic_alias);
    otopic(&mut m, 0x08, &p.response_topic);
    obin(&mut m, 0x09, &p.correlation_data);
    if let Some(v) = p.subscription_id {
        m.known.insert(0x0b, Val::VarInt(v.value()));
    }
    ostr(&mut m, 0x03, &p.content_type);
    users(&mut m, &p.user_properties);
    m
}
pub fn reason_props(reason_string: &Option<Arc<String>>, u: &[UserProperty]) -> PMap {
    let mut m = PMap::default();
    ostr(&mut m, 0x1f, reason_string);
    users(&mut m, u);
    m
}
pub fn subscribe_props(p: &SubscribeProperties) -> PMap {
    let mut m = PMap::default();
    if let Some(v) = p.subscription_id {
        m.known.insert(0x0b, Val::VarInt(v.value()));
    }
    users(&mut m, &p.user_properties);
    m
}
pub fn unsubscribe_props(p: &UnsubscribeProperties) -> PMap {
    let mut m = PMap::default();
    users(&mut m, &p.user_properties);
    m
}

pub fn show_props(m: &PMap) -> String {
    let known: Vec<String> = m
        .known
        .iter()
        .map(|(id, v)| {
            let vs = match v {
                Val::Byte(b) => b.to_string(),
                Val::U16(b) => b.to_string(),
                Val::U32(b) => b.to_string(),
                Val::Str(s) => hex_or_dash(s.as_bytes()),
                Val::Bin(b) => hex_or_dash(b),
                Val::VarInt(n) => n.to_string(),
            };
            format!("{}={}", id, vs)
        })
        .collect();
    let user: Vec<String> = m.user.iter().map(|(n, v)| format!("{}/{}", hex_or_dash(n.as_bytes()), hex_or_dash(v.as_bytes()))).collect();
    format!("[{}|{}]", known.join(","), user.join(","))
}

fn kind_of(id: u8) -> Option<char> {
    Some(match id {
        0x01 | 0x17 | 0x19 | 0x25 | 0x28 | 0x29 | 0x2a => 'b',
        0x24 => 'q',
        0x13 | 0x21 | 0x22 | 0x23 => 'h',
        0x02 | 0x11 | 0x18 | 0x27 => 'w',
        0x03 | 0x12 | 0x15 | 0x1a | 0x1c | 0x1f => 's',
        0x08 => 't',
        0x09 | 0x16 => 'y',
        0x0b => 'v',
        _ => return None,
    })
}

pub fn parse_props(allowed: &[u8], s: &str) -> Build<PMap> {
    if !(s.starts_with('[') && s.ends_with(']')) {
        return Build::Syntax;
    }
    let inner = &s[1..s.len() - 1];
    let parts: Vec<&str> = inner.split('|').collect();
    if parts.len() != 2 {
        return Build::Syntax;
    }
    let mut m = PMap::default();
    if !parts[0].is_empty() {
        for it in parts[0].split(',') {
            let kv: Vec<&str> = it.split('=').collect();
            if kv.len() != 2 {
                return Build::Syntax;
            }
            let id: u8 = match kv[0].parse() {
                Ok(v) => v,
                Err(_) => return Build::Syntax,
            };
            if !allowed.contains(&id) {
                return Build::Unconstructible("property-not-in-struct");
            }
            let v = match kind_of(id) {
                None => return Build::Syntax,
                Some('b') => match kv[1].parse::<u8>() {
                    Ok(b) if b <= 1 => Val::Byte(b),
                    Ok(_) => return Build::Unconstructible("bool"),
                    Err(_) => return Build::Syntax,
                },
                Some('q') => Val::Byte(tri!(mk_qos(kv[1])) as u8),
                Some('h') => match kv[1].parse::<u16>() {
                    Ok(b) => Val::U16(b),
                    Err(_) => return Build::Syntax,
                },
                Some('w') => match kv[1].parse::<u32>() {
                    Ok(b) => Val::U32(b),
                    Err(_) => return Build::Syntax,
                },
                Some('s') => Val::Str(tri!(mk_text(kv[1]))),
                Some('t') => {
                    let t = tri!(mk_text(kv[1]));
                    let tn = tri!(mk_topic_name(t));
                    Val::Str(tn.to_string())
                }
                Some('y') => Val::Bin(tri!(of_opt(unhex(kv[1])))),
                Some(_) => match kv[1].parse::<u64>() {
                    Ok(n) if n < 268435456 => Val::VarInt(n as u32),
                    Ok(_) => return Build::Unconstructible("varbyteint"),
                    Err(_) => return Build::Syntax,
                },
            };
            m.known.insert(id, v);
        }
    }
    if !parts[1].is_empty() {
        for it in parts[1].split(',') {
            let kv: Vec<&str> = it.split('/').collect();
            if kv.len() != 2 {
                return Build::Syntax;
            }
            let n = tri!(mk_text(kv[0]));
            let v = tri!(mk_text(kv[1]));
            m.user.push((n, v));
        }
    }
    Build::Ok(m)
}

fn g_bool(m: &PMap, id: u8) -> Option<bool> {
    match m.known.get(&id) {
        Some(Val::Byte(b)) => Some(*b == 1),
        _ => None,
    }
}
fn g16(m: &PMap, id: u8) -> Option<u16> {
    match m.known.get(&id) {
        Some(Val::U16(b)) => Some(*b),
        _ => None,
    }
}
fn g32(m: &PMap, id: u8) -> Option<u32> {
    match m.known.get(&id) {
        Some(Val::U32(b)) => Some(*b),
        _ => None,
    }
}
fn gstr(m: &PMap, id: u8) -> Option<Arc<String>> {
    match m.known.get(&id) {
        Some(Val::Str(b)) => Some(Arc::new(b.clone())),
        _ => None,
    }
}
fn gbin(m: &PMap, id: u8) -> Option<Bytes> {
    match m.known.get(&id) {
        Some(Val::Bin(b)) => Some(Bytes::from(b.clone())),
        _ => None,
    }
}
fn gtopic(m: &PMap, id: u8) -> Option<TopicName> {
    match m.known.get(&id) {
        Some(Val::Str(b)) => TopicName::try_from(b.clone()).ok(),
        _ => None,
    }
}
fn gvar(m: &PMap, id: u8) -> Option<VarByteInt> {
    match m.known.get(&id) {
        Some(Val::VarInt(b)) => VarByteInt::try_from(*b).ok(),
        _ => None,
    }
}
fn gusers(m: &PMap) -> Vec<UserProperty> {
    m.user.iter().map(|(n, v)| UserProperty { name: Arc::new(n.clone()), value: Arc::new(v.clone()) }).collect()
}

pub const CONNECT_IDS: [u8; 8] = [0x11, 0x21, 0x27, 0x22, 0x19, 0x17, 0x15, 0x16];
pub const WILL_IDS: [u8; 6] = [0x18, 0x01, 0x02, 0x03, 0x08, 0x09];
pub const CONNACK_IDS: [u8; 16] = [0x11, 0x21, 0x24, 0x25, 0x27, 0x12, 0x22, 0x1f, 0x28, 0x29, 0x2a, 0x13, 0x1a, 0x1c, 0x15, 0x16];
pub const DISCONNECT_IDS: [u8; 3] = [0x11, 0x1f, 0x1c];
pub const AUTH_IDS: [u8; 3] = [0x15, 0x16, 0x1f];
pub const PUBLISH_IDS: [u8; 7] = [0x01, 0x02, 0x23, 0x08, 0x09, 0x0b, 0x03];
pub const ACK_IDS: [u8; 1] = [0x1f];
pub const SUBSCRIBE_IDS: [u8; 1] = [0x0b];
pub const UNSUBSCRIBE_IDS: [u8; 0] = [];

pub fn mk_connect_props(m: &PMap) -> ConnectProperties {
    ConnectProperties {
        session_expiry_interval: g32(m, 0x11),
        receive_max: g16(m, 0x21),
        max_packet_size: g32(m, 0x27),
        topic_alias_max: g16(m, 0x22),
        request_response_info: g_bool(m, 0x19),
        request_problem_info: g_bool(m, 0x17),
        user_properties: gusers(m),
        auth_method: gstr(m, 0x15),
        auth_data: gbin(m, 0x16),
    }
}
pub fn mk_will_props(m: &PMap) -> WillProperties {
    WillProperties {
        delay_interval: g32(m, 0x18),
        payload_is_utf8: g_bool(m, 0x01),
        message_expiry_interval: g32(m, 0x02),
        content_type: gstr(m, 0x03),
        response_topic: gtopic(m, 0x08),
        correlation_data: gbin(m, 0x09),
        user_properties: gusers(m),
    }
}
pub fn mk_connack_props(m: &PMap) -> ConnackProperties {
    ConnackProperties {
        session_expiry_interval: g32(m, 0x11),
        receive_max: g16(m, 0x21),
        max_qos: match m.known.get(&0x24) {
            Some(Val::Byte(b)) => [QoS::Level0, QoS::Level1, QoS::Level2].into_iter().find(|q| *q as u8 == *b),
            _ => None,
        },
        retain_available: g_bool(m, 0x25),
        max_packet_size: g32(m, 0x27),
        assigned_client_id: gstr(m, 0x12),
        topic_alias_max: g16(m, 0x22),
        reason_string: gstr(m, 0x1f),
        user_properties: gusers(m),
        wildcard_subscription_available: g_bool(m, 0x28),
        subscription_id_available: g_bool(m, 0x29),
        shared_subscription_available: g_bool(m, 0x2a),
        server_keep_alive: g16(m, 0x13),
        response_info: gstr(m, 0x1a),
        server_reference: gstr(m, 0x1c),
        auth_method: gstr(m, 0x15),
        auth_data: gbin(m, 0x16),
    }
}
pub fn mk_disconnect_props(m: &PMap) -> DisconnectProperties {
    DisconnectProperties { session_expiry_interval: g32(m, 0x11), reason_string: gstr(m, 0x1f), user_properties: gusers(m), server_reference: gstr(m, 0x1c) }
}
pub fn mk_auth_props(m: &PMap) -> AuthProperties {
    AuthProperties { auth_method: gstr(m, 0x15), auth_data: gbin(m, 0x16), reason_string: gstr(m, 0x1f), user_properties: gusers(m) }
}
pub fn mk_publish_props(m: &PMap) -> PublishProperties {
    PublishProperties {
        payload_is_utf8: g_bool(m, 0x01),
        message_expiry_interval: g32(m, 0x02),
        topic_alias: g16(m, 0x23),
        response_topic: gtopic(m, 0x08),
        correlation_data: gbin(m, 0x09),
        user_properties: gusers(m),
        subscription_id: gvar(m, 0x0b),
        content_type: gstr(m, 0x03),
    }
}
pub fn mk_subscribe_props(m: &PMap) -> SubscribeProperties {
    SubscribeProperties { subscription_id: gvar(m, 0x0b), user_properties: gusers(m) }
}

fn show_will(w: &Option<LastWill>) -> String {
    match w {
        None => "~".into(),
        Some(w) => format!("w:{}:{}:{}:{}:{}", w.qos as u8, b01(w.retain), hex_or_dash(w.topic_name.as_bytes()), hex_or_dash(&w.payload), show_props(&will_props(&w.properties))),
    }
}

pub fn show(p: &Packet) -> String {
    match p {
        Packet::Connect(c) => format!(
            "connect {} {} {} {} {} {} {} {}",
            level(c.protocol),
            b01(c.clean_start),
            c.keep_alive,
            show_props(&connect_props(&c.properties)),
            hex_or_dash(c.client_id.as_bytes()),
            show_will(&c.last_will),
            opt_hex(c.username.as_ref().map(|s| s.as_bytes())),
            opt_hex(c.password.as_ref().map(|b| b.as_ref()))
        ),
        Packet::Connack(c) => format!("connack {} {} {}", b01(c.session_present), c.reason_code as u8, show_props(&connack_props(&c.properties))),
        Packet::Publish(p) => format!(
            "publish {} {} {} {} {} {}",
            b01(p.dup),
            b01(p.retain),
            show_qos_pid(p.qos_pid),
            hex_or_dash(p.topic_name.as_bytes()),
            show_props(&publish_props(&p.properties)),
            hex_or_dash(&p.payload)
        ),
        Packet::Puback(a) => format!("puback {} {} {}", a.pid.value(), a.reason_code as u8, show_props(&reason_props(&a.properties.reason_string, &a.properties.user_properties))),
        Packet::Pubrec(a) => format!("pubrec {} {} {}", a.pid.value(), a.reason_code as u8, show_props(&reason_props(&a.properties.reason_string, &a.properties.user_properties))),
        Packet::Pubrel(a) => format!("pubrel {} {} {}", a.pid.value(), a.reason_code as u8, show_props(&reason_props(&a.properties.reason_string, &a.properties.user_properties))),
        Packet::Pubcomp(a) => format!("pubcomp {} {} {}", a.pid.value(), a.reason_code as u8, show_props(&reason_props(&a.properties.reason_string, &a.properties.user_properties))),
        Packet::Subscribe(s) => {
            let mut o = format!("subscribe {} {} {}", s.pid.value(), show_props(&subscribe_props(&s.properties)), s.topics.len());
            for (f, opt) in &s.topics {
                o.push_str(&format!(" {}:{}:{}:{}:{}", hex_or_dash(f.as_bytes()), opt.max_qos as u8, b01(opt.no_local), b01(opt.retain_as_published), opt.retain_handling as u8));
            }
            o
        }
        Packet::Suback(s) => {
            let mut o = format!("suback {} {} {}", s.pid.value(), show_props(&reason_props(&s.properties.reason_string, &s.properties.user_properties)), s.topics.len());
            for c in &s.topics {
                o.push_str(&format!(" {}", *c as u8));
            }
            o
        }
        Packet::Unsubscribe(u) => {
            let mut o = format!("unsubscribe {} {} {}", u.pid.value(), show_props(&unsubscribe_props(&u.properties)), u.topics.len());
            for f in &u.topics {
                o.push_str(&format!(" {}", hex_or_dash(f.as_bytes())));
            }
            o
        }
        Packet::Unsuback(s) => {
            let mut o = format!("unsuback {} {} {}", s.pid.value(), show_props(&reason_props(&s.properties.reason_string, &s.properties.user_properties)), s.topics.len());
            for c in &s.topics {
                o.push_str(&format!(" {}", *c as u8));
            }
            o
        }
        Packet::Pingreq => "pingreq".into(),
        Packet::Pingresp => "pingresp".into(),
        Packet::Disconnect(d) => format!("disconnect {} {}", d.reason_code as u8, show_props(&disconnect_props(&d.properties))),
        Packet::Auth(a) => format!("auth {} {}", a.reason_code as u8, show_props(&auth_props(&a.properties))),
    }
}

// ---- all variants of the reason-code enums (by discriminant)
pub const CONNECT_RC: [ConnectReasonCode; 22] = {
    use ConnectReasonCode::*;
    [Success, UnspecifiedError, MalformedPacket, ProtocolError, ImplementationSpecificError, UnsupportedProtocolVersion, ClientIdentifierNotValid, BadUserNameOrPassword, NotAuthorized, ServerUnavailable, ServerBusy, Banned, BadAuthMethod, TopicNameInvalid, PacketTooLarge, QuotaExceeded, PayloadFormatInvalid, RetainNotSupported, QoSNotSupported, UseAnotherServer, ServerMoved, ConnectionRateExceeded]
};
pub const DISCONNECT_RC: [DisconnectReasonCode; 29] = {
    use DisconnectReasonCode::*;
    [NormalDisconnect, DisconnectWithWillMessage, UnspecifiedError, MalformedPacket, ProtocolError, ImplementationSpecificError, NotAuthorized, ServerBusy, ServerShuttingDown, KeepAliveTimeout, SessionTakenOver, TopicFilterInvalid, TopicNameInvalid, ReceiveMaximumExceeded, TopicAliasInvalid, PacketTooLarge, MessageRateTooHigh, QuotaExceeded, AdministrativeAction, PayloadFormatInvalid, RetainNotSupported, QoSNotSupported, UserAnotherServer, ServerMoved, SharedSubscriptionNotSupported, ConnectionRateExceeded, MaximumConnectTime, SubscriptionIdentifiersNotSupported, WildcardSubscriptionsNotSupported]
};
pub const AUTH_RC: [AuthReasonCode; 3] = [AuthReasonCode::Success, AuthReasonCode::ContinueAuthentication, AuthReasonCode::ReAuthentication];
pub const PUBACK_RC: [PubackReasonCode; 9] = {
    use PubackReasonCode::*;
    [Success, NoMatchingSubscribers, UnspecifiedError, ImplementationSpecificError, NotAuthorized, TopicNameInvalid, PacketIdentifierInUse, QuotaExceeded, PayloadFormatInvalid]
};
pub const PUBREC_RC: [PubrecReasonCode; 9] = {
    use PubrecReasonCode::*;
    [Success, NoMatchingSubscribers, UnspecifiedError, ImplementationSpecificError, NotAuthorized, TopicNameInvalid, PacketIdentifierInUse, QuotaExceeded, PayloadFormatInvalid]
};
pub const PUBREL_RC: [PubrelReasonCode; 2] = [PubrelReasonCode::Success, PubrelReasonCode::PacketIdentifierNotFound];
pub const PUBCOMP_RC: [PubcompReasonCode; 2] = [PubcompReasonCode::Success, PubcompReasonCode::PacketIdentifierNotFound];
pub const SUBSCRIBE_RC: [SubscribeReasonCode; 12] = {
    use SubscribeReasonCode::*;
    [GrantedQoS0, GrantedQoS1, GrantedQoS2, UnspecifiedError, ImplementationSpecificError, NotAuthorized, TopicFilterInvalid, PacketIdentifierInUse, QuotaExceeded, SharedSubscriptionNotSupported, SubscriptionIdentifiersNotSupported, WildcardSubscriptionsNotSupported]
};
pub const UNSUBSCRIBE_RC: [UnsubscribeReasonCode; 7] = {
    use UnsubscribeReasonCode::*;
    [Success, NoSubscriptionExisted, UnspecifiedError, ImplementationSpecificError, NotAuthorized, TopicFilterInvalid, PacketIdentifierInUse]
};
pub const RETAIN_H: [RetainHandling; 3] = [RetainHandling::SendAtSubscribe, RetainHandling::SendAtSubscribeIfNotExist, RetainHandling::DoNotSend];

fn parse_will(s: &str) -> Build<Option<LastWill>> {
    if s == "~" {
        return Build::Ok(None);
    }
    let p: Vec<&str> = s.split(':').collect();
    if p.len() != 6 || p[0] != "w" {
        return Build::Syntax;
    }
    let qos = tri!(mk_qos(p[1]));
    let retain = tri!(parse_bool(p[2]));
    let topic = tri!(mk_text(p[3]));
    let topic_name = tri!(mk_topic_name(topic));
    let payload = Bytes::from(tri!(of_opt(unhex(p[4]))));
    let props = tri!(parse_props(&WILL_IDS, p[5]));
    Build::Ok(Some(LastWill { qos, retain, topic_name, payload, properties: mk_will_props(&props) }))
}

macro_rules! ack {
    ($toks:expr, $ty:ident, $pty:ident, $rc:expr) => {{
        let pid = tri!(parse_pid($toks[1]));
        let reason_code = tri!(by_disc(&$rc, |c| c as u8, $toks[2]));
        let m = tri!(parse_props(&ACK_IDS, $toks[3]));
        Build::Ok(Packet::$ty($ty { pid, reason_code, properties: $pty { reason_string: gstr(&m, 0x1f), user_properties: gusers(&m) } }))
    }};
}

pub fn parse(toks: &[&str]) -> Build<Packet> {
    if toks.is_empty() {
        return Build::Syntax;
    }
    match (toks[0], toks.len()) {
        ("connect", 9) => {
            let protocol = tri!(parse_protocol(toks[1]));
            let clean_start = tri!(parse_bool(toks[2]));
            let keep_alive = tri!(of_opt(toks[3].parse::<u16>().ok()));
            let props = tri!(parse_props(&CONNECT_IDS, toks[4]));
            let client_id = Arc::new(tri!(mk_text(toks[5])));
            let last_will = tri!(parse_will(toks[6]));
            let username = tri!(parse_opt_text(toks[7]));
            let password = tri!(parse_opt_hex(toks[8])).map(Bytes::from);
            Build::Ok(Packet::Connect(Connect { protocol, clean_start, keep_alive, properties: mk_connect_props(&props), client_id, last_will, username, password }))
        }
        ("connack", 4) => {
            let session_present = tri!(parse_bool(toks[1]));
            let reason_code = tri!(by_disc(&CONNECT_RC, |c| c as u8, toks[2]));
            let props = tri!(parse_props(&CONNACK_IDS, toks[3]));
            Build::Ok(Packet::Connack(Connack { session_present, reason_code, properties: mk_connack_props(&props) }))
        }
        ("publish", 8) => {
            let dup = tri!(parse_bool(toks[1]));
            let retain = tri!(parse_bool(toks[2]));
            let qos_pid = tri!(parse_qos_pid(toks[3], toks[4]));
            let topic = tri!(mk_text(toks[5]));
            let topic_name = tri!(mk_topic_name(topic));
            let props = tri!(parse_props(&PUBLISH_IDS, toks[6]));
            let payload = Bytes::from(tri!(of_opt(unhex(toks[7]))));
            Build::Ok(Packet::Publish(Publish { dup, retain, qos_pid, topic_name, payload, properties: mk_publish_props(&props) }))
        }
        ("puback", 4) => ack!(toks, Puback, PubackProperties, PUBACK_RC),
        ("pubrec", 4) => ack!(toks, Pubrec, PubrecProperties, PUBREC_RC),
        ("pubrel", 4) => ack!(toks, Pubrel, PubrelProperties, PUBREL_RC),
        ("pubcomp", 4) => ack!(toks, Pubcomp, PubcompProperties, PUBCOMP_RC),
        ("subscribe", n) if n >= 4 => {
            let pid = tri!(parse_pid(toks[1]));
            let props = tri!(parse_props(&SUBSCRIBE_IDS, toks[2]));
            if toks[3].parse::<usize>().ok() != Some(n - 4) {
                return Build::Syntax;
            }
            let mut topics = Vec::new();
            for t in &toks[4..] {
                let p: Vec<&str> = t.split(':').collect();
                if p.len() != 5 {
                    return Build::Syntax;
                }
                let f = tri!(mk_text(p[0]));
                let f = tri!(mk_topic_filter(f));
                let max_qos = tri!(mk_qos(p[1]));
                let no_local = tri!(parse_bool(p[2]));
                let retain_as_published = tri!(parse_bool(p[3]));
                let retain_handling = tri!(by_disc(&RETAIN_H, |c| c as u8, p[4]));
                topics.push((f, SubscriptionOptions { max_qos, no_local, retain_as_published, retain_handling }));
            }
            Build::Ok(Packet::Subscribe(Subscribe { pid, properties: mk_subscribe_props(&props), topics }))
        }
        ("suback", n) if n >= 4 => {
            let pid = tri!(parse_pid(toks[1]));
            let m = tri!(parse_props(&ACK_IDS, toks[2]));
            if toks[3].parse::<usize>().ok() != Some(n - 4) {
                return Build::Syntax;
            }
            let mut topics = Vec::new();
            for t in &toks[4..] {
                topics.push(tri!(by_disc(&SUBSCRIBE_RC, |c| c as u8, t)));
            }
            Build::Ok(Packet::Suback(Suback { pid, properties: SubackProperties { reason_string: gstr(&m, 0x1f), user_properties: gusers(&m) }, topics }))
        }
        ("unsuback", n) if n >= 4 => {
            let pid = tri!(parse_pid(toks[1]));
            let m = tri!(parse_props(&ACK_IDS, toks[2]));
            if toks[3].parse::<usize>().ok() != Some(n - 4) {
                return Build::Syntax;
            }
            let mut topics = Vec::new();
            for t in &toks[4..] {
                topics.push(tri!(by_disc(&UNSUBSCRIBE_RC, |c| c as u8, t)));
            }
            Build::Ok(Packet::Unsuback(Unsuback { pid, properties: UnsubackProperties { reason_string: gstr(&m, 0x1f), user_properties: gusers(&m) }, topics }))
        }
        ("unsubscribe", n) if n >= 4 => {
            let pid = tri!(parse_pid(toks[1]));
            let m = tri!(parse_props(&UNSUBSCRIBE_IDS, toks[2]));
            if toks[3].parse::<usize>().ok() != Some(n - 4) {
                return Build::Syntax;
            }
            let mut topics = Vec::new();
            for t in &toks[4..] {
                let f = tri!(mk_text(t));
                topics.push(tri!(mk_topic_filter(f)));
            }
            Build::Ok(Packet::Unsubscribe(Unsubscribe { pid, properties: UnsubscribeProperties { user_properties: gusers(&m) }, topics }))
        }
        ("pingreq", 1) => Build::Ok(Packet::Pingreq),
        ("pingresp", 1) => Build::Ok(Packet::Pingresp),
        ("disconnect", 3) => {
            let reason_code = tri!(by_disc(&DISCONNECT_RC, |c| c as u8, toks[1]));
            let m = tri!(parse_props(&DISCONNECT_IDS, toks[2]));
            Build::Ok(Packet::Disconnect(Disconnect { reason_code, properties: mk_disconnect_props(&m) }))
        }
        ("auth", 3) => {
            let reason_code = tri!(by_disc(&AUTH_RC, |c| c as u8, toks[1]));
            let m = tri!(parse_props(&AUTH_IDS, toks[2]));
            Build::Ok(Packet::Auth(Auth { reason_code, properties: mk_auth_props(&m) }))
        }
        _ => Build::Syntax,
    }
}
