//! Type-directed generators of packet values (valid domain and just outside it).

use crate::report::Rng;
use bytes::Bytes;
use mqtt_proto::v3;
use mqtt_proto::{Pid, Protocol, QoS, QosPid, TopicFilter, TopicName};
use std::convert::TryFrom;
use std::sync::Arc;

/// Characters an implementation might treat specially although MQTT does not: BOM, non-characters,
/// the edges of the surrogate gap and of Unicode, white space of several kinds (trimming), a combining
/// mark (normalisation), upper case (case folding), zero-width space; U+FFFD (what a LOSSY decoder
/// substitutes — a legitimate character all the same), the object-replacement character, noncharacters
/// of all three kinds (U+FDD0…, U+nFFFE), soft hyphen, bidi and word-joiner controls, private use,
/// paragraph separator, the C0/C1 control edges.
pub const SPECIALS: [&str; 32] = ["\u{feff}", "\u{fffe}", "\u{ffff}", "\u{d7ff}", "\u{e000}", "\u{10ffff}", "\u{a0}", "\t", "\n", "\r", "\u{2028}", "\u{301}", "A", "\u{85}", "\u{200b}", "\u{1}", "\u{fffd}", "\u{fffc}", "\u{fdd0}", "\u{fdef}", "\u{1fffe}", "\u{10fffe}", "\u{ad}", "\u{200e}", "\u{2060}", "\u{f8ff}", "\u{2029}", "\u{b}", "\u{c}", "\u{1f}", "\u{80}", "\u{9f}"];
pub const CHARS: [&str; 44] = ["a", "b", "z", "0", " ", "/", "$", "é", "你", "😀", "\u{7f}", "\u{0}", "\u{feff}", "\u{fffe}", "\u{ffff}", "\u{d7ff}", "\u{e000}", "\u{10ffff}", "\u{a0}", "\t", "\n", "\r", "\u{2028}", "\u{301}", "A", "\u{85}", "\u{200b}", "\u{1}", "\u{fffd}", "\u{fffc}", "\u{fdd0}", "\u{fdef}", "\u{1fffe}", "\u{10fffe}", "\u{ad}", "\u{200e}", "\u{2060}", "\u{f8ff}", "\u{2029}", "\u{b}", "\u{c}", "\u{1f}", "\u{80}", "\u{9f}"];
pub const TOPIC_CHARS: [&str; 40] = ["a", "b", "0", " ", "$", "é", "你", "😀", "\u{feff}", "\u{fffe}", "\u{ffff}", "\u{d7ff}", "\u{e000}", "\u{10ffff}", "\u{a0}", "\t", "\n", "\r", "\u{2028}", "\u{301}", "A", "\u{85}", "\u{200b}", "\u{1}", "\u{fffd}", "\u{fffc}", "\u{fdd0}", "\u{fdef}", "\u{1fffe}", "\u{10fffe}", "\u{ad}", "\u{200e}", "\u{2060}", "\u{f8ff}", "\u{2029}", "\u{b}", "\u{c}", "\u{1f}", "\u{80}", "\u{9f}"];

pub fn boundaries_path() -> Option<std::path::PathBuf> {
    let exe = std::env::current_exe().ok()?;
    Some(exe.parent()?.parent()?.join("boundaries.txt"))
}

/// Arguments at which `var_int_len` / `total_len` / `header_len` / `remaining_len` of the code under
/// test change value, as found by the last `gen-tables` total scan (the standard's 128, 16384, … on a
/// correct tree; whatever else the current code does on a changed one).  Every generator uses them,
/// ±1, as lengths and variable-byte-integer values.
pub fn boundaries() -> &'static [usize] {
    static B: std::sync::OnceLock<Vec<usize>> = std::sync::OnceLock::new();
    B.get_or_init(|| {
        let mut v: Vec<usize> = boundaries_path()
            .and_then(|p| std::fs::read_to_string(p).ok())
            .map(|t| t.lines().filter_map(|l| l.trim().parse().ok()).collect())
            .unwrap_or_default();
        let more: Vec<usize> = v.iter().flat_map(|b: &usize| [b.saturating_sub(1), *b + 1]).collect();
        v.extend(more);
        v.sort();
        v.dedup();
        v
    })
}

#[derive(Clone, Copy)]
pub struct Sizes {
    pub big: bool,
}

thread_local! {
    /// when set, every text / binary field of the packets being generated gets exactly this length
    pub static UNIFORM_LEN: std::cell::Cell<Option<usize>> = std::cell::Cell::new(None);
}

pub fn pick_len(rng: &mut Rng, sz: Sizes) -> usize {
    if let Some(n) = UNIFORM_LEN.with(|u| u.get()) {
        return n;
    }
    let r = rng.below(100);
    if r < 70 {
        rng.below(12) as usize
    } else if r < 80 {
        *rng.pick(&[0usize, 1, 2, 126, 127, 128, 129, 200])
    } else if r < 90 {
        // a code-derived boundary (only the cheap ones unless this packet may be big)
        let cap = if sz.big { 65535 } else { 9000 };
        let c: Vec<usize> = boundaries().iter().cloned().filter(|b| *b <= cap).collect();
        if c.is_empty() {
            128
        } else {
            *rng.pick(&c)
        }
    } else if sz.big {
        *rng.pick(&[16382usize, 16383, 16384, 16385, 65534, 65535, 1000, 40000])
    } else {
        *rng.pick(&[0usize, 1, 255, 256, 300])
    }
}

/// valid UTF-8 text of exactly (about) `len` bytes (never more)
pub fn text_of_len(rng: &mut Rng, len: usize, alphabet: &[&str]) -> String {
    let mut s = String::new();
    while s.len() < len {
        let c = *rng.pick(alphabet);
        if s.len() + c.len() <= len {
            s.push_str(c);
        } else {
            s.push('a');
        }
    }
    s
}

/// String literals of the code under test (non-test sources, harvested at run time like a fuzzer's
/// dictionary): a value that the code compares a field with ("application/octet-stream", a magic client
/// id, …) is far more likely to matter than a random text.
pub fn dictionary() -> &'static [String] {
    static D: std::sync::OnceLock<Vec<String>> = std::sync::OnceLock::new();
    D.get_or_init(|| {
        let mut out: Vec<String> = Vec::new();
        let root = std::path::Path::new(concat!(env!("CARGO_MANIFEST_DIR"), "/../../repo/src"));
        let mut stack = vec![root.to_path_buf()];
        while let Some(d) = stack.pop() {
            let rd = match std::fs::read_dir(&d) {
                Ok(r) => r,
                Err(_) => continue,
            };
            for e in rd.flatten() {
                let p = e.path();
                if p.is_dir() {
                    if p.file_name().map(|n| n != "tests").unwrap_or(true) {
                        stack.push(p);
                    }
                } else if p.extension().map(|x| x == "rs").unwrap_or(false) {
                    if let Ok(src) = std::fs::read_to_string(&p) {
                        let src = src.split("#[cfg(test)]").next().unwrap_or("").to_string();
                        let b = src.as_bytes();
                        let mut i = 0;
                        while i < b.len() {
                            if b[i] == b'/' && i + 1 < b.len() && b[i + 1] == b'/' {
                                while i < b.len() && b[i] != b'\n' {
                                    i += 1;
                                }
                            } else if b[i] == b'"' {
                                let mut j = i + 1;
                                let mut lit = String::new();
                                let mut ok = true;
                                while j < b.len() && b[j] != b'"' {
                                    if b[j] == b'\\' {
                                        ok = false;
                                        j += 1;
                                    } else if b[j] == b'{' || b[j] == b'\n' || !b[j].is_ascii() {
                                        ok = false;
                                    } else {
                                        lit.push(b[j] as char);
                                    }
                                    j += 1;
                                }
                                if ok && lit.len() >= 2 && lit.len() <= 64 {
                                    out.push(lit);
                                }
                                i = j;
                            }
                            i += 1;
                        }
                    }
                }
            }
        }
        out.sort();
        out.dedup();
        out
    })
}

/// Integer literals of the code under test (non-test sources, harvested at run time): thresholds the code
/// itself mentions (a chunk size, a buffer size, a limit) are where its behaviour changes.
pub fn numeric_literals() -> &'static [usize] {
    static N: std::sync::OnceLock<Vec<usize>> = std::sync::OnceLock::new();
    N.get_or_init(|| {
        let mut out: Vec<usize> = Vec::new();
        let root = std::path::Path::new(concat!(env!("CARGO_MANIFEST_DIR"), "/../../repo/src"));
        let mut stack = vec![root.to_path_buf()];
        while let Some(d) = stack.pop() {
            let rd = match std::fs::read_dir(&d) {
                Ok(r) => r,
                Err(_) => continue,
            };
            for e in rd.flatten() {
                let p = e.path();
                if p.is_dir() {
                    if p.file_name().map(|n| n != "tests").unwrap_or(true) {
                        stack.push(p);
                    }
                } else if p.extension().map(|x| x == "rs").unwrap_or(false) {
                    if let Ok(src) = std::fs::read_to_string(&p) {
                        let src = src.split("#[cfg(test)]").next().unwrap_or("").to_string();
                        for line in src.lines() {
                            let code = line.split("//").next().unwrap_or("");
                            let b = code.as_bytes();
                            let mut i = 0;
                            while i < b.len() {
                                if b[i].is_ascii_digit() && (i == 0 || !(b[i - 1].is_ascii_alphanumeric() || b[i - 1] == b'_' || b[i - 1] == b'.')) {
                                    let mut j = i;
                                    while j < b.len() && (b[j].is_ascii_alphanumeric() || b[j] == b'_') {
                                        j += 1;
                                    }
                                    let tok: String = code[i..j].chars().filter(|c| *c != '_').collect();
                                    let tok = tok.trim_end_matches("usize").trim_end_matches("u64").trim_end_matches("u32").trim_end_matches("u16").trim_end_matches("u8").trim_end_matches("i32").to_string();
                                    let v = if let Some(h) = tok.strip_prefix("0x") {
                                        usize::from_str_radix(h, 16).ok()
                                    } else if let Some(bn) = tok.strip_prefix("0b") {
                                        usize::from_str_radix(bn, 2).ok()
                                    } else {
                                        tok.parse::<usize>().ok()
                                    };
                                    if let Some(v) = v {
                                        out.push(v);
                                    }
                                    i = j;
                                } else {
                                    i += 1;
                                }
                            }
                        }
                    }
                }
            }
        }
        // … and the products / shifts a reader would compute from them (4 * 1024, 1 << 20 appear as two literals)
        let base = out.clone();
        for a in &base {
            for b in &base {
                if *a >= 2 && *b >= 2 && *a <= 4096 && *b <= 4096 {
                    out.push(a * b);
                }
                if *a <= 64 && *b < 32 && *b >= 2 {
                    out.push(a << b);
                }
            }
        }
        out.sort();
        out.dedup();
        out
    })
}


/// Pairs of DIFFERENT short strings on which a well-known non-cryptographic hash function (FNV-1/1a, djb2,
/// sdbm, Java's 31-hash, CRC-32, Adler-32, one-at-a-time, Murmur3, the std SipHash with default keys, each also
/// truncated to 16 bits) gives the SAME value — computed here by birthday search, not stored. A decoder that
/// recognises "the same key / topic as before" by such a tag is correct on every other pair of inputs.
pub fn collisions() -> &'static [(String, String)] {
    static C: std::sync::OnceLock<Vec<(String, String)>> = std::sync::OnceLock::new();
    C.get_or_init(|| {
        fn fnv1a(b: &[u8]) -> u64 {
            b.iter().fold(0x811c_9dc5u32, |h, c| (h ^ u32::from(*c)).wrapping_mul(0x0100_0193)) as u64
        }
        fn fnv1(b: &[u8]) -> u64 {
            b.iter().fold(0x811c_9dc5u32, |h, c| h.wrapping_mul(0x0100_0193) ^ u32::from(*c)) as u64
        }
        fn fnv1a64lo(b: &[u8]) -> u64 {
            b.iter().fold(0xcbf2_9ce4_8422_2325u64, |h, c| (h ^ u64::from(*c)).wrapping_mul(0x0000_0100_0000_01b3)) & 0xffff_ffff
        }
        fn fnv1a64fold(b: &[u8]) -> u64 {
            let h = b.iter().fold(0xcbf2_9ce4_8422_2325u64, |h, c| (h ^ u64::from(*c)).wrapping_mul(0x0000_0100_0000_01b3));
            (h >> 32) ^ (h & 0xffff_ffff)
        }
        fn djb2(b: &[u8]) -> u64 {
            b.iter().fold(5381u32, |h, c| h.wrapping_mul(33).wrapping_add(u32::from(*c))) as u64
        }
        fn djb2x(b: &[u8]) -> u64 {
            b.iter().fold(5381u32, |h, c| h.wrapping_mul(33) ^ u32::from(*c)) as u64
        }
        fn sdbm(b: &[u8]) -> u64 {
            b.iter().fold(0u32, |h, c| u32::from(*c).wrapping_add(h << 6).wrapping_add(h << 16).wrapping_sub(h)) as u64
        }
        fn java31(b: &[u8]) -> u64 {
            b.iter().fold(0u32, |h, c| h.wrapping_mul(31).wrapping_add(u32::from(*c))) as u64
        }
        fn crc32(b: &[u8]) -> u64 {
            let mut crc = 0xffff_ffffu32;
            for c in b {
                crc ^= u32::from(*c);
                for _ in 0..8 {
                    crc = if crc & 1 == 1 { (crc >> 1) ^ 0xedb8_8320 } else { crc >> 1 };
                }
            }
            (!crc) as u64
        }
        fn adler(b: &[u8]) -> u64 {
            let (mut a, mut s) = (1u32, 0u32);
            for c in b {
                a = (a + u32::from(*c)) % 65521;
                s = (s + a) % 65521;
            }
            ((s << 16) | a) as u64
        }
        fn oaat(b: &[u8]) -> u64 {
            let mut h = 0u32;
            for c in b {
                h = h.wrapping_add(u32::from(*c));
                h = h.wrapping_add(h << 10);
                h ^= h >> 6;
            }
            h = h.wrapping_add(h << 3);
            h ^= h >> 11;
            h = h.wrapping_add(h << 15);
            h as u64
        }
        fn murmur3(b: &[u8]) -> u64 {
            let mut h = 0u32;
            let mut chunks = b.chunks_exact(4);
            for ch in &mut chunks {
                let mut k = u32::from_le_bytes([ch[0], ch[1], ch[2], ch[3]]);
                k = k.wrapping_mul(0xcc9e_2d51).rotate_left(15).wrapping_mul(0x1b87_3593);
                h = (h ^ k).rotate_left(13).wrapping_mul(5).wrapping_add(0xe654_6b64);
            }
            let r = chunks.remainder();
            let mut k = 0u32;
            for (i, c) in r.iter().enumerate() {
                k |= u32::from(*c) << (8 * i);
            }
            if !r.is_empty() {
                k = k.wrapping_mul(0xcc9e_2d51).rotate_left(15).wrapping_mul(0x1b87_3593);
                h ^= k;
            }
            h ^= b.len() as u32;
            h ^= h >> 16;
            h = h.wrapping_mul(0x85eb_ca6b);
            h ^= h >> 13;
            h = h.wrapping_mul(0xc2b2_ae35);
            h ^= h >> 16;
            h as u64
        }
        fn sip_str(b: &[u8]) -> u64 {
            use std::hash::{Hash, Hasher};
            let mut h = std::collections::hash_map::DefaultHasher::new();
            std::str::from_utf8(b).unwrap().hash(&mut h);
            h.finish() & 0xffff_ffff
        }
        fn sip_bytes(b: &[u8]) -> u64 {
            use std::hash::Hasher;
            let mut h = std::collections::hash_map::DefaultHasher::new();
            h.write(b);
            h.finish() & 0xffff_ffff
        }
        fn sum(b: &[u8]) -> u64 {
            b.iter().map(|c| u64::from(*c)).sum()
        }
        fn xor(b: &[u8]) -> u64 {
            b.iter().fold(0u64, |h, c| h ^ u64::from(*c))
        }
        let fns: [fn(&[u8]) -> u64; 16] = [fnv1a, fnv1, fnv1a64lo, fnv1a64fold, djb2, djb2x, sdbm, java31, crc32, adler, oaat, murmur3, sip_str, sip_bytes, sum, xor];
        let words: Vec<String> = (0..400_000u64)
            .map(|i| {
                let mut n = i.wrapping_mul(7919) % 11_881_376;
                let mut w = String::new();
                for _ in 0..5 {
                    w.push((b'a' + (n % 26) as u8) as char);
                    n /= 26;
                }
                w
            })
            .collect();
        let mut out: Vec<(String, String)> = Vec::new();
        for f in fns.iter() {
            for mask in [0xffff_ffffu64, 0xffff] {
                let mut seen: std::collections::HashMap<u64, usize> = std::collections::HashMap::new();
                let mut found = 0;
                for (i, w) in words.iter().enumerate() {
                    let h = f(w.as_bytes()) & mask;
                    if let Some(j) = seen.get(&h) {
                        if words[*j] != *w {
                            out.push((words[*j].clone(), w.clone()));
                            found += 1;
                            if found == 2 {
                                break;
                            }
                        }
                    } else {
                        seen.insert(h, i);
                    }
                }
            }
        }
        out.push(("Aa".into(), "BB".into()));
        out.sort();
        out.dedup();
        out
    })
}

pub fn gen_text(rng: &mut Rng, sz: Sizes) -> String {
    let len = pick_len(rng, sz);
    if UNIFORM_LEN.with(|u| u.get()).is_none() && !dictionary().is_empty() && rng.chance(1, 14) {
        return rng.pick(dictionary()).clone();
    }
    text_of_len(rng, len, &CHARS)
}

pub fn gen_bytes(rng: &mut Rng, sz: Sizes) -> Vec<u8> {
    let len = pick_len(rng, sz);
    let mode = rng.below(3);
    (0..len)
        .map(|i| match mode {
            0 => rng.next() as u8,
            1 => b'a' + (i % 26) as u8,
            _ => *rng.pick(&[0u8, 0x7f, 0x80, 0xff, 0xc3]),
        })
        .collect()
}

pub fn gen_topic_name(rng: &mut Rng, sz: Sizes) -> TopicName {
    let s = if rng.chance(1, 12) {
        let len = pick_len(rng, sz);
        text_of_len(rng, len, &TOPIC_CHARS)
    } else {
        let levels = rng.below(5);
        let mut s = String::new();
        if rng.chance(1, 10) {
            s.push_str(*rng.pick(&["$SYS/", "$share/", "/"]));
        }
        for i in 0..levels {
            if i > 0 {
                s.push('/');
            }
            let l = rng.below(4) as usize;
            s.push_str(&text_of_len(rng, l, &TOPIC_CHARS));
        }
        s
    };
    TopicName::try_from(s).expect("generated topic name is valid")
}

pub fn gen_topic_filter(rng: &mut Rng, sz: Sizes) -> TopicFilter {
    loop {
        let mut s = String::new();
        if rng.chance(1, 5) {
            s.push_str("$share/");
            let l = 1 + rng.below(4) as usize;
            s.push_str(&text_of_len(rng, l, &TOPIC_CHARS));
            s.push('/');
        }
        if rng.chance(1, 15) {
            let len = pick_len(rng, sz).max(1).min(65535 - s.len());
            s.push_str(&text_of_len(rng, len, &TOPIC_CHARS));
        } else {
            let levels = 1 + rng.below(4);
            for i in 0..levels {
                if i > 0 {
                    s.push('/');
                }
                match rng.below(6) {
                    0 => s.push('+'),
                    1 if i + 1 == levels => s.push('#'),
                    2 => {}
                    _ => {
                        let l = 1 + rng.below(3) as usize;
                        s.push_str(&text_of_len(rng, l, &TOPIC_CHARS));
                    }
                }
            }
        }
        // validity is decided by the independently written rule, never by the implementation under
        // test: a valid filter it refuses must not silently drop out of the corpus
        if crate::oracle::spec_filter(&s).is_none() {
            continue;
        }
        match TopicFilter::try_from(s.clone()) {
            Ok(f) => return f,
            Err(e) => panic!("generator: the implementation refuses the valid topic filter {:?}: {:?}", s, e),
        }
    }
}

pub fn gen_pid(rng: &mut Rng) -> Pid {
    let v = match rng.below(6) {
        0 => 1,
        1 => 65535,
        2 => 256,
        3 => 255,
        _ => 1 + rng.below(65535) as u16,
    };
    Pid::try_from(v).unwrap()
}

pub fn gen_qos(rng: &mut Rng) -> QoS {
    *rng.pick(&[QoS::Level0, QoS::Level1, QoS::Level2])
}

pub fn gen_qos_pid(rng: &mut Rng) -> QosPid {
    match rng.below(3) {
        0 => QosPid::Level0,
        1 => QosPid::Level1(gen_pid(rng)),
        _ => QosPid::Level2(gen_pid(rng)),
    }
}

pub const V3_TYPES: usize = 14;

/// a valid v3 packet of type index `t` (0..14)
pub fn gen_v3(rng: &mut Rng, t: usize, sz: Sizes) -> v3::Packet {
    use v3::*;
    match t {
        0 => {
            let last_will = if rng.chance(1, 2) {
                Some(LastWill { qos: gen_qos(rng), retain: rng.chance(1, 2), topic_name: gen_topic_name(rng, sz), message: Bytes::from(gen_bytes(rng, sz)) })
            } else {
                None
            };
            Packet::Connect(Connect {
                protocol: *rng.pick(&[Protocol::V310, Protocol::V311]),
                clean_session: rng.chance(1, 2),
                keep_alive: *rng.pick(&[0u16, 1, 60, 255, 256, 65535]),
                client_id: Arc::new(gen_text(rng, sz)),
                last_will,
                username: if rng.chance(1, 2) { Some(Arc::new(gen_text(rng, sz))) } else { None },
                password: if rng.chance(1, 2) { Some(Bytes::from(gen_bytes(rng, sz))) } else { None },
            })
        }
        1 => Packet::Connack(Connack {
            session_present: rng.chance(1, 2),
            code: *rng.pick(&[
                ConnectReturnCode::Accepted,
                ConnectReturnCode::UnacceptableProtocolVersion,
                ConnectReturnCode::IdentifierRejected,
                ConnectReturnCode::ServerUnavailable,
                ConnectReturnCode::BadUserNameOrPassword,
                ConnectReturnCode::NotAuthorized,
            ]),
        }),
        2 => Packet::Publish(Publish { dup: rng.chance(1, 2), retain: rng.chance(1, 2), qos_pid: gen_qos_pid(rng), topic_name: gen_topic_name(rng, sz), payload: Bytes::from(gen_bytes(rng, sz)) }),
        3 => Packet::Puback(gen_pid(rng)),
        4 => Packet::Pubrec(gen_pid(rng)),
        5 => Packet::Pubrel(gen_pid(rng)),
        6 => Packet::Pubcomp(gen_pid(rng)),
        7 => {
            let n = 1 + rng.below(4) as usize;
            {
                let topics: Vec<_> = (0..n).map(|_| (gen_topic_filter(rng, sz), gen_qos(rng))).collect();
                Packet::Subscribe(Subscribe { pid: gen_pid(rng), topics: with_repeats(rng, topics) })
            }
        }
        8 => {
            let n = rng.below(5) as usize;
            Packet::Suback(Suback {
                pid: gen_pid(rng),
                topics: (0..n).map(|_| *rng.pick(&[SubscribeReturnCode::MaxLevel0, SubscribeReturnCode::MaxLevel1, SubscribeReturnCode::MaxLevel2, SubscribeReturnCode::Failure])).collect(),
            })
        }
        9 => {
            let n = 1 + rng.below(4) as usize;
            {
                let topics: Vec<_> = (0..n).map(|_| gen_topic_filter(rng, sz)).collect();
                Packet::Unsubscribe(Unsubscribe { pid: gen_pid(rng), topics: with_repeats(rng, topics) })
            }
        }
        10 => Packet::Unsuback(gen_pid(rng)),
        11 => Packet::Pingreq,
        12 => Packet::Pingresp,
        _ => Packet::Disconnect,
    }
}

/// structure-aware corruptions of a valid encoding
pub fn mutate(rng: &mut Rng, enc: &[u8]) -> Vec<u8> {
    let mut v = enc.to_vec();
    if v.is_empty() {
        return vec![rng.next() as u8];
    }
    match rng.below(14) {
        12 => shift_string_boundary(rng, &mut v),
        13 => pad_inner_varint(rng, &mut v),
        0 => {
            let i = rng.below(v.len() as u64) as usize;
            v[i] ^= 1 << rng.below(8);
        }
        1 => {
            let i = rng.below(v.len() as u64) as usize;
            v[i] = rng.next() as u8;
        }
        2 => {
            let k = rng.below(v.len() as u64 + 1) as usize;
            v.truncate(k);
        }
        3 => {
            for _ in 0..(1 + rng.below(4)) {
                v.push(rng.next() as u8);
            }
        }
        4 => {
            // remaining-length edits
            if v.len() > 1 {
                v[1] = match rng.below(5) {
                    0 => v[1].wrapping_add(1),
                    1 => v[1].wrapping_sub(1),
                    2 => 0,
                    3 => 0x7f,
                    _ => v[1].wrapping_mul(2),
                };
            }
        }
        5 => {
            // maximal remaining length with a short body
            let tail: Vec<u8> = v.iter().skip(2).cloned().collect();
            v.truncate(1);
            v.extend_from_slice(&[0xff, 0xff, 0xff, 0x7f]);
            v.extend(tail);
        }
        6 => {
            // non-minimal remaining length, spelled with 2, 3 or 4 bytes (the frame stays complete)
            if v.len() > 1 && v[1] < 0x80 {
                let l = v[1];
                let extra = 1 + rng.below(3) as usize;
                v[1] = l | 0x80;
                for k in 0..extra {
                    v.insert(2 + k, if k + 1 == extra { 0 } else { 0x80 });
                }
            }
        }
        7 => {
            // delete a byte
            let i = rng.below(v.len() as u64) as usize;
            v.remove(i);
        }
        8 => {
            // duplicate a slice
            let i = rng.below(v.len() as u64) as usize;
            let j = i + rng.below((v.len() - i) as u64 + 1) as usize;
            let sl: Vec<u8> = v[i..j].to_vec();
            let at = rng.below(v.len() as u64 + 1) as usize;
            for (k, b) in sl.into_iter().enumerate() {
                v.insert(at + k, b);
            }
        }
        9 => {
            // set a byte to an "interesting" value
            let i = rng.below(v.len() as u64) as usize;
            v[i] = *rng.pick(&[0u8, 1, 2, 3, 0x7f, 0x80, 0xff, 0x26, 0x0b, 0x2b, 0x23]);
        }
        10 => {
            // change control byte flags / type
            v[0] = if rng.chance(1, 2) { v[0] ^ (1 << rng.below(4)) } else { (rng.next() as u8 & 0xf0) | (v[0] & 0x0f) };
        }
        _ => {
            // zero a u16 (e.g. pid / length)
            if v.len() > 3 {
                let i = 2 + rng.below((v.len() - 3) as u64) as usize;
                v[i] = 0;
                v[i + 1] = 0;
            }
        }
    }
    v
}

/// Respell one byte b < 0x80 of the body as the NON-MINIMAL variable byte integer `b|0x80, 0x00` (or with
/// two/three padding bytes) and add the extra bytes to a one-byte remaining length.  When the byte is a
/// property length or a Subscription Identifier this is exactly a padded integer, which the codec
/// tolerates; every length bookkeeping of the decoder must then count the bytes actually read.
fn pad_inner_varint(rng: &mut Rng, v: &mut Vec<u8>) {
    if v.len() < 4 || v[1] >= 0x7c {
        return;
    }
    // prefer the first bytes of the body (property lengths live there) but try anywhere
    let i = if rng.chance(2, 3) { 2 + rng.below((v.len() - 2).min(8) as u64) as usize } else { 2 + rng.below((v.len() - 2) as u64) as usize };
    if v[i] >= 0x80 {
        return;
    }
    let extra = 1 + rng.below(3) as usize;
    v[i] |= 0x80;
    for k in 0..extra {
        v.insert(i + 1 + k, if k + 1 == extra { 0 } else { 0x80 });
    }
    v[1] += extra as u8;
}

/// Two adjacent length-prefixed fields `[L][s1][L2][s2]`: move the boundary by one byte (the total
/// stays the same, both length fields stay consistent).  When the byte that changes sides belongs to a
/// multi-byte character, s1 then ends in a truncated sequence and s2 starts with a continuation byte:
/// each field alone is invalid UTF-8, their concatenation is valid.
fn shift_string_boundary(rng: &mut Rng, v: &mut Vec<u8>) {
    let n = v.len().min(6000);
    let mut cands: Vec<(usize, usize, bool)> = Vec::new(); // (i, j, moved byte is non-ASCII)
    for i in 1..n.saturating_sub(4) {
        let l = ((v[i] as usize) << 8) | v[i + 1] as usize;
        let j = i + 2 + l;
        if j + 2 > v.len() {
            continue;
        }
        let l2 = ((v[j] as usize) << 8) | v[j + 1] as usize;
        if l2 == 0 || j + 2 + l2 > v.len() {
            continue;
        }
        cands.push((i, j, v[j + 2] >= 0x80));
    }
    if cands.is_empty() {
        return;
    }
    let hi: Vec<(usize, usize, bool)> = cands.iter().cloned().filter(|c| c.2).collect();
    let (i, j, _) = if !hi.is_empty() && rng.chance(3, 4) { *rng.pick(&hi) } else { *rng.pick(&cands) };
    let l = ((v[i] as usize) << 8) | v[i + 1] as usize;
    let l2 = ((v[j] as usize) << 8) | v[j + 1] as usize;
    if rng.chance(2, 3) || l == 0 {
        if l == 65535 {
            return;
        }
        // the first field takes the first byte of the second
        let b = v[j + 2];
        v[i] = ((l + 1) >> 8) as u8;
        v[i + 1] = (l + 1) as u8;
        v[j] = b;
        v[j + 1] = ((l2 - 1) >> 8) as u8;
        v[j + 2] = (l2 - 1) as u8;
    } else {
        if l2 == 65535 {
            return;
        }
        // the second field takes the last byte of the first
        let b = v[j - 1];
        v[i] = ((l - 1) >> 8) as u8;
        v[i + 1] = (l - 1) as u8;
        v[j - 1] = ((l2 + 1) >> 8) as u8;
        v[j] = (l2 + 1) as u8;
        v[j + 1] = b;
    }
}

/// a random schedule for a stream of `n` bytes
pub fn gen_sched(rng: &mut Rng, n: usize) -> String {
    let mut items = Vec::new();
    let mut left = n as i64 + 2;
    while left > 0 && items.len() < 60 {
        match rng.below(10) {
            0 | 1 => items.push("p".to_string()),
            2 => items.push("d".to_string()),
            _ => {
                let m = *rng.pick(&[1u64, 2, 3, 8, 64, 5000]);
                let c = 1 + rng.below(m);
                // a third of the reads fill the buffer through initialize_unfilled()+advance()
                items.push(format!("{}{}", if rng.chance(1, 3) { "i" } else { "c" }, c));
                left -= c as i64;
            }
        }
    }
    if items.is_empty() {
        "-".into()
    } else {
        items.join(",")
    }
}

/// all compositions of n into chunk sizes (n ≥ 1): 2^(n-1) schedules
pub fn compositions(n: usize) -> Vec<Vec<usize>> {
    let mut out = Vec::new();
    for mask in 0..(1u32 << (n - 1)) {
        let mut parts = Vec::new();
        let mut cur = 1;
        for i in 0..(n - 1) {
            if (mask >> i) & 1 == 1 {
                parts.push(cur);
                cur = 1;
            } else {
                cur += 1;
            }
        }
        parts.push(cur);
        out.push(parts);
    }
    out
}

// ------------------------------------------------------------------ v5

use crate::v5text::{self, PMap, Val};
use mqtt_proto::v5;

pub const V5_TYPES: usize = 15;

fn kind_char(id: u8) -> char {
    match id {
        0x01 | 0x17 | 0x19 | 0x25 | 0x28 | 0x29 | 0x2a => 'b',
        0x24 => 'q',
        0x13 | 0x21 | 0x22 | 0x23 => 'h',
        0x02 | 0x11 | 0x18 | 0x27 => 'w',
        0x03 | 0x12 | 0x15 | 0x1a | 0x1c | 0x1f => 's',
        0x08 => 't',
        0x09 | 0x16 => 'y',
        _ => 'v',
    }
}

/// `mode`: 0 = random subset, 1 = all present, 2 = none, 3 = exactly one (index `one`), 4 = all but one,
/// 5 = exactly the two with indices `one / n` and `one % n` and no user property
pub fn gen_props(rng: &mut Rng, ids: &[u8], sz: Sizes, mode: u8, one: usize) -> PMap {
    let mut m = PMap::default();
    for (i, id) in ids.iter().enumerate() {
        let present = match mode {
            0 => rng.chance(1, 2),
            1 => true,
            2 => false,
            3 => i == one % ids.len().max(1),
            5 => i == (one / ids.len().max(1)) % ids.len().max(1) || i == one % ids.len().max(1),
            _ => i != one % ids.len().max(1),
        };
        if !present {
            continue;
        }
        let v = match kind_char(*id) {
            'b' => Val::Byte(rng.below(2) as u8),
            'q' => Val::Byte(rng.below(2) as u8),
            'h' => Val::U16(*rng.pick(&[0u16, 1, 255, 256, 65535, 1234])),
            'w' => Val::U32(*rng.pick(&[0u32, 1, 255, 65536, 16777216, u32::MAX, 268435456, 305419896])),
            's' => Val::Str(gen_text(rng, sz)),
            't' => Val::Str(gen_topic_name(rng, sz).to_string()),
            'y' => Val::Bin(gen_bytes(rng, sz)),
            _ => {
                let c: Vec<usize> = boundaries().iter().cloned().filter(|b| *b < (1 << 28)).collect();
                if !c.is_empty() && rng.chance(1, 2) {
                    Val::VarInt(*rng.pick(&c) as u32)
                } else {
                    Val::VarInt(*rng.pick(&[0u32, 1, 127, 128, 16383, 16384, 2097151, 2097152, 268435455]))
                }
            }
        };
        m.known.insert(*id, v);
    }
    let nu = match mode {
        2 | 5 => 0,
        _ => {
            if rng.chance(1, 2) {
                0
            } else {
                1 + rng.below(4) as usize
            }
        }
    };
    for _ in 0..nu {
        m.user.push((gen_text(rng, Sizes { big: false }), gen_text(rng, Sizes { big: false })));
    }
    m.user = with_repeats(rng, std::mem::take(&mut m.user));
    // NEAR-duplicates next to each other: same name in another ASCII case, with one character changed, with a
    // trailing space (a decoder that interns / shares "equal" keys must compare them exactly)
    if !m.user.is_empty() && rng.chance(1, 4) {
        let i = rng.below(m.user.len() as u64) as usize;
        let (n, v) = m.user[i].clone();
        let base = if n.len() < 9 { format!("{}Content-Encoding", n) } else { n };
        m.user[i].0 = base.clone();
        let variant = match rng.below(4) {
            0 => base.to_ascii_uppercase(),
            1 => base.to_ascii_lowercase(),
            2 => format!("{} ", base),
            _ => {
                let mut b = base.clone();
                b.pop();
                b.push('_');
                b
            }
        };
        m.user.insert(i + 1, (variant, v));
    }
    m
}

/// Lists with REPEATED elements (adjacent, or first = last): nothing in MQTT forbids the same filter,
/// code or user property twice, and a decoder that normalises them changes the packet.
pub fn with_repeats<T: Clone>(rng: &mut Rng, mut v: Vec<T>) -> Vec<T> {
    if v.is_empty() || !rng.chance(1, 3) {
        return v;
    }
    match rng.below(3) {
        0 => {
            let i = rng.below(v.len() as u64) as usize;
            let x = v[i].clone();
            v.insert(i, x); // adjacent duplicate
        }
        1 => {
            let x = v[0].clone();
            v.push(x); // first repeated at the end
        }
        _ => {
            let x = v[v.len() - 1].clone();
            let n = 1 + rng.below(2) as usize;
            for _ in 0..n {
                v.push(x.clone()); // a run at the end
            }
        }
    }
    v
}

fn payload_for(rng: &mut Rng, m: &PMap, sz: Sizes) -> Vec<u8> {
    if m.known.get(&0x01) == Some(&Val::Byte(1)) {
        gen_text(rng, sz).into_bytes()
    } else {
        gen_bytes(rng, sz)
    }
}

fn reason_ps(m: &PMap) -> (Option<Arc<String>>, Vec<v5::UserProperty>) {
    let d = v5text::mk_disconnect_props(m);
    (d.reason_string, d.user_properties)
}

/// a valid v5 packet of type index `t` (0..15); `pmode`/`one` steer the property subset
pub fn gen_v5(rng: &mut Rng, t: usize, sz: Sizes, pmode: u8, one: usize) -> v5::Packet {
    use v5::*;
    match t {
        0 => {
            let last_will = if rng.chance(1, 2) {
                let wp = gen_props(rng, &v5text::WILL_IDS, sz, pmode, one);
                let payload = payload_for(rng, &wp, sz);
                Some(LastWill { qos: gen_qos(rng), retain: rng.chance(1, 2), topic_name: gen_topic_name(rng, sz), payload: Bytes::from(payload), properties: v5text::mk_will_props(&wp) })
            } else {
                None
            };
            let props = gen_props(rng, &v5text::CONNECT_IDS, sz, pmode, one);
            Packet::Connect(Connect {
                protocol: Protocol::V500,
                clean_start: rng.chance(1, 2),
                keep_alive: *rng.pick(&[0u16, 1, 60, 255, 256, 65535]),
                properties: v5text::mk_connect_props(&props),
                client_id: Arc::new(gen_text(rng, sz)),
                last_will,
                username: if rng.chance(1, 2) { Some(Arc::new(gen_text(rng, sz))) } else { None },
                password: if rng.chance(1, 2) { Some(Bytes::from(gen_bytes(rng, sz))) } else { None },
            })
        }
        1 => {
            let props = gen_props(rng, &v5text::CONNACK_IDS, sz, pmode, one);
            Packet::Connack(Connack { session_present: rng.chance(1, 2), reason_code: *rng.pick(&v5text::CONNECT_RC), properties: v5text::mk_connack_props(&props) })
        }
        2 => {
            let mut props = gen_props(rng, &v5text::PUBLISH_IDS, sz, pmode, one);
            let topic_name = gen_topic_name(rng, sz);
            // the Response Topic as a NEAR-duplicate of the topic (same text, other ASCII case, one level more)
            if props.known.contains_key(&0x08) && rng.chance(1, 3) && topic_name.len() > 0 {
                let t = topic_name.to_string();
                let v = match rng.below(4) {
                    0 => t.clone(),
                    1 => t.to_ascii_uppercase(),
                    2 => t.to_ascii_lowercase(),
                    _ => format!("{}/r", t),
                };
                if v.len() <= 65535 {
                    props.known.insert(0x08, Val::Str(v));
                }
            }
            let payload = payload_for(rng, &props, sz);
            Packet::Publish(Publish { dup: rng.chance(1, 2), retain: rng.chance(1, 2), qos_pid: gen_qos_pid(rng), topic_name, payload: Bytes::from(payload), properties: v5text::mk_publish_props(&props) })
        }
        3 => {
            let (reason_string, user_properties) = reason_ps(&gen_props(rng, &v5text::ACK_IDS, sz, pmode, one));
            Packet::Puback(Puback { pid: gen_pid(rng), reason_code: *rng.pick(&v5text::PUBACK_RC), properties: PubackProperties { reason_string, user_properties } })
        }
        4 => {
            let (reason_string, user_properties) = reason_ps(&gen_props(rng, &v5text::ACK_IDS, sz, pmode, one));
            Packet::Pubrec(Pubrec { pid: gen_pid(rng), reason_code: *rng.pick(&v5text::PUBREC_RC), properties: PubrecProperties { reason_string, user_properties } })
        }
        5 => {
            let (reason_string, user_properties) = reason_ps(&gen_props(rng, &v5text::ACK_IDS, sz, pmode, one));
            Packet::Pubrel(Pubrel { pid: gen_pid(rng), reason_code: *rng.pick(&v5text::PUBREL_RC), properties: PubrelProperties { reason_string, user_properties } })
        }
        6 => {
            let (reason_string, user_properties) = reason_ps(&gen_props(rng, &v5text::ACK_IDS, sz, pmode, one));
            Packet::Pubcomp(Pubcomp { pid: gen_pid(rng), reason_code: *rng.pick(&v5text::PUBCOMP_RC), properties: PubcompProperties { reason_string, user_properties } })
        }
        7 => {
            let props = gen_props(rng, &v5text::SUBSCRIBE_IDS, sz, pmode, one);
            let n = 1 + rng.below(4) as usize;
            Packet::Subscribe(Subscribe {
                pid: gen_pid(rng),
                properties: v5text::mk_subscribe_props(&props),
                topics: {
                    let t: Vec<_> = (0..n)
                        .map(|_| (gen_topic_filter(rng, sz), SubscriptionOptions { max_qos: gen_qos(rng), no_local: rng.chance(1, 2), retain_as_published: rng.chance(1, 2), retain_handling: *rng.pick(&v5text::RETAIN_H) }))
                        .collect();
                    with_repeats(rng, t)
                },
            })
        }
        8 => {
            let (reason_string, user_properties) = reason_ps(&gen_props(rng, &v5text::ACK_IDS, sz, pmode, one));
            let n = rng.below(5) as usize;
            Packet::Suback(Suback { pid: gen_pid(rng), properties: SubackProperties { reason_string, user_properties }, topics: (0..n).map(|_| *rng.pick(&v5text::SUBSCRIBE_RC)).collect() })
        }
        9 => {
            let props = gen_props(rng, &v5text::UNSUBSCRIBE_IDS, sz, pmode, one);
            let n = 1 + rng.below(4) as usize;
            Packet::Unsubscribe(Unsubscribe { pid: gen_pid(rng), properties: UnsubscribeProperties { user_properties: v5text::mk_disconnect_props(&props).user_properties }, topics: { let t: Vec<_> = (0..n).map(|_| gen_topic_filter(rng, sz)).collect(); with_repeats(rng, t) } })
        }
        10 => {
            let (reason_string, user_properties) = reason_ps(&gen_props(rng, &v5text::ACK_IDS, sz, pmode, one));
            let n = rng.below(5) as usize;
            Packet::Unsuback(Unsuback { pid: gen_pid(rng), properties: UnsubackProperties { reason_string, user_properties }, topics: (0..n).map(|_| *rng.pick(&v5text::UNSUBSCRIBE_RC)).collect() })
        }
        11 => Packet::Pingreq,
        12 => Packet::Pingresp,
        13 => {
            let props = gen_props(rng, &v5text::DISCONNECT_IDS, sz, pmode, one);
            Packet::Disconnect(Disconnect { reason_code: *rng.pick(&v5text::DISCONNECT_RC), properties: v5text::mk_disconnect_props(&props) })
        }
        _ => {
            let props = gen_props(rng, &v5text::AUTH_IDS, sz, pmode, one);
            Packet::Auth(Auth { reason_code: *rng.pick(&v5text::AUTH_RC), properties: v5text::mk_auth_props(&props) })
        }
    }
}

/// reorder / duplicate / respell parts of a valid v5 encoding while keeping it a frame
pub fn respell_v5(rng: &mut Rng, enc: &[u8]) -> Vec<u8> {
    // non-minimal remaining length
    let mut v = enc.to_vec();
    if v.len() > 1 && v[1] < 0x80 && rng.chance(1, 2) {
        let l = v[1];
        let extra = 1 + rng.below(3) as usize;
        v[1] = l | 0x80;
        for k in 0..extra {
            v.insert(2 + k, if k + 1 == extra { 0 } else { 0x80 });
        }
    }
    v
}

// ---------------------------------------------------------------------------------------------- sweeps

fn sweep_lengths(thorough: bool) -> Vec<usize> {
    // around the points where a DERIVED length (field + 2, variable header, header + body) crosses a
    // variable-byte-integer boundary: 127/128 and 16,383/16,384 minus small offsets
    let mut v: Vec<usize> = (118..=131).collect();
    v.extend(16_374..=16_386);
    if thorough {
        v.extend(100..118);
        v.extend(132..140);
        v.extend(16_360..16_374);
    }
    // thresholds the code itself mentions, beyond the fully swept range (≤ 8300) and below the field limit
    let lits: Vec<usize> = numeric_literals().iter().cloned().filter(|n| *n > 8300 && *n <= 65_535).collect();
    for n in lits.iter().take(if thorough { 200 } else { 40 }) {
        v.extend([n - 1, *n, (*n + 1).min(65_535)]);
    }
    v.sort();
    v.dedup();
    v
}

fn sweep_counts() -> Vec<usize> {
    let mut v = vec![0, 1, 2, 31, 32, 33, 63, 64, 65, 127, 128, 129, 255, 256, 257, 1000];
    // beyond the fully swept range (0..4100): the thresholds the code itself mentions (and their small multiples),
    // powers of two and the largest counts a frame of 65,535 one-byte elements can hold
    let mut big: Vec<usize> = vec![8_191, 8_192, 8_193, 16_384, 32_768, 65_535];
    for n in numeric_literals().iter().cloned().filter(|n| *n > 4_100 && *n <= 65_535).take(12) {
        for k in 1..=3 {
            if n * k <= 65_535 {
                big.extend([n * k - 1, n * k, n * k + 1]);
            }
        }
    }
    big.sort();
    big.dedup();
    v.extend(big.into_iter().filter(|n| *n <= 65_536));
    v
}

/// Valid v3 packets on a GRID instead of at random: one text field swept through the lengths where a
/// derived length crosses a boundary, crossed with payload sizes and QoS; list fields swept through
/// element counts around powers of two (also with every element equal).
/// Texts in which a multi-byte character ends at, straddles or starts at a power-of-two offset (a decoder
/// that validates or copies text in chunks must carry a split character over): for each boundary B and each
/// character width w, the character's last byte falls on offset B-1+o for o in 0..w.
pub fn aligned_texts(thorough: bool) -> Vec<String> {
    let mut out = Vec::new();
    let bounds: &[usize] = if thorough { &[64, 128, 256, 512, 1024, 2048, 4096, 8192, 16384, 32768] } else { &[1024, 4096, 8192, 16384, 32768] };
    for b in bounds {
        for ch in ["é", "你", "😀"] {
            let w = ch.len();
            for o in 0..w {
                let end = b + o; // the character occupies [end - w, end)
                let mut s = "a".repeat(end - w);
                s.push_str(ch);
                s.push_str("tail😀");
                out.push(s);
            }
        }
    }
    out
}

pub fn sweep_v3(thorough: bool) -> Vec<v3::Packet> {
    use v3::*;
    let mut out = Vec::new();
    let name = |n: usize| TopicName::try_from("t".repeat(n)).unwrap();
    for l in sweep_lengths(thorough) {
        for pl in [0usize, 1, 4095, 4096, 5000] {
            if l > 1000 && pl != 0 && pl != 4096 {
                continue;
            }
            for qos_pid in [QosPid::Level0, QosPid::Level1(Pid::try_from(10).unwrap())] {
                out.push(Packet::Publish(Publish { dup: false, retain: false, qos_pid, topic_name: name(l), payload: Bytes::from(vec![0x5a; pl]) }));
            }
        }
        if l < 1000 {
            out.push(Packet::Connect(Connect {
                protocol: Protocol::V311,
                clean_session: true,
                keep_alive: 60,
                client_id: Arc::new("c".repeat(l)),
                last_will: Some(LastWill { qos: QoS::Level1, retain: false, topic_name: name(3), message: Bytes::from(vec![1u8; 4096]) }),
                username: None,
                password: None,
            }));
            out.push(Packet::Subscribe(Subscribe { pid: Pid::try_from(3).unwrap(), topics: vec![(TopicFilter::try_from("f".repeat(l)).unwrap(), QoS::Level0)] }));
        }
    }
    // CONNECT on a GRID of specification-significant lengths in all its fields at once (MQTT 3.1 limits:
    // client id 23, user name / password 12): three- and four-field coincidences
    for cl in [0usize, 1, 22, 23, 24] {
        for ul in [None, Some(0usize), Some(11), Some(12), Some(13)] {
            for pl in [None, Some(0usize), Some(11), Some(12), Some(13)] {
                for will in [false, true] {
                    if pl.is_some() && ul.is_none() {
                        continue; // (a password without a user name is outside the valid domain of v3)
                    }
                    for protocol in [Protocol::V310, Protocol::V311] {
                        out.push(Packet::Connect(Connect {
                            protocol,
                            clean_session: true,
                            keep_alive: 30,
                            client_id: Arc::new("i".repeat(cl)),
                            last_will: if will { Some(LastWill { qos: QoS::Level0, retain: true, topic_name: name(4), message: Bytes::from(vec![7u8; 12]) }) } else { None },
                            username: ul.map(|n| Arc::new("u".repeat(n))),
                            password: pl.map(|n| Bytes::from(vec![b'p'; n])),
                        }));
                    }
                }
            }
        }
    }
    // LONG will topics / user names under BOTH protocol levels (3.1 had a 32,767-character limit that this codec
    // does not apply): lengths in bytes and in characters around 32,767 and at the maximum
    for protocol in [Protocol::V310, Protocol::V311] {
        for (unit, chars) in [("a", 32_767usize), ("a", 32_768), ("a", 40_000), ("a", 65_535), ("\u{e9}", 32_767), ("\u{4f60}", 21_845)] {
            let long = unit.repeat(chars);
            out.push(Packet::Connect(Connect {
                protocol,
                clean_session: true,
                keep_alive: 7,
                client_id: Arc::new("c".into()),
                last_will: Some(LastWill { qos: QoS::Level0, retain: false, topic_name: TopicName::try_from(long.clone()).unwrap(), message: Bytes::from(vec![1u8, 2, 3]) }),
                username: Some(Arc::new(long)),
                password: None,
            }));
        }
    }
    for t in aligned_texts(thorough) {
        out.push(Packet::Publish(Publish { dup: false, retain: true, qos_pid: QosPid::Level0, topic_name: TopicName::try_from(t.clone()).unwrap(), payload: Bytes::from(t.clone().into_bytes()) }));
        out.push(Packet::Connect(Connect { protocol: Protocol::V310, clean_session: false, keep_alive: 1, client_id: Arc::new(t.clone()), last_will: None, username: Some(Arc::new(t)), password: None }));
    }
    for n in sweep_counts() {
        if n > 0 {
            // a RUN of n equal codes that ENDS (followed by a different code), and one that starts late
            let mut run = vec![SubscribeReturnCode::MaxLevel1; n];
            run.push(SubscribeReturnCode::Failure);
            out.push(Packet::Suback(Suback { pid: Pid::try_from(5).unwrap(), topics: run.clone() }));
            run.rotate_right(1);
            out.push(Packet::Suback(Suback { pid: Pid::try_from(5).unwrap(), topics: run }));
        }
        out.push(Packet::Suback(Suback { pid: Pid::try_from(5).unwrap(), topics: (0..n).map(|i| [SubscribeReturnCode::MaxLevel0, SubscribeReturnCode::MaxLevel2, SubscribeReturnCode::Failure][i % 3]).collect() }));
        if n > 0 && n <= 1000 {
            out.push(Packet::Subscribe(Subscribe { pid: Pid::try_from(6).unwrap(), topics: (0..n).map(|i| (TopicFilter::try_from(format!("a/{}", i % 7)).unwrap(), QoS::Level1)).collect() }));
            out.push(Packet::Unsubscribe(Unsubscribe { pid: Pid::try_from(7).unwrap(), topics: (0..n).map(|_| TopicFilter::try_from("same/+".to_string()).unwrap()).collect() }));
        }
    }
    // the REMAINING LENGTH on either side of 127/128 and 16,383/16,384 reached through the PAYLOAD (short topic),
    // for every QoS (the variable header differs by the 2 pid bytes)
    for boundary in [128usize, 16_384] {
        for rl in boundary - 6..=boundary + 4 {
            for qos_pid in [QosPid::Level0, QosPid::Level1(Pid::try_from(10).unwrap()), QosPid::Level2(Pid::try_from(11).unwrap())] {
                let vh = 2 + 3 + if qos_pid == QosPid::Level0 { 0 } else { 2 };
                if rl >= vh {
                    out.push(Packet::Publish(Publish { dup: false, retain: false, qos_pid, topic_name: TopicName::try_from("a/b".to_string()).unwrap(), payload: Bytes::from(vec![0x5a; rl - vh]) }));
                }
            }
        }
    }
    // SPARE CAPACITY (see sweep_v5)
    {
        let roomy = |t: &str| -> String {
            let mut r = String::with_capacity(70_000 + t.len());
            r.push_str(t);
            r
        };
        let mut pl = Vec::with_capacity(100_000);
        pl.extend_from_slice(b"payload");
        out.push(Packet::Publish(Publish { dup: false, retain: false, qos_pid: QosPid::Level0, topic_name: TopicName::try_from(roomy("a/b")).unwrap(), payload: Bytes::from(pl) }));
        out.push(Packet::Subscribe(Subscribe { pid: Pid::try_from(3).unwrap(), topics: vec![(TopicFilter::try_from(roomy("$share/g/a/+")).unwrap(), QoS::Level1), (TopicFilter::try_from(roomy("a/#")).unwrap(), QoS::Level0)] }));
        out.push(Packet::Connect(Connect { protocol: Protocol::V311, clean_session: true, keep_alive: 1, client_id: Arc::new(roomy("client")), last_will: None, username: Some(Arc::new(roomy("user"))), password: None }));
    }
    // COLLISION pairs (see `collisions`) next to each other wherever two texts meet
    for (a, b) in collisions() {
        let f = |s: &String| TopicFilter::try_from(s.clone()).unwrap();
        out.push(Packet::Subscribe(Subscribe { pid: Pid::try_from(6).unwrap(), topics: vec![(f(a), QoS::Level0), (f(b), QoS::Level1), (f(a), QoS::Level2)] }));
        out.push(Packet::Unsubscribe(Unsubscribe { pid: Pid::try_from(7).unwrap(), topics: vec![f(a), f(b)] }));
        out.push(Packet::Connect(Connect {
            protocol: Protocol::V311,
            clean_session: true,
            keep_alive: 9,
            client_id: Arc::new(a.clone()),
            last_will: Some(LastWill { qos: QoS::Level0, retain: false, topic_name: TopicName::try_from(b.clone()).unwrap(), message: Bytes::from(a.clone().into_bytes()) }),
            username: Some(Arc::new(b.clone())),
            password: Some(Bytes::from(a.clone().into_bytes())),
        }));
    }
    // payload lengths at the thresholds the code itself mentions (beyond the fully swept range)
    for n in numeric_literals().iter().cloned().filter(|n| *n > 8300 && *n <= 70_000).take(if thorough { 120 } else { 30 }) {
        for pl in [n - 1, n, n + 1] {
            out.push(Packet::Publish(Publish { dup: false, retain: false, qos_pid: QosPid::Level0, topic_name: name(1), payload: Bytes::from(vec![0x5a; pl]) }));
        }
    }
    // UNIFORM lengths: every text and binary field of a packet at the same length L at once (all fields
    // at their 3.1 maxima, all at 127, all at 256, …), every packet type
    let mut rng = Rng::new(0x5eed_0003);
    for l in uniform_lengths(thorough) {
        UNIFORM_LEN.with(|u| u.set(Some(l)));
        for t in 0..V3_TYPES {
            for _ in 0..2 {
                out.push(gen_v3(&mut rng, t, Sizes { big: false }));
            }
        }
        UNIFORM_LEN.with(|u| u.set(None));
    }
    out
}

fn uniform_lengths(thorough: bool) -> Vec<usize> {
    let mut v = vec![0usize, 1, 2, 3, 11, 12, 13, 22, 23, 24, 31, 32, 33, 63, 64, 65, 126, 127, 128, 129, 255, 256, 257];
    if thorough {
        v.extend([4, 5, 7, 8, 15, 16, 17, 47, 48, 95, 96, 191, 192, 511, 512, 513, 1023, 1024]);
    }
    v
}

pub fn sweep_v5(thorough: bool) -> Vec<v5::Packet> {
    use v5::*;
    let mut out = Vec::new();
    let name = |n: usize| TopicName::try_from("t".repeat(n)).unwrap();
    let users = |n: usize| -> Vec<UserProperty> { (0..n).map(|i| UserProperty { name: Arc::new(format!("k{}", i % 5)), value: Arc::new("v".to_string()) }).collect() };
    for l in sweep_lengths(thorough) {
        for pl in [0usize, 4095, 4096] {
            if l > 1000 && pl == 4095 {
                continue;
            }
            for qos_pid in [QosPid::Level0, QosPid::Level2(Pid::try_from(10).unwrap())] {
                out.push(Packet::Publish(Publish { dup: false, retain: false, qos_pid, topic_name: name(l), payload: Bytes::from(vec![0x5a; pl]), properties: Default::default() }));
            }
        }
        if l < 1000 {
            // a property section / reason string whose length crosses the boundary
            out.push(Packet::Disconnect(Disconnect { reason_code: DisconnectReasonCode::ServerBusy, properties: DisconnectProperties { reason_string: Some(Arc::new("r".repeat(l))), ..Default::default() } }));
            out.push(Packet::Puback(Puback { pid: Pid::try_from(9).unwrap(), reason_code: PubackReasonCode::Success, properties: PubackProperties { reason_string: Some(Arc::new("r".repeat(l))), user_properties: vec![] } }));
            out.push(Packet::Subscribe(Subscribe { pid: Pid::try_from(3).unwrap(), properties: Default::default(), topics: vec![(TopicFilter::try_from("f".repeat(l)).unwrap(), SubscriptionOptions::new(QoS::Level1))] }));
        }
    }
    for t in aligned_texts(thorough) {
        // a payload flagged as UTF-8 text, a topic, a reason string and a user property value
        let properties = PublishProperties { payload_is_utf8: Some(true), ..Default::default() };
        out.push(Packet::Publish(Publish { dup: false, retain: false, qos_pid: QosPid::Level0, topic_name: name(1), payload: Bytes::from(t.clone().into_bytes()), properties }));
        out.push(Packet::Publish(Publish { dup: false, retain: false, qos_pid: QosPid::Level0, topic_name: TopicName::try_from(t.clone()).unwrap(), payload: Bytes::new(), properties: Default::default() }));
        out.push(Packet::Disconnect(Disconnect {
            reason_code: DisconnectReasonCode::NormalDisconnect,
            properties: DisconnectProperties { reason_string: Some(Arc::new(t.clone())), user_properties: vec![UserProperty { name: Arc::new("k".into()), value: Arc::new(t) }], ..Default::default() },
        }));
    }
    // PROPERTY-SECTION widths for EVERY property struct (each has its own macro arm): user properties adding
    // up to exactly 126…129 and 16,382…16,385 bytes at each of the 14 property-carrying positions
    {
        let users_of = |total: usize| -> Vec<UserProperty> {
            let mut out = Vec::new();
            let mut left = total;
            while left >= 5 {
                let take = left.min(5 + 200 + 4000);
                let rest = left - take;
                let take = if rest > 0 && rest < 5 { take - 5 } else { take };
                let pl = take - 5;
                let a = pl.min(200);
                out.push(UserProperty { name: Arc::new("n".repeat(a)), value: Arc::new("v".repeat(pl - a)) });
                left -= take;
            }
            out
        };
        let pid = Pid::try_from(11).unwrap();
        for total in [126usize, 127, 128, 129, 16_382, 16_383, 16_384, 16_385] {
            let up = users_of(total);
            out.push(Packet::Connect(Connect { protocol: Protocol::V500, clean_start: true, keep_alive: 5, properties: ConnectProperties { user_properties: up.clone(), ..Default::default() }, client_id: Arc::new("c".into()), last_will: None, username: None, password: None }));
            out.push(Packet::Connect(Connect {
                protocol: Protocol::V500,
                clean_start: true,
                keep_alive: 5,
                properties: Default::default(),
                client_id: Arc::new("c".into()),
                last_will: Some(LastWill { qos: QoS::Level1, retain: false, topic_name: name(2), payload: Bytes::from(vec![1u8, 2]), properties: WillProperties { user_properties: up.clone(), ..Default::default() } }),
                username: None,
                password: None,
            }));
            out.push(Packet::Connack(Connack { session_present: false, reason_code: ConnectReasonCode::Success, properties: ConnackProperties { user_properties: up.clone(), ..Default::default() } }));
            out.push(Packet::Publish(Publish { dup: false, retain: false, qos_pid: QosPid::Level1(pid), topic_name: name(2), payload: Bytes::from(vec![9u8; 3]), properties: PublishProperties { user_properties: up.clone(), ..Default::default() } }));
            out.push(Packet::Puback(Puback { pid, reason_code: PubackReasonCode::Success, properties: PubackProperties { reason_string: None, user_properties: up.clone() } }));
            out.push(Packet::Pubrec(Pubrec { pid, reason_code: PubrecReasonCode::Success, properties: PubrecProperties { reason_string: None, user_properties: up.clone() } }));
            out.push(Packet::Pubrel(Pubrel { pid, reason_code: PubrelReasonCode::Success, properties: PubrelProperties { reason_string: None, user_properties: up.clone() } }));
            out.push(Packet::Pubcomp(Pubcomp { pid, reason_code: PubcompReasonCode::Success, properties: PubcompProperties { reason_string: None, user_properties: up.clone() } }));
            out.push(Packet::Subscribe(Subscribe { pid, properties: SubscribeProperties { subscription_id: None, user_properties: up.clone() }, topics: vec![(TopicFilter::try_from("a".to_string()).unwrap(), SubscriptionOptions::new(QoS::Level0))] }));
            out.push(Packet::Suback(Suback { pid, properties: SubackProperties { reason_string: None, user_properties: up.clone() }, topics: vec![SubscribeReasonCode::GrantedQoS1] }));
            out.push(Packet::Unsubscribe(Unsubscribe { pid, properties: UnsubscribeProperties { user_properties: up.clone() }, topics: vec![TopicFilter::try_from("a".to_string()).unwrap()] }));
            out.push(Packet::Unsuback(Unsuback { pid, properties: UnsubackProperties { reason_string: None, user_properties: up.clone() }, topics: vec![UnsubscribeReasonCode::Success] }));
            out.push(Packet::Disconnect(Disconnect { reason_code: DisconnectReasonCode::NormalDisconnect, properties: DisconnectProperties { user_properties: up.clone(), ..Default::default() } }));
            out.push(Packet::Auth(Auth { reason_code: AuthReasonCode::Success, properties: AuthProperties { user_properties: up, ..Default::default() } }));
        }
    }
    // ALIASING: the same Arc<String> allocation used for several fields / elements (what an application does
    // when it clones one name into many user properties); equal by value to the unaliased packet
    {
        let k = Arc::new("key".to_string());
        let v1 = Arc::new("v".to_string());
        let v2 = Arc::new("a much longer value than the first".to_string());
        let shared_names = vec![UserProperty { name: k.clone(), value: v1.clone() }, UserProperty { name: k.clone(), value: v2.clone() }, UserProperty { name: k.clone(), value: k.clone() }];
        let shared_values = vec![UserProperty { name: Arc::new("n1".into()), value: v2.clone() }, UserProperty { name: Arc::new("another name".into()), value: v2.clone() }, UserProperty { name: v2.clone(), value: v2.clone() }];
        for ups in [shared_names, shared_values] {
            out.push(Packet::Puback(Puback { pid: Pid::try_from(2).unwrap(), reason_code: PubackReasonCode::Success, properties: PubackProperties { reason_string: Some(k.clone()), user_properties: ups.clone() } }));
            out.push(Packet::Publish(Publish { dup: false, retain: false, qos_pid: QosPid::Level0, topic_name: name(2), payload: Bytes::new(), properties: PublishProperties { user_properties: ups.clone(), content_type: Some(k.clone()), ..Default::default() } }));
            out.push(Packet::Connect(Connect {
                protocol: Protocol::V500,
                clean_start: true,
                keep_alive: 0,
                properties: ConnectProperties { user_properties: ups.clone(), ..Default::default() },
                client_id: k.clone(),
                last_will: None,
                username: Some(k.clone()),
                password: None,
            }));
            out.push(Packet::Unsubscribe(Unsubscribe { pid: Pid::try_from(4).unwrap(), properties: UnsubscribeProperties { user_properties: ups }, topics: vec![TopicFilter::try_from("a".to_string()).unwrap()] }));
        }
        // the same `Bytes` buffer in two binary fields (an echo / RPC message: correlation data = payload)
        let buf = Bytes::from(vec![0x5au8; 9]);
        out.push(Packet::Publish(Publish { dup: false, retain: false, qos_pid: QosPid::Level0, topic_name: name(2), payload: buf.clone(), properties: PublishProperties { correlation_data: Some(buf.clone()), ..Default::default() } }));
        out.push(Packet::Connect(Connect {
            protocol: Protocol::V500,
            clean_start: true,
            keep_alive: 0,
            properties: ConnectProperties { auth_data: Some(buf.clone()), auth_method: Some(k.clone()), ..Default::default() },
            client_id: k.clone(),
            last_will: Some(LastWill { qos: QoS::Level0, retain: false, topic_name: name(2), payload: buf.clone(), properties: WillProperties { correlation_data: Some(buf.clone()), ..Default::default() } }),
            username: Some(k.clone()),
            password: Some(buf.clone()),
        }));
        out.push(Packet::Auth(Auth { reason_code: AuthReasonCode::ContinueAuthentication, properties: AuthProperties { auth_method: Some(k.clone()), auth_data: Some(buf), reason_string: Some(k.clone()), user_properties: vec![] } }));
    }
    for n in sweep_counts() {
        if n > 0 {
            let mut run = vec![SubscribeReasonCode::GrantedQoS1; n];
            run.push(SubscribeReasonCode::NotAuthorized);
            out.push(Packet::Suback(Suback { pid: Pid::try_from(5).unwrap(), properties: Default::default(), topics: run.clone() }));
            run.rotate_right(1);
            out.push(Packet::Suback(Suback { pid: Pid::try_from(5).unwrap(), properties: Default::default(), topics: run }));
            let mut runu = vec![UnsubscribeReasonCode::Success; n];
            runu.push(UnsubscribeReasonCode::NotAuthorized);
            out.push(Packet::Unsuback(Unsuback { pid: Pid::try_from(5).unwrap(), properties: Default::default(), topics: runu }));
        }
        out.push(Packet::Suback(Suback { pid: Pid::try_from(5).unwrap(), properties: Default::default(), topics: (0..n).map(|i| [SubscribeReasonCode::GrantedQoS0, SubscribeReasonCode::GrantedQoS2, SubscribeReasonCode::NotAuthorized][i % 3]).collect() }));
        out.push(Packet::Unsuback(Unsuback { pid: Pid::try_from(5).unwrap(), properties: Default::default(), topics: (0..n).map(|i| [UnsubscribeReasonCode::Success, UnsubscribeReasonCode::NoSubscriptionExisted][i % 2]).collect() }));
        if n > 1000 {
            continue; // (beyond 1000 only the one-byte-element lists)
        }
        out.push(Packet::Pubrec(Pubrec { pid: Pid::try_from(8).unwrap(), reason_code: PubrecReasonCode::Success, properties: PubrecProperties { reason_string: None, user_properties: users(n) } }));
        if n > 0 {
            out.push(Packet::Subscribe(Subscribe { pid: Pid::try_from(6).unwrap(), properties: Default::default(), topics: (0..n).map(|i| (TopicFilter::try_from(format!("a/{}", i % 7)).unwrap(), SubscriptionOptions::new(QoS::Level2))).collect() }));
            out.push(Packet::Unsubscribe(Unsubscribe { pid: Pid::try_from(7).unwrap(), properties: Default::default(), topics: (0..n).map(|_| TopicFilter::try_from("same/+".to_string()).unwrap()).collect() }));
        }
    }
    // the REMAINING LENGTH on either side of 127/128 and 16,383/16,384 reached through the PAYLOAD (see sweep_v3)
    for boundary in [128usize, 16_384] {
        for rl in boundary - 6..=boundary + 4 {
            for qos_pid in [QosPid::Level0, QosPid::Level1(Pid::try_from(10).unwrap()), QosPid::Level2(Pid::try_from(11).unwrap())] {
                let vh = 2 + 3 + 1 + if qos_pid == QosPid::Level0 { 0 } else { 2 };
                if rl >= vh {
                    out.push(Packet::Publish(Publish { dup: false, retain: false, qos_pid, topic_name: TopicName::try_from("a/b".to_string()).unwrap(), payload: Bytes::from(vec![0x5a; rl - vh]), properties: Default::default() }));
                }
            }
        }
    }
    // several LARGE parts at once: payload × property section × topic (a head assembled in a fixed buffer, a
    // threshold on one part that forgets another)
    for pl in [1_024usize, 32_767, 32_768, 40_000] {
        for props in [0usize, 100, 900, 1_100, 5_000] {
            for tl in [1usize, 1_014, 1_015, 3_000] {
                if (props == 0 && tl == 1) || (tl == 3_000 && props == 100) {
                    continue;
                }
                let mut ups = Vec::new();
                let mut left = props;
                while left >= 5 {
                    let take = left.min(5 + 600);
                    ups.push(UserProperty { name: Arc::new("k".repeat((take - 5) / 2)), value: Arc::new("v".repeat(take - 5 - (take - 5) / 2)) });
                    left -= take;
                }
                out.push(Packet::Publish(Publish { dup: false, retain: true, qos_pid: QosPid::Level1(Pid::try_from(12).unwrap()), topic_name: name(tl), payload: Bytes::from(vec![0x5a; pl]), properties: PublishProperties { user_properties: ups, ..Default::default() } }));
            }
        }
    }
    // SPARE CAPACITY: the same values in allocations much larger than their contents (a String grown by pushes, a
    // Vec pre-allocated for the largest message): nothing may depend on capacity()
    {
        let roomy = |t: &str| -> String {
            let mut r = String::with_capacity(70_000 + t.len());
            r.push_str(t);
            r
        };
        let mut pl = Vec::with_capacity(100_000);
        pl.extend_from_slice(b"payload");
        out.push(Packet::Publish(Publish { dup: false, retain: false, qos_pid: QosPid::Level0, topic_name: TopicName::try_from(roomy("a/b")).unwrap(), payload: Bytes::from(pl), properties: PublishProperties { content_type: Some(Arc::new(roomy("text/plain"))), user_properties: vec![UserProperty { name: Arc::new(roomy("k")), value: Arc::new(roomy("v")) }], ..Default::default() } }));
        out.push(Packet::Subscribe(Subscribe { pid: Pid::try_from(3).unwrap(), properties: Default::default(), topics: vec![(TopicFilter::try_from(roomy("$share/g/a/+")).unwrap(), SubscriptionOptions::new(QoS::Level1)), (TopicFilter::try_from(roomy("a/#")).unwrap(), SubscriptionOptions::new(QoS::Level0))] }));
        out.push(Packet::Connect(Connect { protocol: Protocol::V500, clean_start: true, keep_alive: 1, properties: Default::default(), client_id: Arc::new(roomy("client")), last_will: None, username: Some(Arc::new(roomy("user"))), password: None }));
    }
    // COLLISION pairs (see `collisions`) next to each other wherever two texts meet
    for (a, b) in collisions() {
        let f = |s: &String| TopicFilter::try_from(s.clone()).unwrap();
        let (aa, ab) = (Arc::new(a.clone()), Arc::new(b.clone()));
        let x = Arc::new("x".to_string());
        let keys = vec![UserProperty { name: aa.clone(), value: x.clone() }, UserProperty { name: ab.clone(), value: x.clone() }, UserProperty { name: aa.clone(), value: ab.clone() }];
        let values = vec![UserProperty { name: x.clone(), value: aa.clone() }, UserProperty { name: x.clone(), value: ab.clone() }];
        for ups in [keys, values] {
            out.push(Packet::Puback(Puback { pid: Pid::try_from(2).unwrap(), reason_code: PubackReasonCode::Success, properties: PubackProperties { reason_string: Some(ab.clone()), user_properties: ups.clone() } }));
            out.push(Packet::Publish(Publish { dup: false, retain: false, qos_pid: QosPid::Level0, topic_name: TopicName::try_from(a.clone()).unwrap(), payload: Bytes::new(), properties: PublishProperties { user_properties: ups.clone(), response_topic: Some(TopicName::try_from(b.clone()).unwrap()), content_type: Some(ab.clone()), ..Default::default() } }));
            out.push(Packet::Unsubscribe(Unsubscribe { pid: Pid::try_from(4).unwrap(), properties: UnsubscribeProperties { user_properties: ups.clone() }, topics: vec![f(a), f(b)] }));
            out.push(Packet::Subscribe(Subscribe { pid: Pid::try_from(4).unwrap(), properties: SubscribeProperties { subscription_id: None, user_properties: ups.clone() }, topics: vec![(f(a), SubscriptionOptions::new(QoS::Level0)), (f(b), SubscriptionOptions::new(QoS::Level1))] }));
            out.push(Packet::Connect(Connect {
                protocol: Protocol::V500,
                clean_start: true,
                keep_alive: 0,
                properties: ConnectProperties { user_properties: ups.clone(), auth_method: Some(aa.clone()), ..Default::default() },
                client_id: aa.clone(),
                last_will: Some(LastWill { qos: QoS::Level0, retain: false, topic_name: TopicName::try_from(b.clone()).unwrap(), payload: Bytes::from(a.clone().into_bytes()), properties: WillProperties { user_properties: ups, content_type: Some(aa.clone()), response_topic: Some(TopicName::try_from(a.clone()).unwrap()), ..Default::default() } }),
                username: Some(ab.clone()),
                password: Some(Bytes::from(b.clone().into_bytes())),
            }));
        }
    }
    // SELF-DESCRIBING packets: a text field that repeats the rendering of another field of the same packet (the
    // reason string equal to the Debug name of the reason code, in full and as the only property)
    {
        let pid = Pid::try_from(12).unwrap();
        let rs = |d: String, users: bool| -> (Option<Arc<String>>, Vec<UserProperty>) {
            let d = Arc::new(d);
            (Some(d.clone()), if users { vec![UserProperty { name: d.clone(), value: d }] } else { vec![] })
        };
        for users in [false, true] {
            for c in v5text::CONNECT_RC {
                let (reason_string, user_properties) = rs(format!("{:?}", c), users);
                out.push(Packet::Connack(Connack { session_present: false, reason_code: c, properties: ConnackProperties { reason_string, user_properties, ..Default::default() } }));
            }
            for c in v5text::DISCONNECT_RC {
                let (reason_string, user_properties) = rs(format!("{:?}", c), users);
                out.push(Packet::Disconnect(Disconnect { reason_code: c, properties: DisconnectProperties { reason_string, user_properties, ..Default::default() } }));
            }
            for c in v5text::AUTH_RC {
                let (reason_string, user_properties) = rs(format!("{:?}", c), users);
                out.push(Packet::Auth(Auth { reason_code: c, properties: AuthProperties { reason_string, user_properties, ..Default::default() } }));
            }
            for c in v5text::PUBACK_RC {
                let (reason_string, user_properties) = rs(format!("{:?}", c), users);
                out.push(Packet::Puback(Puback { pid, reason_code: c, properties: PubackProperties { reason_string, user_properties } }));
            }
            for c in v5text::PUBREC_RC {
                let (reason_string, user_properties) = rs(format!("{:?}", c), users);
                out.push(Packet::Pubrec(Pubrec { pid, reason_code: c, properties: PubrecProperties { reason_string, user_properties } }));
            }
            for c in v5text::PUBREL_RC {
                let (reason_string, user_properties) = rs(format!("{:?}", c), users);
                out.push(Packet::Pubrel(Pubrel { pid, reason_code: c, properties: PubrelProperties { reason_string, user_properties } }));
            }
            for c in v5text::PUBCOMP_RC {
                let (reason_string, user_properties) = rs(format!("{:?}", c), users);
                out.push(Packet::Pubcomp(Pubcomp { pid, reason_code: c, properties: PubcompProperties { reason_string, user_properties } }));
            }
            for c in v5text::SUBSCRIBE_RC {
                let (reason_string, user_properties) = rs(format!("{:?}", c), users);
                out.push(Packet::Suback(Suback { pid, properties: SubackProperties { reason_string, user_properties }, topics: vec![c] }));
            }
            for c in v5text::UNSUBSCRIBE_RC {
                let (reason_string, user_properties) = rs(format!("{:?}", c), users);
                out.push(Packet::Unsuback(Unsuback { pid, properties: UnsubackProperties { reason_string, user_properties }, topics: vec![c] }));
            }
        }
    }
    // every property ALONE with each of its SPECIAL values (zero, one, the maximum, the empty text / data — often
    // the protocol's default, which a "don't send defaults" clean-up would drop), at every position, crossed with
    // the reason codes that select a short form
    {
        let specials = |id: u8| -> Vec<Val> {
            match kind_char(id) {
                'b' | 'q' => vec![Val::Byte(0), Val::Byte(1)],
                'h' => vec![Val::U16(0), Val::U16(1), Val::U16(65_535)],
                'w' => vec![Val::U32(0), Val::U32(1), Val::U32(u32::MAX)],
                's' => vec![Val::Str(String::new()), Val::Str("a".into())],
                't' => vec![Val::Str("a".into())],
                'y' => vec![Val::Bin(vec![]), Val::Bin(vec![0])],
                _ => vec![Val::VarInt(0), Val::VarInt(1), Val::VarInt(268_435_455)],
            }
        };
        let single = |id: u8, v: Val| -> PMap {
            let mut m = PMap::default();
            m.known.insert(id, v);
            m
        };
        let pid = Pid::try_from(14).unwrap();
        for id in v5text::PUBLISH_IDS {
            for v in specials(id) {
                let m = single(id, v);
                for topic in ["", "t"] {
                    out.push(Packet::Publish(Publish { dup: false, retain: false, qos_pid: QosPid::Level0, topic_name: TopicName::try_from(topic.to_string()).unwrap(), payload: Bytes::from(&b"p"[..]), properties: v5text::mk_publish_props(&m) }));
                }
            }
        }
        for id in v5text::CONNECT_IDS {
            for v in specials(id) {
                let m = single(id, v);
                out.push(Packet::Connect(Connect { protocol: Protocol::V500, clean_start: false, keep_alive: 0, properties: v5text::mk_connect_props(&m), client_id: Arc::new(String::new()), last_will: None, username: None, password: None }));
            }
        }
        for id in v5text::WILL_IDS {
            for v in specials(id) {
                let m = single(id, v);
                out.push(Packet::Connect(Connect {
                    protocol: Protocol::V500,
                    clean_start: false,
                    keep_alive: 0,
                    properties: Default::default(),
                    client_id: Arc::new(String::new()),
                    last_will: Some(LastWill { qos: QoS::Level0, retain: false, topic_name: name(1), payload: Bytes::new(), properties: v5text::mk_will_props(&m) }),
                    username: None,
                    password: None,
                }));
            }
        }
        for id in v5text::CONNACK_IDS {
            for v in specials(id) {
                let m = single(id, v);
                out.push(Packet::Connack(Connack { session_present: false, reason_code: ConnectReasonCode::Success, properties: v5text::mk_connack_props(&m) }));
            }
        }
        for id in v5text::DISCONNECT_IDS {
            for v in specials(id) {
                let m = single(id, v);
                for reason_code in [DisconnectReasonCode::NormalDisconnect, DisconnectReasonCode::ServerBusy] {
                    out.push(Packet::Disconnect(Disconnect { reason_code, properties: v5text::mk_disconnect_props(&m) }));
                }
            }
        }
        for id in v5text::AUTH_IDS {
            for v in specials(id) {
                let m = single(id, v);
                for reason_code in v5text::AUTH_RC {
                    out.push(Packet::Auth(Auth { reason_code, properties: v5text::mk_auth_props(&m) }));
                }
            }
        }
        for v in specials(0x0b) {
            let m = single(0x0b, v);
            out.push(Packet::Subscribe(Subscribe { pid, properties: v5text::mk_subscribe_props(&m), topics: vec![(TopicFilter::try_from("a".to_string()).unwrap(), SubscriptionOptions::new(QoS::Level0))] }));
        }
        for rs in [None, Some(""), Some("a")] {
            for users in [0usize, 1] {
                let reason_string = rs.map(|r| Arc::new(r.to_string()));
                let user_properties: Vec<UserProperty> = (0..users).map(|_| UserProperty { name: Arc::new(String::new()), value: Arc::new(String::new()) }).collect();
                for first in [true, false] {
                    out.push(Packet::Puback(Puback { pid, reason_code: if first { PubackReasonCode::Success } else { PubackReasonCode::NoMatchingSubscribers }, properties: PubackProperties { reason_string: reason_string.clone(), user_properties: user_properties.clone() } }));
                    out.push(Packet::Pubrec(Pubrec { pid, reason_code: if first { PubrecReasonCode::Success } else { PubrecReasonCode::NoMatchingSubscribers }, properties: PubrecProperties { reason_string: reason_string.clone(), user_properties: user_properties.clone() } }));
                    out.push(Packet::Pubrel(Pubrel { pid, reason_code: if first { PubrelReasonCode::Success } else { PubrelReasonCode::PacketIdentifierNotFound }, properties: PubrelProperties { reason_string: reason_string.clone(), user_properties: user_properties.clone() } }));
                    out.push(Packet::Pubcomp(Pubcomp { pid, reason_code: if first { PubcompReasonCode::Success } else { PubcompReasonCode::PacketIdentifierNotFound }, properties: PubcompProperties { reason_string: reason_string.clone(), user_properties: user_properties.clone() } }));
                    out.push(Packet::Suback(Suback { pid, properties: SubackProperties { reason_string: reason_string.clone(), user_properties: user_properties.clone() }, topics: if first { vec![] } else { vec![SubscribeReasonCode::GrantedQoS0] } }));
                    out.push(Packet::Unsuback(Unsuback { pid, properties: UnsubackProperties { reason_string: reason_string.clone(), user_properties: user_properties.clone() }, topics: if first { vec![] } else { vec![UnsubscribeReasonCode::Success] } }));
                    out.push(Packet::Disconnect(Disconnect { reason_code: if first { DisconnectReasonCode::NormalDisconnect } else { DisconnectReasonCode::ServerBusy }, properties: DisconnectProperties { reason_string: reason_string.clone(), user_properties: user_properties.clone(), ..Default::default() } }));
                    out.push(Packet::Auth(Auth { reason_code: if first { AuthReasonCode::Success } else { AuthReasonCode::ReAuthentication }, properties: AuthProperties { reason_string: reason_string.clone(), user_properties: user_properties.clone(), ..Default::default() } }));
                }
            }
        }
    }
    // every PAIR of properties present alone (mode 5), at every property-carrying position; PUBLISH with an
    // empty and a non-empty topic (an empty topic + Topic Alias is the one legal use of the empty name)
    {
        let mut rng = Rng::new(0x5eed_0055);
        let sz = Sizes { big: false };
        let pid = Pid::try_from(13).unwrap();
        let pairs = |n: usize| -> Vec<usize> { (0..n).flat_map(|i| (i + 1..n).map(move |j| i * n + j)).collect() };
        for one in pairs(v5text::PUBLISH_IDS.len()) {
            for topic in ["", "t"] {
                let m = gen_props(&mut rng, &v5text::PUBLISH_IDS, sz, 5, one);
                let payload = payload_for(&mut rng, &m, sz);
                for qos_pid in [QosPid::Level0, QosPid::Level1(pid)] {
                    out.push(Packet::Publish(Publish { dup: false, retain: false, qos_pid, topic_name: TopicName::try_from(topic.to_string()).unwrap(), payload: Bytes::from(payload.clone()), properties: v5text::mk_publish_props(&m) }));
                }
            }
        }
        for one in pairs(v5text::CONNECT_IDS.len()) {
            let m = gen_props(&mut rng, &v5text::CONNECT_IDS, sz, 5, one);
            out.push(Packet::Connect(Connect { protocol: Protocol::V500, clean_start: false, keep_alive: 3, properties: v5text::mk_connect_props(&m), client_id: Arc::new("c".into()), last_will: None, username: None, password: None }));
        }
        for one in pairs(v5text::WILL_IDS.len()) {
            let m = gen_props(&mut rng, &v5text::WILL_IDS, sz, 5, one);
            let payload = payload_for(&mut rng, &m, sz);
            out.push(Packet::Connect(Connect {
                protocol: Protocol::V500,
                clean_start: false,
                keep_alive: 3,
                properties: Default::default(),
                client_id: Arc::new("c".into()),
                last_will: Some(LastWill { qos: QoS::Level1, retain: true, topic_name: name(1), payload: Bytes::from(payload), properties: v5text::mk_will_props(&m) }),
                username: None,
                password: None,
            }));
        }
        for one in pairs(v5text::CONNACK_IDS.len()) {
            let m = gen_props(&mut rng, &v5text::CONNACK_IDS, sz, 5, one);
            out.push(Packet::Connack(Connack { session_present: true, reason_code: ConnectReasonCode::Success, properties: v5text::mk_connack_props(&m) }));
        }
        for one in pairs(v5text::DISCONNECT_IDS.len()) {
            let m = gen_props(&mut rng, &v5text::DISCONNECT_IDS, sz, 5, one);
            out.push(Packet::Disconnect(Disconnect { reason_code: DisconnectReasonCode::ServerMoved, properties: v5text::mk_disconnect_props(&m) }));
        }
        for one in pairs(v5text::AUTH_IDS.len()) {
            let m = gen_props(&mut rng, &v5text::AUTH_IDS, sz, 5, one);
            out.push(Packet::Auth(Auth { reason_code: AuthReasonCode::ContinueAuthentication, properties: v5text::mk_auth_props(&m) }));
        }
    }
    for n in numeric_literals().iter().cloned().filter(|n| *n > 8300 && *n <= 70_000).take(if thorough { 120 } else { 30 }) {
        for pl in [n - 1, n, n + 1] {
            out.push(Packet::Publish(Publish { dup: false, retain: false, qos_pid: QosPid::Level0, topic_name: name(1), payload: Bytes::from(vec![0x5a; pl]), properties: Default::default() }));
        }
    }
    let mut rng = Rng::new(0x5eed_0005);
    for l in uniform_lengths(thorough) {
        UNIFORM_LEN.with(|u| u.set(Some(l)));
        for t in 0..V5_TYPES {
            for pmode in [1u8, 0] {
                out.push(gen_v5(&mut rng, t, Sizes { big: false }, pmode, l + t));
            }
        }
        UNIFORM_LEN.with(|u| u.set(None));
    }
    out
}
