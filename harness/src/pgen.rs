//! Type-directed generators of packet values (valid domain and just outside it).

use crate::report::Rng;
use bytes::Bytes;
use mqtt_proto::v3;
use mqtt_proto::{Pid, Protocol, QoS, QosPid, TopicFilter, TopicName};
use std::convert::TryFrom;
use std::sync::Arc;

pub const CHARS: [&str; 12] = ["a", "b", "z", "0", " ", "/", "$", "é", "你", "😀", "\u{7f}", "\u{0}"];
pub const TOPIC_CHARS: [&str; 8] = ["a", "b", "0", " ", "$", "é", "你", "😀"];

#[derive(Clone, Copy)]
pub struct Sizes {
    pub big: bool,
}

pub fn pick_len(rng: &mut Rng, sz: Sizes) -> usize {
    let r = rng.below(100);
    if r < 70 {
        rng.below(12) as usize
    } else if r < 90 {
        *rng.pick(&[0usize, 1, 2, 126, 127, 128, 129, 200])
    } else if sz.big {
        *rng.pick(&[16382usize, 16383, 16384, 16385, 65534, 65535, 1000, 40000])
    } else {
        *rng.pick(&[0usize, 1, 255, 256, 300])
    }
}

/// valid UTF-8 text of exactly (about) `len` bytes (never more)
pub fn text_of_len(rng: &mut Rng, len: usize, alphabet: &[&str]) -> String {
    let mut s = String::new();
    while s.len() < len {
        let c = *rng.pick(alphabet);
        if s.len() + c.len() <= len {
            s.push_str(c);
        } else {
            s.push('a');
        }
    }
    s
}

pub fn gen_text(rng: &mut Rng, sz: Sizes) -> String {
    let len = pick_len(rng, sz);
    text_of_len(rng, len, &CHARS)
}

pub fn gen_bytes(rng: &mut Rng, sz: Sizes) -> Vec<u8> {
    let len = pick_len(rng, sz);
    let mode = rng.below(3);
    (0..len)
        .map(|i| match mode {
            0 => rng.next() as u8,
            1 => b'a' + (i % 26) as u8,
            _ => *rng.pick(&[0u8, 0x7f, 0x80, 0xff, 0xc3]),
        })
        .collect()
}

pub fn gen_topic_name(rng: &mut Rng, sz: Sizes) -> TopicName {
    let s = if rng.chance(1, 12) {
        let len = pick_len(rng, sz);
        text_of_len(rng, len, &TOPIC_CHARS)
    } else {
        let levels = rng.below(5);
        let mut s = String::new();
        if rng.chance(1, 10) {
            s.push_str(*rng.pick(&["$SYS/", "$share/", "/"]));
        }
        for i in 0..levels {
            if i > 0 {
                s.push('/');
            }
            let l = rng.below(4) as usize;
            s.push_str(&text_of_len(rng, l, &TOPIC_CHARS));
        }
        s
    };
    TopicName::try_from(s).expect("generated topic name is valid")
}

pub fn gen_topic_filter(rng: &mut Rng, sz: Sizes) -> TopicFilter {
    loop {
        let mut s = String::new();
        if rng.chance(1, 5) {
            s.push_str("$share/");
            let l = 1 + rng.below(4) as usize;
            s.push_str(&text_of_len(rng, l, &TOPIC_CHARS));
            s.push('/');
        }
        if rng.chance(1, 15) {
            let len = pick_len(rng, sz).max(1).min(65535 - s.len());
            s.push_str(&text_of_len(rng, len, &TOPIC_CHARS));
        } else {
            let levels = 1 + rng.below(4);
            for i in 0..levels {
                if i > 0 {
                    s.push('/');
                }
                match rng.below(6) {
                    0 => s.push('+'),
                    1 if i + 1 == levels => s.push('#'),
                    2 => {}
                    _ => {
                        let l = 1 + rng.below(3) as usize;
                        s.push_str(&text_of_len(rng, l, &TOPIC_CHARS));
                    }
                }
            }
        }
        if let Ok(f) = TopicFilter::try_from(s) {
            return f;
        }
    }
}

pub fn gen_pid(rng: &mut Rng) -> Pid {
    let v = match rng.below(6) {
        0 => 1,
        1 => 65535,
        2 => 256,
        3 => 255,
        _ => 1 + rng.below(65535) as u16,
    };
    Pid::try_from(v).unwrap()
}

pub fn gen_qos(rng: &mut Rng) -> QoS {
    *rng.pick(&[QoS::Level0, QoS::Level1, QoS::Level2])
}

pub fn gen_qos_pid(rng: &mut Rng) -> QosPid {
    match rng.below(3) {
        0 => QosPid::Level0,
        1 => QosPid::Level1(gen_pid(rng)),
        _ => QosPid::Level2(gen_pid(rng)),
    }
}

pub const V3_TYPES: usize = 14;

/// a valid v3 packet of type index `t` (0..14)
pub fn gen_v3(rng: &mut Rng, t: usize, sz: Sizes) -> v3::Packet {
    use v3::*;
    match t {
        0 => {
            let last_will = if rng.chance(1, 2) {
                Some(LastWill { qos: gen_qos(rng), retain: rng.chance(1, 2), topic_name: gen_topic_name(rng, sz), message: Bytes::from(gen_bytes(rng, sz)) })
            } else {
                None
            };
            Packet::Connect(Connect {
                protocol: *rng.pick(&[Protocol::V310, Protocol::V311]),
                clean_session: rng.chance(1, 2),
                keep_alive: *rng.pick(&[0u16, 1, 60, 255, 256, 65535]),
                client_id: Arc::new(gen_text(rng, sz)),
                last_will,
                username: if rng.chance(1, 2) { Some(Arc::new(gen_text(rng, sz))) } else { None },
                password: if rng.chance(1, 2) { Some(Bytes::from(gen_bytes(rng, sz))) } else { None },
            })
        }
        1 => Packet::Connack(Connack {
            session_present: rng.chance(1, 2),
            code: *rng.pick(&[
                ConnectReturnCode::Accepted,
                ConnectReturnCode::UnacceptableProtocolVersion,
                ConnectReturnCode::IdentifierRejected,
                ConnectReturnCode::ServerUnavailable,
                ConnectReturnCode::BadUserNameOrPassword,
                ConnectReturnCode::NotAuthorized,
            ]),
        }),
        2 => Packet::Publish(Publish { dup: rng.chance(1, 2), retain: rng.chance(1, 2), qos_pid: gen_qos_pid(rng), topic_name: gen_topic_name(rng, sz), payload: Bytes::from(gen_bytes(rng, sz)) }),
        3 => Packet::Puback(gen_pid(rng)),
        4 => Packet::Pubrec(gen_pid(rng)),
        5 => Packet::Pubrel(gen_pid(rng)),
        6 => Packet::Pubcomp(gen_pid(rng)),
        7 => {
            let n = 1 + rng.below(4) as usize;
            Packet::Subscribe(Subscribe { pid: gen_pid(rng), topics: (0..n).map(|_| (gen_topic_filter(rng, sz), gen_qos(rng))).collect() })
        }
        8 => {
            let n = rng.below(5) as usize;
            Packet::Suback(Suback {
                pid: gen_pid(rng),
                topics: (0..n).map(|_| *rng.pick(&[SubscribeReturnCode::MaxLevel0, SubscribeReturnCode::MaxLevel1, SubscribeReturnCode::MaxLevel2, SubscribeReturnCode::Failure])).collect(),
            })
        }
        9 => {
            let n = 1 + rng.below(4) as usize;
            Packet::Unsubscribe(Unsubscribe { pid: gen_pid(rng), topics: (0..n).map(|_| gen_topic_filter(rng, sz)).collect() })
        }
        10 => Packet::Unsuback(gen_pid(rng)),
        11 => Packet::Pingreq,
        12 => Packet::Pingresp,
        _ => Packet::Disconnect,
    }
}

/// structure-aware corruptions of a valid encoding
pub fn mutate(rng: &mut Rng, enc: &[u8]) -> Vec<u8> {
    let mut v = enc.to_vec();
    if v.is_empty() {
        return vec![rng.next() as u8];
    }
    match rng.below(12) {
        0 => {
            let i = rng.below(v.len() as u64) as usize;
            v[i] ^= 1 << rng.below(8);
        }
        1 => {
            let i = rng.below(v.len() as u64) as usize;
            v[i] = rng.next() as u8;
        }
        2 => {
            let k = rng.below(v.len() as u64 + 1) as usize;
            v.truncate(k);
        }
        3 => {
            for _ in 0..(1 + rng.below(4)) {
                v.push(rng.next() as u8);
            }
        }
        4 => {
            // remaining-length edits
            if v.len() > 1 {
                v[1] = match rng.below(5) {
                    0 => v[1].wrapping_add(1),
                    1 => v[1].wrapping_sub(1),
                    2 => 0,
                    3 => 0x7f,
                    _ => v[1].wrapping_mul(2),
                };
            }
        }
        5 => {
            // maximal remaining length with a short body
            let tail: Vec<u8> = v.iter().skip(2).cloned().collect();
            v.truncate(1);
            v.extend_from_slice(&[0xff, 0xff, 0xff, 0x7f]);
            v.extend(tail);
        }
        6 => {
            // non-minimal remaining length
            if v.len() > 1 && v[1] < 0x80 {
                let l = v[1];
                v[1] = l | 0x80;
                v.insert(2, 0);
            }
        }
        7 => {
            // delete a byte
            let i = rng.below(v.len() as u64) as usize;
            v.remove(i);
        }
        8 => {
            // duplicate a slice
            let i = rng.below(v.len() as u64) as usize;
            let j = i + rng.below((v.len() - i) as u64 + 1) as usize;
            let sl: Vec<u8> = v[i..j].to_vec();
            let at = rng.below(v.len() as u64 + 1) as usize;
            for (k, b) in sl.into_iter().enumerate() {
                v.insert(at + k, b);
            }
        }
        9 => {
            // set a byte to an "interesting" value
            let i = rng.below(v.len() as u64) as usize;
            v[i] = *rng.pick(&[0u8, 1, 2, 3, 0x7f, 0x80, 0xff, 0x26, 0x0b, 0x2b, 0x23]);
        }
        10 => {
            // change control byte flags / type
            v[0] = if rng.chance(1, 2) { v[0] ^ (1 << rng.below(4)) } else { (rng.next() as u8 & 0xf0) | (v[0] & 0x0f) };
        }
        _ => {
            // zero a u16 (e.g. pid / length)
            if v.len() > 3 {
                let i = 2 + rng.below((v.len() - 3) as u64) as usize;
                v[i] = 0;
                v[i + 1] = 0;
            }
        }
    }
    v
}

/// a random schedule for a stream of `n` bytes
pub fn gen_sched(rng: &mut Rng, n: usize) -> String {
    let mut items = Vec::new();
    let mut left = n as i64 + 2;
    while left > 0 && items.len() < 60 {
        match rng.below(10) {
            0 | 1 => items.push("p".to_string()),
            2 => items.push("d".to_string()),
            _ => {
                let m = *rng.pick(&[1u64, 2, 3, 8, 64, 5000]);
                let c = 1 + rng.below(m);
                items.push(format!("c{}", c));
                left -= c as i64;
            }
        }
    }
    if items.is_empty() {
        "-".into()
    } else {
        items.join(",")
    }
}

/// all compositions of n into chunk sizes (n ≥ 1): 2^(n-1) schedules
pub fn compositions(n: usize) -> Vec<Vec<usize>> {
    let mut out = Vec::new();
    for mask in 0..(1u32 << (n - 1)) {
        let mut parts = Vec::new();
        let mut cur = 1;
        for i in 0..(n - 1) {
            if (mask >> i) & 1 == 1 {
                parts.push(cur);
                cur = 1;
            } else {
                cur += 1;
            }
        }
        parts.push(cur);
        out.push(parts);
    }
    out
}
