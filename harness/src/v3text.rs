//! Flat text form of v3 packets (same as `Mqtt/V3/Text.lean`) and its parser.

use crate::fmt::*;
use bytes::Bytes;
use mqtt_proto::v3::*;
use mqtt_proto::{Pid, Protocol, QoS, QosPid, TopicFilter, TopicName};
use std::convert::TryFrom;
use std::sync::Arc;

pub fn b01(b: bool) -> &'static str {
    if b {
        "1"
    } else {
        "0"
    }
}

pub fn opt_hex(o: Option<&[u8]>) -> String {
    match o {
        None => "~".into(),
        Some(b) => hex_or_dash(b),
    }
}

pub fn level(p: Protocol) -> u8 {
    match p {
        Protocol::V310 => 3,
        Protocol::V311 => 4,
        Protocol::V500 => 5,
    }
}

pub fn show_qos_pid(q: QosPid) -> String {
    match q {
        QosPid::Level0 => "0 ~".into(),
        QosPid::Level1(p) => format!("1 {}", p.value()),
        QosPid::Level2(p) => format!("2 {}", p.value()),
    }
}

pub fn show(p: &Packet) -> String {
    match p {
        Packet::Connect(c) => {
            let will = match &c.last_will {
                None => "~".to_string(),
                Some(w) => format!("w:{}:{}:{}:{}", w.qos as u8, b01(w.retain), hex_or_dash(w.topic_name.as_bytes()), hex_or_dash(&w.message)),
            };
            format!(
                "connect {} {} {} {} {} {} {}",
                level(c.protocol),
                b01(c.clean_session),
                c.keep_alive,
                hex_or_dash(c.client_id.as_bytes()),
                will,
                opt_hex(c.username.as_ref().map(|s| s.as_bytes())),
                opt_hex(c.password.as_ref().map(|b| b.as_ref()))
            )
        }
        Packet::Connack(c) => format!("connack {} {}", b01(c.session_present), c.code as u8),
        Packet::Publish(p) => format!("publish {} {} {} {} {}", b01(p.dup), b01(p.retain), show_qos_pid(p.qos_pid), hex_or_dash(p.topic_name.as_bytes()), hex_or_dash(&p.payload)),
        Packet::Puback(p) => format!("puback {}", p.value()),
        Packet::Pubrec(p) => format!("pubrec {}", p.value()),
        Packet::Pubrel(p) => format!("pubrel {}", p.value()),
        Packet::Pubcomp(p) => format!("pubcomp {}", p.value()),
        Packet::Unsuback(p) => format!("unsuback {}", p.value()),
        Packet::Subscribe(s) => {
            let mut o = format!("subscribe {} {}", s.pid.value(), s.topics.len());
            for (f, q) in &s.topics {
                o.push_str(&format!(" {}:{}", hex_or_dash(f.as_bytes()), *q as u8));
            }
            o
        }
        Packet::Suback(s) => {
            let mut o = format!("suback {} {}", s.pid.value(), s.topics.len());
            for c in &s.topics {
                o.push_str(&format!(" {}", *c as u8));
            }
            o
        }
        Packet::Unsubscribe(u) => {
            let mut o = format!("unsubscribe {} {}", u.pid.value(), u.topics.len());
            for f in &u.topics {
                o.push_str(&format!(" {}", hex_or_dash(f.as_bytes())));
            }
            o
        }
        Packet::Pingreq => "pingreq".into(),
        Packet::Pingresp => "pingresp".into(),
        Packet::Disconnect => "disconnect".into(),
    }
}

pub enum Build<T> {
    Ok(T),
    Unconstructible(&'static str),
    Syntax,
}

macro_rules! tri {
    ($e:expr) => {
        match $e {
            Build::Ok(v) => v,
            Build::Unconstructible(w) => return Build::Unconstructible(w),
            Build::Syntax => return Build::Syntax,
        }
    };
}
pub(crate) use tri;

pub fn of_opt<T>(o: Option<T>) -> Build<T> {
    match o {
        Some(v) => Build::Ok(v),
        None => Build::Syntax,
    }
}

pub fn parse_bool(s: &str) -> Build<bool> {
    match s {
        "0" => Build::Ok(false),
        "1" => Build::Ok(true),
        _ => Build::Syntax,
    }
}

pub fn parse_pid(s: &str) -> Build<Pid> {
    match s.parse::<u16>() {
        Err(_) => Build::Syntax,
        Ok(v) => match Pid::try_from(v) {
            Ok(p) => Build::Ok(p),
            Err(_) => Build::Unconstructible("pid0"),
        },
    }
}

pub fn mk_text(s: &str) -> Build<String> {
    match unhex(s) {
        None => Build::Syntax,
        Some(b) => match String::from_utf8(b) {
            Ok(s) => Build::Ok(s),
            Err(_) => Build::Unconstructible("string"),
        },
    }
}

pub fn mk_topic_name(s: String) -> Build<TopicName> {
    match TopicName::try_from(s) {
        Ok(t) => Build::Ok(t),
        Err(_) => Build::Unconstructible("topicname"),
    }
}

pub fn mk_topic_filter(s: String) -> Build<TopicFilter> {
    match TopicFilter::try_from(s) {
        Ok(t) => Build::Ok(t),
        Err(_) => Build::Unconstructible("topicfilter"),
    }
}

pub fn mk_qos(s: &str) -> Build<QoS> {
    match s.parse::<u8>() {
        Err(_) => Build::Syntax,
        Ok(d) => {
            for v in [QoS::Level0, QoS::Level1, QoS::Level2] {
                if v as u8 == d {
                    return Build::Ok(v);
                }
            }
            Build::Unconstructible("code")
        }
    }
}

/// enum value by discriminant
pub fn by_disc<T: Copy>(all: &[T], disc: impl Fn(T) -> u8, s: &str) -> Build<T> {
    match s.parse::<u8>() {
        Err(_) => Build::Syntax,
        Ok(d) => {
            for v in all {
                if disc(*v) == d {
                    return Build::Ok(*v);
                }
            }
            Build::Unconstructible("code")
        }
    }
}

pub fn parse_opt_hex(s: &str) -> Build<Option<Vec<u8>>> {
    if s == "~" {
        Build::Ok(None)
    } else {
        match unhex(s) {
            Some(b) => Build::Ok(Some(b)),
            None => Build::Syntax,
        }
    }
}

pub fn parse_opt_text(s: &str) -> Build<Option<Arc<String>>> {
    if s == "~" {
        Build::Ok(None)
    } else {
        Build::Ok(Some(Arc::new(tri!(mk_text(s)))))
    }
}

pub fn parse_protocol(s: &str) -> Build<Protocol> {
    match s {
        "3" => Build::Ok(Protocol::V310),
        "4" => Build::Ok(Protocol::V311),
        "5" => Build::Ok(Protocol::V500),
        _ => Build::Syntax,
    }
}

pub fn parse_qos_pid(q: &str, pid: &str) -> Build<QosPid> {
    match q {
        "0" => {
            if pid == "~" {
                Build::Ok(QosPid::Level0)
            } else {
                Build::Syntax
            }
        }
        "1" => Build::Ok(QosPid::Level1(tri!(parse_pid(pid)))),
        "2" => Build::Ok(QosPid::Level2(tri!(parse_pid(pid)))),
        _ => Build::Syntax,
    }
}

fn parse_will(s: &str) -> Build<Option<LastWill>> {
    if s == "~" {
        return Build::Ok(None);
    }
    let p: Vec<&str> = s.split(':').collect();
    if p.len() != 5 || p[0] != "w" {
        return Build::Syntax;
    }
    let qos = tri!(mk_qos(p[1]));
    let retain = tri!(parse_bool(p[2]));
    let topic = tri!(mk_text(p[3]));
    let topic_name = tri!(mk_topic_name(topic));
    let message = tri!(of_opt(unhex(p[4])));
    Build::Ok(Some(LastWill { qos, retain, topic_name, message: Bytes::from(message) }))
}

const CRC: [ConnectReturnCode; 6] = [
    ConnectReturnCode::Accepted,
    ConnectReturnCode::UnacceptableProtocolVersion,
    ConnectReturnCode::IdentifierRejected,
    ConnectReturnCode::ServerUnavailable,
    ConnectReturnCode::BadUserNameOrPassword,
    ConnectReturnCode::NotAuthorized,
];
const SRC: [SubscribeReturnCode; 4] = [SubscribeReturnCode::MaxLevel0, SubscribeReturnCode::MaxLevel1, SubscribeReturnCode::MaxLevel2, SubscribeReturnCode::Failure];

pub fn parse(toks: &[&str]) -> Build<Packet> {
    if toks.is_empty() {
        return Build::Syntax;
    }
    match (toks[0], toks.len()) {
        ("connect", 8) => {
            let protocol = tri!(parse_protocol(toks[1]));
            let clean_session = tri!(parse_bool(toks[2]));
            let keep_alive = tri!(of_opt(toks[3].parse::<u16>().ok()));
            let client_id = Arc::new(tri!(mk_text(toks[4])));
            let last_will = tri!(parse_will(toks[5]));
            let username = tri!(parse_opt_text(toks[6]));
            let password = tri!(parse_opt_hex(toks[7])).map(Bytes::from);
            Build::Ok(Packet::Connect(Connect { protocol, clean_session, keep_alive, client_id, last_will, username, password }))
        }
        ("connack", 3) => {
            let session_present = tri!(parse_bool(toks[1]));
            let code = tri!(by_disc(&CRC, |c| c as u8, toks[2]));
            Build::Ok(Packet::Connack(Connack { session_present, code }))
        }
        ("publish", 7) => {
            let dup = tri!(parse_bool(toks[1]));
            let retain = tri!(parse_bool(toks[2]));
            let qos_pid = tri!(parse_qos_pid(toks[3], toks[4]));
            let topic = tri!(mk_text(toks[5]));
            let topic_name = tri!(mk_topic_name(topic));
            let payload = Bytes::from(tri!(of_opt(unhex(toks[6]))));
            Build::Ok(Packet::Publish(Publish { dup, retain, qos_pid, topic_name, payload }))
        }
        ("puback", 2) => Build::Ok(Packet::Puback(tri!(parse_pid(toks[1])))),
        ("pubrec", 2) => Build::Ok(Packet::Pubrec(tri!(parse_pid(toks[1])))),
        ("pubrel", 2) => Build::Ok(Packet::Pubrel(tri!(parse_pid(toks[1])))),
        ("pubcomp", 2) => Build::Ok(Packet::Pubcomp(tri!(parse_pid(toks[1])))),
        ("unsuback", 2) => Build::Ok(Packet::Unsuback(tri!(parse_pid(toks[1])))),
        ("subscribe", n) if n >= 3 => {
            let pid = tri!(parse_pid(toks[1]));
            if toks[2].parse::<usize>().ok() != Some(n - 3) {
                return Build::Syntax;
            }
            let mut topics = Vec::new();
            for t in &toks[3..] {
                let p: Vec<&str> = t.split(':').collect();
                if p.len() != 2 {
                    return Build::Syntax;
                }
                let f = tri!(mk_text(p[0]));
                let f = tri!(mk_topic_filter(f));
                let q = tri!(mk_qos(p[1]));
                topics.push((f, q));
            }
            Build::Ok(Packet::Subscribe(Subscribe { pid, topics }))
        }
        ("suback", n) if n >= 3 => {
            let pid = tri!(parse_pid(toks[1]));
            if toks[2].parse::<usize>().ok() != Some(n - 3) {
                return Build::Syntax;
            }
            let mut topics = Vec::new();
            for t in &toks[3..] {
                topics.push(tri!(by_disc(&SRC, |c| c as u8, t)));
            }
            Build::Ok(Packet::Suback(Suback { pid, topics }))
        }
        ("unsubscribe", n) if n >= 3 => {
            let pid = tri!(parse_pid(toks[1]));
            if toks[2].parse::<usize>().ok() != Some(n - 3) {
                return Build::Syntax;
            }
            let mut topics = Vec::new();
            for t in &toks[3..] {
                let f = tri!(mk_text(t));
                topics.push(tri!(mk_topic_filter(f)));
            }
            Build::Ok(Packet::Unsubscribe(Unsubscribe { pid, topics }))
        }
        ("pingreq", 1) => Build::Ok(Packet::Pingreq),
        ("pingresp", 1) => Build::Ok(Packet::Pingresp),
        ("disconnect", 1) => Build::Ok(Packet::Disconnect),
        _ => Build::Syntax,
    }
}
