//! A uniform view of the two codec families for the implementation-side oracles.

use crate::fmt::*;
use crate::pgen::*;
use crate::report::Rng;
use crate::sio::*;
use mqtt_proto::{v3, v5, Encodable};
use std::io;
use std::pin::Pin;

#[derive(Clone, Debug, PartialEq)]
pub struct ErrInfo {
    pub text: String,
    pub is_eof: bool,
    pub io_kind: Option<io::ErrorKind>,
}

pub struct PollOut<P> {
    pub res: Result<(usize, Vec<u8>, P), ErrInfo>,
    pub consumed: usize,
    pub pendings: usize,
    pub sched_pendings_consumed: usize,
    pub requests: Vec<(usize, usize)>,
}

pub trait Fam {
    type P: Clone + PartialEq + std::fmt::Debug;
    const NAME: &'static str;
    const TYPES: usize;
    fn gen(rng: &mut Rng, t: usize, sz: Sizes) -> Self::P;
    /// valid packets on a grid (derived-length and list-count sweeps)
    fn sweep(thorough: bool) -> Vec<Self::P>;
    fn show(p: &Self::P) -> String;
    fn parse(toks: &[&str]) -> Option<Self::P>;
    fn encode(p: &Self::P) -> Result<Vec<u8>, ErrInfo>;
    /// (VarBytes::as_ref bytes, and the bytes again through a second call) for determinism checks
    fn encode_len(p: &Self::P) -> Result<usize, ErrInfo>;
    fn decode(b: &[u8]) -> Result<Option<Self::P>, ErrInfo>;
    fn decode_async(b: &[u8], sched: Vec<Sched>, term: Term) -> (Result<Self::P, ErrInfo>, usize);
    fn poll(b: &[u8], sched: Vec<Sched>, term: Term) -> PollOut<Self::P>;
    fn encode_async(p: &Self::P, script: Vec<WItem>) -> (Result<(), ErrInfo>, Vec<u8>) {
        let (r, w, _) = Self::encode_async_counted(p, script);
        (r, w)
    }
    /// also returns how many times the future returned Pending
    fn encode_async_counted(p: &Self::P, script: Vec<WItem>) -> (Result<(), ErrInfo>, Vec<u8>, usize);
    /// `Encodable::encode` of the packet's body into a scripted `io::Write` sink:
    /// (control byte, result, bytes the sink received, body.encode_len()); None for body-less packets
    fn body_stream(p: &Self::P, script: Vec<WItem>) -> Option<(Result<(), io::ErrorKind>, Vec<u8>, usize)>;
    fn is_connect(p: &Self::P) -> bool;
}

fn e3(e: &mqtt_proto::Error) -> ErrInfo {
    let io_kind = match e {
        mqtt_proto::Error::IoError(k, _) => Some(*k),
        _ => None,
    };
    ErrInfo { text: error(e), is_eof: e.is_eof(), io_kind }
}
fn e5(e: &v5::ErrorV5) -> ErrInfo {
    let io_kind = match e {
        v5::ErrorV5::Common(mqtt_proto::Error::IoError(k, _)) => Some(*k),
        _ => None,
    };
    ErrInfo { text: error_v5(e), is_eof: e.is_eof(), io_kind }
}

fn sink_body<E: Encodable>(e: &E, script: Vec<WItem>) -> (Result<(), io::ErrorKind>, Vec<u8>, usize) {
    let mut w = ScriptWriter::new(script);
    let r = e.encode(&mut w).map_err(|e| e.kind());
    (r, w.written, e.encode_len())
}

/// the caller-held poll state holds a body buffer of at most 1 MiB (cloning it is cheap)
pub fn state_is_small<H>(state: &mqtt_proto::GenericPollPacketState<H>) -> bool {
    match state {
        mqtt_proto::GenericPollPacketState::Header(_) => true,
        mqtt_proto::GenericPollPacketState::Body(b) => b.buf.len() <= (1 << 20),
    }
}

macro_rules! poll_impl {
    ($modp:ident, $b:expr, $sched:expr, $term:expr, $ef:ident) => {{
        use mqtt_proto::$modp::{PollPacket, PollPacketState};
        let mut state = PollPacketState::default();
        let npend_sched = $sched.iter().filter(|s| !matches!(s, Sched::Chunk(_) | Sched::InitChunk(_))).count();
        let mut rd = ScriptReader::new($b.to_vec(), $sched, $term);
        let (flag, waker) = crate::sio::task_waker();
        let mut cx = std::task::Context::from_waker(&waker);
        let mut pend = 0usize;
        let mut lost = false;
        let res = 'outer: loop {
            let mut fut = PollPacket::new(&mut state, &mut rd);
            loop {
                match std::future::Future::poll(Pin::new(&mut fut), &mut cx) {
                    std::task::Poll::Ready(r) => break 'outer r,
                    std::task::Poll::Pending => {
                        pend += 1;
                        if pend > 1_000_000 {
                            panic!("poll spins");
                        }
                        if !crate::sio::woken(&flag) {
                            lost = true;
                        }
                        drop(fut);
                        if rd.drop_requested {
                            rd.drop_requested = false;
                            if state_is_small(&state) {
                                state = state.clone(); // (a caller may continue from a copy of the state)
                            }
                        }
                        continue 'outer;
                    }
                }
            }
        };
        let _ = npend_sched;
        PollOut {
            res: match res {
                _ if lost => Err(ErrInfo { text: crate::sio::LOST_WAKEUP.to_string(), is_eof: false, io_kind: None }),
                Ok((t, body, p)) => Ok((t, body.into_iter().map(|b| unsafe { b.assume_init() }).collect(), p)),
                Err(e) => Err($ef(&e)),
            },
            consumed: rd.pos,
            pendings: pend,
            sched_pendings_consumed: rd.pendings,
            requests: rd.requests.clone(),
        }
    }};
}

pub struct V3;
pub struct V5;

impl Fam for V3 {
    type P = v3::Packet;
    const NAME: &'static str = "v3";
    const TYPES: usize = V3_TYPES;
    fn gen(rng: &mut Rng, t: usize, sz: Sizes) -> Self::P {
        gen_v3(rng, t % V3_TYPES, sz)
    }
    fn sweep(thorough: bool) -> Vec<Self::P> {
        crate::pgen::sweep_v3(thorough)
    }
    fn show(p: &Self::P) -> String {
        crate::v3text::show(p)
    }
    fn parse(toks: &[&str]) -> Option<Self::P> {
        match crate::v3text::parse(toks) {
            crate::v3text::Build::Ok(p) => Some(p),
            _ => None,
        }
    }
    fn encode(p: &Self::P) -> Result<Vec<u8>, ErrInfo> {
        p.encode().map(|v| v.as_ref().to_vec()).map_err(|e| e3(&e))
    }
    fn encode_len(p: &Self::P) -> Result<usize, ErrInfo> {
        p.encode_len().map_err(|e| e3(&e))
    }
    fn decode(b: &[u8]) -> Result<Option<Self::P>, ErrInfo> {
        v3::Packet::decode(b).map_err(|e| e3(&e))
    }
    fn decode_async(b: &[u8], sched: Vec<Sched>, term: Term) -> (Result<Self::P, ErrInfo>, usize) {
        let mut rd = ScriptReader::new(b.to_vec(), sched, term);
        let res = {
            let mut fut = Box::pin(v3::Packet::decode_async(&mut rd));
            drive(fut.as_mut()).0
        };
        (res.map_err(|e| e3(&e)), rd.pos)
    }
    fn poll(b: &[u8], sched: Vec<Sched>, term: Term) -> PollOut<Self::P> {
        poll_impl!(v3, b, sched, term, e3)
    }
    fn encode_async_counted(p: &Self::P, script: Vec<WItem>) -> (Result<(), ErrInfo>, Vec<u8>, usize) {
        let mut w = ScriptWriter::new(script);
        let (res, pend) = {
            let mut fut = Box::pin(p.encode_async(&mut w));
            drive(fut.as_mut())
        };
        (res.map_err(|e| e3(&e)), w.written, pend)
    }
    fn body_stream(p: &Self::P, script: Vec<WItem>) -> Option<(Result<(), io::ErrorKind>, Vec<u8>, usize)> {
        use v3::Packet::*;
        Some(match p {
            Connect(x) => sink_body(x, script),
            Publish(x) => sink_body(x, script),
            Subscribe(x) => sink_body(x, script),
            Suback(x) => sink_body(x, script),
            Unsubscribe(x) => sink_body(x, script),
            _ => return None,
        })
    }
    fn is_connect(p: &Self::P) -> bool {
        matches!(p, v3::Packet::Connect(_))
    }
}

impl Fam for V5 {
    type P = v5::Packet;
    const NAME: &'static str = "v5";
    const TYPES: usize = V5_TYPES;
    fn gen(rng: &mut Rng, t: usize, sz: Sizes) -> Self::P {
        let pmode = [0u8, 0, 1, 2, 3, 4][(t / V5_TYPES) % 6];
        gen_v5(rng, t % V5_TYPES, sz, pmode, t / (6 * V5_TYPES))
    }
    fn sweep(thorough: bool) -> Vec<Self::P> {
        crate::pgen::sweep_v5(thorough)
    }
    fn show(p: &Self::P) -> String {
        crate::v5text::show(p)
    }
    fn parse(toks: &[&str]) -> Option<Self::P> {
        match crate::v5text::parse(toks) {
            crate::v3text::Build::Ok(p) => Some(p),
            _ => None,
        }
    }
    fn encode(p: &Self::P) -> Result<Vec<u8>, ErrInfo> {
        p.encode().map(|v| v.as_ref().to_vec()).map_err(|e| e3(&e))
    }
    fn encode_len(p: &Self::P) -> Result<usize, ErrInfo> {
        p.encode_len().map_err(|e| e5(&e))
    }
    fn decode(b: &[u8]) -> Result<Option<Self::P>, ErrInfo> {
        v5::Packet::decode(b).map_err(|e| e5(&e))
    }
    fn decode_async(b: &[u8], sched: Vec<Sched>, term: Term) -> (Result<Self::P, ErrInfo>, usize) {
        let mut rd = ScriptReader::new(b.to_vec(), sched, term);
        let res = {
            let mut fut = Box::pin(v5::Packet::decode_async(&mut rd));
            drive(fut.as_mut()).0
        };
        (res.map_err(|e| e5(&e)), rd.pos)
    }
    fn poll(b: &[u8], sched: Vec<Sched>, term: Term) -> PollOut<Self::P> {
        poll_impl!(v5, b, sched, term, e5)
    }
    fn encode_async_counted(p: &Self::P, script: Vec<WItem>) -> (Result<(), ErrInfo>, Vec<u8>, usize) {
        let mut w = ScriptWriter::new(script);
        let (res, pend) = {
            let mut fut = Box::pin(p.encode_async(&mut w));
            drive(fut.as_mut())
        };
        (res.map_err(|e| e5(&e)), w.written, pend)
    }
    fn body_stream(p: &Self::P, script: Vec<WItem>) -> Option<(Result<(), io::ErrorKind>, Vec<u8>, usize)> {
        use v5::Packet::*;
        Some(match p {
            Connect(x) => sink_body(x, script),
            Connack(x) => sink_body(x, script),
            Publish(x) => sink_body(x, script),
            Puback(x) => sink_body(x, script),
            Pubrec(x) => sink_body(x, script),
            Pubrel(x) => sink_body(x, script),
            Pubcomp(x) => sink_body(x, script),
            Subscribe(x) => sink_body(x, script),
            Suback(x) => sink_body(x, script),
            Unsubscribe(x) => sink_body(x, script),
            Unsuback(x) => sink_body(x, script),
            Disconnect(x) => sink_body(x, script),
            Auth(x) => sink_body(x, script),
            Pingreq | Pingresp => return None,
        })
    }
    fn is_connect(p: &Self::P) -> bool {
        matches!(p, v5::Packet::Connect(_))
    }
}
