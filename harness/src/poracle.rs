//! Packet-level implementation-side oracles (search support), generic in the family.

use crate::fam::*;
use crate::fmt::*;
use crate::pgen::*;
use crate::report::*;
use crate::sio::*;
use mqtt_proto::{header_len, remaining_len};
use std::io;
use std::panic::{catch_unwind, AssertUnwindSafe};

pub const IOKINDS: [io::ErrorKind; 6] =
    [io::ErrorKind::UnexpectedEof, io::ErrorKind::ConnectionReset, io::ErrorKind::TimedOut, io::ErrorKind::BrokenPipe, io::ErrorKind::WouldBlock, io::ErrorKind::Other];
/// kinds for READ faults (the write side keeps to IOKINDS: `io::Write::write_all` retries Interrupted by contract)
pub const READ_IOKINDS: [io::ErrorKind; 12] = [
    io::ErrorKind::UnexpectedEof,
    io::ErrorKind::ConnectionReset,
    io::ErrorKind::TimedOut,
    io::ErrorKind::BrokenPipe,
    io::ErrorKind::WouldBlock,
    io::ErrorKind::Other,
    io::ErrorKind::Interrupted,
    io::ErrorKind::PermissionDenied,
    io::ErrorKind::ConnectionRefused,
    io::ErrorKind::InvalidInput,
    io::ErrorKind::NotFound,
    io::ErrorKind::OutOfMemory,
];

fn guard<T>(rep: &mut Report, key: &str, input: &str, f: impl FnOnce() -> T) -> Option<T> {
    match catch_unwind(AssertUnwindSafe(f)) {
        Ok(v) => Some(v),
        Err(_) => {
            let at = crate::report::LAST_PANIC.lock().map(|g| g.clone()).unwrap_or_default();
            rep.fail(key, input.to_string(), format!("the real code panicked: {}", at));
            None
        }
    }
}

/// independent reading of the fixed header: (bytes of header, remaining length) or None if incomplete/overlong
pub fn frame_extent(b: &[u8]) -> Option<(usize, usize)> {
    if b.is_empty() {
        return None;
    }
    let mut v = 0usize;
    for i in 0..4 {
        let x = *b.get(1 + i)?;
        v += ((x & 0x7f) as usize) << (7 * i);
        if x & 0x80 == 0 {
            return Some((2 + i, v));
        }
    }
    None
}

pub struct Inputs<P> {
    pub packets: Vec<P>,
    pub bytes: Vec<Vec<u8>>,
}

/// inputs from op lines (search mode) or freshly generated
pub fn inputs<F: Fam>(tier: &str, seed: u64, ops: Option<&[String]>, n_quick: usize, n_thorough: usize, want_mut: bool) -> Inputs<F::P> {
    let mut packets = Vec::new();
    let mut bytes = Vec::new();
    if let Some(ops) = ops {
        for op in ops {
            let t: Vec<&str> = op.split_whitespace().collect();
            if t.len() >= 3 && t[1] == F::NAME {
                match t[0] {
                    "enc" | "valid" | "enca" => {
                        if let Some(p) = F::parse(&t[2..]) {
                            packets.push(p);
                        }
                    }
                    "dec" | "deca" | "poll" | "hdr" => {
                        if let Some(b) = unhex(t[2]) {
                            // a frame that decodes is also a packet input
                            if let Ok(Some(p)) = catch_unwind(|| F::decode(&b)).unwrap_or(Ok(None)) {
                                packets.push(p);
                            }
                            bytes.push(b);
                        }
                    }
                    _ => {}
                }
            }
        }
        // the encodings of the packets are byte inputs too
        for p in &packets {
            if let Ok(Ok(e)) = catch_unwind(AssertUnwindSafe(|| F::encode(p))) {
                bytes.push(e);
            }
        }
        return Inputs { packets, bytes };
    }
    let mut rng = Rng::new(seed ^ 0xabcdef);
    let n = if tier == "thorough" { n_thorough } else { n_quick };
    for i in 0..n {
        let sz = Sizes { big: i % 97 == 0 };
        let p = F::gen(&mut rng, i, sz);
        if let Ok(e) = F::encode(&p) {
            if want_mut {
                bytes.push(e.clone());
                for _ in 0..3 {
                    let mut m = mutate(&mut rng, &e);
                    if rng.chance(1, 4) {
                        m = mutate(&mut rng, &m);
                    }
                    bytes.push(m);
                }
            }
        }
        packets.push(p);
    }
    if n > 0 {
        // the grid: derived-length and list-count sweeps (every n-th of them when only few packets are wanted)
        let sw = F::sweep(tier == "thorough");
        let step = if n >= 3000 { 1 } else { 4 };
        for (i, p) in sw.into_iter().enumerate() {
            if i % step == 0 {
                if want_mut {
                    if let Ok(e) = F::encode(&p) {
                        if e.len() < 40_000 {
                            bytes.push(e);
                        }
                    }
                }
                packets.push(p);
            }
        }
    }
    if want_mut {
        // frames built by hand, independently of the encoder under test: property sections in random
        // order (v5), topics with lookalike characters (both families)
        for t in crate::gen::lookalike_topics().iter().step_by(if tier == "thorough" { 1 } else { 4 }) {
            bytes.extend(crate::gen::topic_frames(F::NAME == "v3", t));
        }
        if F::NAME == "v5" {
            bytes.extend(crate::gen::dictionary_frames());
            for l in crate::gen::gen("v5props", tier, seed).iter().step_by(if tier == "thorough" { 8 } else { 16 }) {
                let t: Vec<&str> = l.split_whitespace().collect();
                if let Some(b) = unhex(t[2]) {
                    bytes.push(b);
                }
            }
        }
    }
    Inputs { packets, bytes }
}

fn enc_op<F: Fam>(p: &F::P) -> String {
    format!("enc {} {}", F::NAME, F::show(p))
}
fn dec_op<F: Fam>(b: &[u8]) -> String {
    format!("dec {} {}", F::NAME, hex_or_dash(b))
}

// ------------------------------------------------------------------------------------------ C01 / C02

pub fn c01<F: Fam>(rep: &mut Report, p: &F::P) {
    rep.cases += 1;
    let input = enc_op::<F>(p);
    let enc = match guard(rep, "encode-panic", &input, || F::encode(p)) {
        Some(Ok(e)) => e,
        Some(Err(e)) => {
            rep.fail("encode-error", input, format!("valid packet refused: {}", e.text));
            return;
        }
        None => return,
    };
    rep.count(&format!("{}:type{:x}", F::NAME, enc[0] >> 4));
    let mut ext = enc.clone();
    ext.extend_from_slice(&[0xc0, 0x00, 0x31, 0xff]);
    for (what, data) in [("exact", &enc), ("with-trailing", &ext)] {
        match guard(rep, "decode-panic", &input, || F::decode(data)) {
            Some(Ok(Some(q))) if &q == p => {}
            Some(other) => rep.fail("roundtrip-blocking", input.clone(), format!("{}: blocking decode of the encoding gave {:?}", what, other.map(|o| o.map(|q| F::show(&q))))),
            None => {}
        }
        match guard(rep, "decode-panic", &input, || F::decode_async(data, vec![], Term::Eof)) {
            Some((Ok(q), n)) if &q == p && n == enc.len() => {}
            Some((r, n)) => rep.fail("roundtrip-async", input.clone(), format!("{}: async decode gave {:?} consumed {} of {}", what, r.map(|q| F::show(&q)), n, enc.len())),
            None => {}
        }
        match guard(rep, "decode-panic", &input, || F::poll(data, vec![], Term::Eof)) {
            Some(o) => match o.res {
                Ok((total, body, q)) if q == *p && total == enc.len() && body[..] == enc[header_len(enc.len())..] && o.consumed == enc.len() => {}
                r => rep.fail("roundtrip-poll", input.clone(), format!("{}: poll decode gave {:?} consumed {} (encoding is {} bytes)", what, r.map(|(t, b, q)| (t, b.len(), F::show(&q))), o.consumed, enc.len())),
            },
            None => {}
        }
    }
}

pub fn c02<F: Fam>(rep: &mut Report, p: &F::P) {
    rep.cases += 1;
    let input = enc_op::<F>(p);
    let enc = guard(rep, "encode-panic", &input, || F::encode(p));
    let len = guard(rep, "encode-len-panic", &input, || F::encode_len(p));
    let (enc, len) = match (enc, len) {
        (Some(e), Some(l)) => (e, l),
        _ => return,
    };
    match (&enc, &len) {
        (Ok(e), Ok(l)) => {
            if e.len() != *l {
                rep.fail("len-mismatch", input.clone(), format!("encode wrote {} bytes, encode_len says {}", e.len(), l));
            }
            match frame_extent(e) {
                Some((h, rl)) if h + rl == e.len() && h == header_len(e.len()) && rl == remaining_len(e.len()) => {}
                other => rep.fail("header-remaining-length", input.clone(), format!("fixed header says {:?} for an output of {} bytes", other, e.len())),
            }
            rep.count(match e.len() {
                0..=129 => "total<=129",
                130..=16386 => "total<=16386",
                16387..=2097155 => "total<=2097155",
                _ => "total>2097155",
            });
        }
        (Err(a), Err(b)) => {
            if a.text != "InvalidVarByteInt" || b.text != "InvalidVarByteInt" {
                rep.fail("encode-error-kind", input.clone(), format!("encode: {} / encode_len: {}", a.text, b.text));
            }
            rep.count("too-large-refused");
        }
        (a, b) => rep.fail("encode-vs-len", input.clone(), format!("encode {:?} but encode_len {:?}", a.as_ref().map(|e| e.len()), b)),
    }
    // every separately encodable body part: written == reported, into a plain sink
    if let Some(Some((r, written, blen))) = guard(rep, "part-panic", &input, || F::body_stream(p, vec![])) {
        if r.is_err() || written.len() != blen {
            rep.fail("part-len-mismatch", input.clone(), format!("body wrote {} bytes, reports {}", written.len(), blen));
        }
        if let Ok(e) = &enc {
            if e[header_len(e.len())..] != written[..] {
                rep.fail("body-differs", input.clone(), "Packet::encode body differs from Encodable::encode of the body".into());
            }
        }
    }
}

/// C02: a property section / payload that pushes the packet beyond the 4-byte remaining length
pub fn c02_oversize(rep: &mut Report) {
    use bytes::Bytes;
    use mqtt_proto::{v3, v5, QosPid, TopicName};
    use std::convert::TryFrom;
    use std::sync::Arc;
    // v5: 2,100 clones of one user property holding two 65,535-byte Arc<String>s (≈ 275 MB declared, ≈ 130 KB real)
    let big = Arc::new("a".repeat(65535));
    let up = v5::UserProperty { name: big.clone(), value: big.clone() };
    let props = v5::PubackProperties { reason_string: None, user_properties: vec![up.clone(); 2100] };
    let p = v5::Packet::Puback(v5::Puback { pid: mqtt_proto::Pid::try_from(1).unwrap(), reason_code: v5::PubackReasonCode::Success, properties: props });
    rep.cases += 1;
    let input = "oversize v5 PUBACK with 2100 x (65535,65535)-byte user properties".to_string();
    match catch_unwind(AssertUnwindSafe(|| (p.encode().map(|v| v.as_ref().len()), p.encode_len()))) {
        Err(_) => rep.fail("oversize-panics", input.clone(), "encode/encode_len panicked instead of returning InvalidVarByteInt".into()),
        Ok((Err(mqtt_proto::Error::InvalidVarByteInt), Err(v5::ErrorV5::Common(mqtt_proto::Error::InvalidVarByteInt)))) => rep.count("oversize-refused"),
        Ok(other) => rep.fail("oversize-not-refused", input.clone(), format!("{:?}", other)),
    }
    // same through a CONNECT's will properties and a PUBLISH (different macro instantiations)
    let pp = v5::PublishProperties { user_properties: vec![up; 2100], ..Default::default() };
    let p = v5::Packet::Publish(v5::Publish { dup: false, retain: false, qos_pid: QosPid::Level0, topic_name: TopicName::try_from("t".to_string()).unwrap(), payload: Bytes::new(), properties: pp });
    rep.cases += 1;
    match catch_unwind(AssertUnwindSafe(|| (p.encode().map(|v| v.as_ref().len()), p.encode_len()))) {
        Err(_) => rep.fail("oversize-panics", "oversize v5 PUBLISH property section".into(), "panicked".into()),
        Ok((Err(mqtt_proto::Error::InvalidVarByteInt), Err(_))) => rep.count("oversize-refused"),
        Ok(other) => rep.fail("oversize-not-refused", "oversize v5 PUBLISH property section".into(), format!("{:?}", other)),
    }
    // v3: payload of exactly 268,435,455 - 3 and one more (shared zero page, 256 MB virtual) — thorough only (see c02 driver)
    let _ = v3::Packet::Pingreq;
}

/// C02: v5 property sections whose LENGTH FIELD sits at each width boundary (user properties with
/// shared Arc<String>s, so a 2 MiB section costs a few hundred KB of memory), through every property
/// struct's own Encodable impl, the enclosing body and the whole packet.
pub fn c02_property_boundaries(rep: &mut Report) {
    use mqtt_proto::{v5, Encodable, Pid};
    use std::convert::TryFrom;
    use std::sync::Arc;
    fn users(total: usize) -> Vec<v5::UserProperty> {
        // a list of user properties whose encoded size (1 + 2 + n + 2 + v each) is exactly `total` (>= 5)
        let mut out = Vec::new();
        let mut left = total;
        let big = Arc::new("a".repeat(65535));
        while left >= 5 {
            let take = left.min(5 + 2 * 65535);
            let rest = left - take;
            let take = if rest > 0 && rest < 5 { take - 5 } else { take };
            let payload = take - 5;
            let n = payload.min(65535);
            let v = payload - n;
            let name = if n == 65535 { big.clone() } else { Arc::new("a".repeat(n)) };
            let value = if v == 65535 { big.clone() } else { Arc::new("a".repeat(v)) };
            out.push(v5::UserProperty { name, value });
            left -= take;
        }
        out
    }
    let mut targets = vec![126usize, 127, 128, 129, 16382, 16383, 16384, 16385, 2097150, 2097151, 2097152, 2097153, 4194303, 4194304];
    // … and wherever the length helpers of the code under test change value (found by the last total scan)
    targets.extend(crate::pgen::boundaries().iter().cloned().filter(|b| *b >= 5 && *b <= (5 << 20)));
    targets.sort();
    targets.dedup();
    for target in targets {
        let up = users(target);
        let section: usize = up.iter().map(|u| 5 + u.name.len() + u.value.len()).sum();
        let input = format!("v5 property section of exactly {} bytes ({} user properties)", section, up.len());
        let mut check = |what: &str, written: usize, reported: usize| {
            rep.cases += 1;
            if written != reported {
                rep.fail("property-section-width", input.clone(), format!("{}: wrote {} bytes, reports {}", what, written, reported));
            }
        };
        let props = v5::PubackProperties { reason_string: None, user_properties: up.clone() };
        let mut buf = Vec::new();
        props.encode(&mut buf).unwrap();
        check("PubackProperties", buf.len(), props.encode_len());
        let pp = v5::PublishProperties { user_properties: up.clone(), ..Default::default() };
        let mut buf = Vec::new();
        pp.encode(&mut buf).unwrap();
        check("PublishProperties", buf.len(), pp.encode_len());
        let cp = v5::ConnackProperties { user_properties: up.clone(), ..Default::default() };
        let mut buf = Vec::new();
        cp.encode(&mut buf).unwrap();
        check("ConnackProperties", buf.len(), cp.encode_len());
        let p = v5::Packet::Puback(v5::Puback { pid: Pid::try_from(1).unwrap(), reason_code: v5::PubackReasonCode::Success, properties: props });
        match catch_unwind(AssertUnwindSafe(|| (p.encode().map(|v| v.as_ref().to_vec()), p.encode_len()))) {
            Ok((Ok(e), Ok(l))) => {
                check("Packet::Puback total", e.len(), l);
                match frame_extent(&e) {
                    Some((h, rl)) if h + rl == e.len() => {}
                    other => rep.fail("property-section-width", input.clone(), format!("fixed header says {:?} for {} bytes", other, e.len())),
                }
                // and it must decode back (strict decoder)
                match V5::poll(&e, vec![], Term::Eof).res {
                    Ok((t, _, q)) if q == p && t == e.len() => {}
                    other => rep.fail("property-section-width", input.clone(), format!("strict decoder on the encoding gave {:?}", other.map(|x| x.0))),
                }
            }
            other => rep.fail("property-section-width", input.clone(), format!("encode/encode_len gave {:?}", other.map(|(a, b)| (a.map(|e| e.len()), b)))),
        }
    }
}

/// HISTORY INVARIANCE: a list of frames (valid and malformed, the same texts in different roles) is decoded
/// by all three front-ends once in order and once in a permuted order; every frame must get the same
/// answer both times.  Needs no expected values: it finds results that depend on what was decoded before
/// (memoised validations, "last topic" caches, a family flag left behind).
pub fn history_invariance<F: Fam>(rep: &mut Report, frames: &[Vec<u8>]) {
    let show = |b: &[u8]| -> String {
        let r = catch_unwind(AssertUnwindSafe(|| {
            let d = match F::decode(b) {
                Ok(Some(p)) => format!("ok {}", F::show(&p)),
                Ok(None) => "incomplete".into(),
                Err(e) => format!("err {}", e.text),
            };
            let a = match F::decode_async(b, vec![], Term::Eof).0 {
                Ok(p) => format!("ok {}", F::show(&p)),
                Err(e) => format!("err {}", e.text),
            };
            let p = match F::poll(b, vec![], Term::Eof).res {
                Ok((t, _, p)) => format!("ok {} {}", t, F::show(&p)),
                Err(e) => format!("err {}", e.text),
            };
            format!("blocking: {} | async: {} | poll: {}", d, a, p)
        }));
        r.unwrap_or_else(|_| "panic".into())
    };
    let n = frames.len();
    if n == 0 {
        return;
    }
    let first: Vec<String> = frames.iter().map(|f| show(f)).collect();
    // second pass: a stride permutation, so every frame now has different predecessors
    let stride = (1..n).rev().find(|k| gcd(*k, n) == 1 && *k * 2 > n).unwrap_or(1);
    let mut prev = 0usize;
    for k in 0..n {
        let i = (k * stride + 1) % n;
        rep.cases += 1;
        let again = show(&frames[i]);
        if again != first[i] {
            rep.fail(
                "history-dependent",
                format!("dec {} {}", F::NAME, hex_or_dash(&frames[i])),
                format!("decoded after {}: {} ; decoded after {}: {}", if i == 0 { "nothing".to_string() } else { format!("dec {} {}", F::NAME, hex_or_dash(&frames[i - 1])) }, &first[i][..first[i].len().min(300)], format!("dec {} {}", F::NAME, hex_or_dash(&frames[prev])), &again[..again.len().min(300)]),
            );
        }
        prev = i;
    }
}

fn gcd(a: usize, b: usize) -> usize {
    if b == 0 {
        a
    } else {
        gcd(b, a % b)
    }
}

/// the frames of the `hist` stream for one family
pub fn hist_frames<F: Fam>(tier: &str, seed: u64) -> Vec<Vec<u8>> {
    crate::gen::gen("hist", tier, seed)
        .iter()
        .filter_map(|l| {
            let t: Vec<&str> = l.split_whitespace().collect();
            if t.len() >= 3 && t[0] == "dec" && t[1] == F::NAME {
                unhex(t[2])
            } else {
                None
            }
        })
        .collect()
}

/// EVERY Unicode scalar value (1,112,064 of them) inside a text field: v3 CONNECT client id and v5 user property
/// value `"a" + c + "z"`, encoded and decoded back (blocking), and the string helpers' view of the single
/// character.  A codec that treats ANY code point specially (refuses it, substitutes it, mis-sizes its
/// lead byte) is found without having to guess which one.
pub fn all_scalars(rep: &mut Report) {
    use mqtt_proto::{v3, v5, Pid, Protocol};
    use std::convert::TryFrom;
    use std::sync::Arc;
    let pid = Pid::try_from(1).unwrap();
    for cp in 0..=0x10ffffu32 {
        let c = match char::from_u32(cp) {
            Some(c) => c,
            None => continue,
        };
        rep.cases += 1;
        let text: Arc<String> = Arc::new(format!("a{}z", c));
        let p3 = v3::Packet::Connect(v3::Connect { protocol: Protocol::V311, clean_session: true, keep_alive: 1, client_id: text.clone(), last_will: None, username: None, password: None });
        let p5 = v5::Packet::Puback(v5::Puback { pid, reason_code: v5::PubackReasonCode::Success, properties: v5::PubackProperties { reason_string: Some(text.clone()), user_properties: vec![v5::UserProperty { name: text.clone(), value: text.clone() }] } });
        let r = catch_unwind(AssertUnwindSafe(|| {
            let e3 = p3.encode().map(|e| e.as_ref().to_vec());
            let e5 = p5.encode().map(|e| e.as_ref().to_vec());
            let ok3 = matches!(&e3, Ok(e) if v3::Packet::decode(e) == Ok(Some(p3.clone())) && e.len() == 14 + text.len());
            let ok5 = matches!(&e5, Ok(e) if v5::Packet::decode(e) == Ok(Some(p5.clone())));
            (ok3, ok5, e3.map(|e| crate::fmt::hex(&e)).map_err(|e| format!("{:?}", e)), e5.map(|e| crate::fmt::hex(&e)).map_err(|e| format!("{:?}", e)))
        }));
        match r {
            Ok((true, true, _, _)) => {}
            Ok((ok3, _ok5, e3, e5)) => {
                if rep.failures.iter().filter(|f| f.key == "scalar-roundtrip").count() < 6 {
                    let (fam, enc) = if !ok3 { ("v3", e3) } else { ("v5", e5) };
                    rep.fail(
                        "scalar-roundtrip",
                        match &enc {
                            Ok(h) => format!("dec {} {}", fam, h),
                            Err(_) => format!("text field containing U+{:04X}", cp),
                        },
                        format!("a {} packet whose text fields are \"a\" + U+{:04X} + \"z\" does not encode and decode back to itself (encoding: {:?})", fam, cp, enc.map(|h| h.len() / 2)),
                    );
                }
            }
            Err(_) => rep.fail("encode-panic", format!("text field containing U+{:04X}", cp), "the real code panicked".into()),
        }
    }
}

/// FULL one-dimensional sweeps: every list count 0..=4100 (reason-code lists) / 0..=700 (filters, user
/// properties) and every length 0..=8300 of one field, nothing sampled: a chunked writer or a stack buffer
/// has its edge at an arbitrary count or length (64, 1500, 4096, …) that no list of "interesting" values
/// anticipates.  encode vs encode_len vs fixed header, encode_async into an all-accepting sink, decode back.
pub fn full_1d_sweeps(rep: &mut Report, roundtrip: bool) {
    use mqtt_proto::{v3, v5, Pid, QoS, QosPid, TopicFilter, TopicName};
    use std::convert::TryFrom;
    use std::sync::Arc;
    fn one<F: Fam>(rep: &mut Report, p: &F::P, what: impl Fn() -> String, roundtrip: bool) {
        rep.cases += 1;
        let r = catch_unwind(AssertUnwindSafe(|| (F::encode(p), F::encode_len(p))));
        match r {
            Ok((Ok(e), Ok(l))) => {
                if !(e.len() == l && matches!(frame_extent(&e), Some((h, rl)) if h + rl == e.len())) {
                    rep.fail("sweep-len", what(), format!("encode wrote {} bytes, encode_len says {}, fixed header says {:?}", e.len(), l, frame_extent(&e)));
                    return;
                }
                match catch_unwind(AssertUnwindSafe(|| F::encode_async(p, vec![]))) {
                    Ok((Ok(()), w)) if w == e => {}
                    Ok((r, w)) => rep.fail("sweep-encode-async", what(), format!("encode_async gave {:?} and wrote {} bytes; encode() wrote {}", r.map_err(|e| e.text), w.len(), e.len())),
                    Err(_) => rep.fail("encode-panic", what(), "encode_async panicked".into()),
                }
                if roundtrip {
                    match F::decode(&e) {
                        Ok(Some(q)) if &q == p => {}
                        other => rep.fail("sweep-roundtrip", what(), format!("decode of the encoding gave {:?}", other.map(|o| o.map(|_| "a different packet")).map_err(|e| e.text))),
                    }
                }
            }
            Ok((a, b)) => rep.fail("sweep-len", what(), format!("encode gave {:?}, encode_len gave {:?}", a.map(|e| e.len()).map_err(|e| e.text), b.map_err(|e| e.text))),
            Err(_) => rep.fail("encode-panic", what(), "the real code panicked".into()),
        }
    }
    let pid = Pid::try_from(77).unwrap();
    for n in 0..=4100usize {
        let p = v5::Packet::Suback(v5::Suback { pid, properties: Default::default(), topics: (0..n).map(|i| if i % 5 == 0 { v5::SubscribeReasonCode::NotAuthorized } else { v5::SubscribeReasonCode::GrantedQoS1 }).collect() });
        one::<V5>(rep, &p, || format!("v5 SUBACK with {} reason codes", n), roundtrip);
        let p = v5::Packet::Unsuback(v5::Unsuback { pid, properties: Default::default(), topics: (0..n).map(|_| v5::UnsubscribeReasonCode::Success).collect() });
        one::<V5>(rep, &p, || format!("v5 UNSUBACK with {} reason codes", n), roundtrip);
        let p = v3::Packet::Suback(v3::Suback { pid, topics: (0..n).map(|i| if i % 7 == 0 { v3::SubscribeReturnCode::Failure } else { v3::SubscribeReturnCode::MaxLevel2 }).collect() });
        one::<V3>(rep, &p, || format!("v3 SUBACK with {} return codes", n), roundtrip);
        if n > 0 {
            // RUNS: n identical codes followed by a different one, and a different one followed by n identical
            // (a run-length or block writer has its edge where a run ENDS)
            let mut run5: Vec<v5::SubscribeReasonCode> = vec![v5::SubscribeReasonCode::GrantedQoS1; n];
            run5.push(v5::SubscribeReasonCode::NotAuthorized);
            let p = v5::Packet::Suback(v5::Suback { pid, properties: Default::default(), topics: run5.clone() });
            one::<V5>(rep, &p, || format!("v5 SUBACK with a run of {} equal reason codes followed by a different one", n), roundtrip);
            run5.rotate_right(1);
            let p = v5::Packet::Suback(v5::Suback { pid, properties: Default::default(), topics: run5 });
            one::<V5>(rep, &p, || format!("v5 SUBACK with one reason code followed by a run of {} equal ones", n), roundtrip);
            let mut run3: Vec<v3::SubscribeReturnCode> = vec![v3::SubscribeReturnCode::MaxLevel1; n];
            run3.push(v3::SubscribeReturnCode::Failure);
            let p = v3::Packet::Suback(v3::Suback { pid, topics: run3 });
            one::<V3>(rep, &p, || format!("v3 SUBACK with a run of {} equal return codes followed by a different one", n), roundtrip);
            let mut runu: Vec<v5::UnsubscribeReasonCode> = vec![v5::UnsubscribeReasonCode::Success; n];
            runu.push(v5::UnsubscribeReasonCode::NoSubscriptionExisted);
            let p = v5::Packet::Unsuback(v5::Unsuback { pid, properties: Default::default(), topics: runu });
            one::<V5>(rep, &p, || format!("v5 UNSUBACK with a run of {} equal reason codes followed by a different one", n), roundtrip);
        }
    }
    let f = TopicFilter::try_from("a/+".to_string()).unwrap();
    let up = v5::UserProperty { name: Arc::new("k".into()), value: Arc::new("v".into()) };
    for n in 1..=700usize {
        let p = v5::Packet::Subscribe(v5::Subscribe { pid, properties: Default::default(), topics: (0..n).map(|_| (f.clone(), v5::SubscriptionOptions::new(QoS::Level1))).collect() });
        one::<V5>(rep, &p, || format!("v5 SUBSCRIBE with {} filters", n), roundtrip);
        let p = v5::Packet::Unsubscribe(v5::Unsubscribe { pid, properties: Default::default(), topics: (0..n).map(|_| f.clone()).collect() });
        one::<V5>(rep, &p, || format!("v5 UNSUBSCRIBE with {} filters", n), roundtrip);
        let p = v3::Packet::Subscribe(v3::Subscribe { pid, topics: (0..n).map(|_| (f.clone(), QoS::Level0)).collect() });
        one::<V3>(rep, &p, || format!("v3 SUBSCRIBE with {} filters", n), roundtrip);
        let p = v3::Packet::Unsubscribe(v3::Unsubscribe { pid, topics: (0..n).map(|_| f.clone()).collect() });
        one::<V3>(rep, &p, || format!("v3 UNSUBSCRIBE with {} filters", n), roundtrip);
        let p = v5::Packet::Pubcomp(v5::Pubcomp { pid, reason_code: v5::PubcompReasonCode::Success, properties: v5::PubcompProperties { reason_string: None, user_properties: vec![up.clone(); n] } });
        one::<V5>(rep, &p, || format!("v5 PUBCOMP with {} user properties", n), roundtrip);
    }
    let t1 = TopicName::try_from("t".to_string()).unwrap();
    for n in 0..=8300usize {
        let p = v3::Packet::Publish(v3::Publish { dup: false, retain: false, qos_pid: QosPid::Level0, topic_name: t1.clone(), payload: vec![0x41u8; n].into() });
        one::<V3>(rep, &p, || format!("v3 PUBLISH with a {}-byte payload", n), roundtrip);
        let p = v5::Packet::Publish(v5::Publish { dup: false, retain: false, qos_pid: QosPid::Level1(pid), topic_name: t1.clone(), payload: vec![0x41u8; n].into(), properties: v5::PublishProperties { payload_is_utf8: Some(true), ..Default::default() } });
        one::<V5>(rep, &p, || format!("v5 PUBLISH (text) with a {}-byte payload", n), roundtrip);
        if n > 0 && n <= 4200 {
            let p = v3::Packet::Publish(v3::Publish { dup: false, retain: false, qos_pid: QosPid::Level2(pid), topic_name: TopicName::try_from("t".repeat(n)).unwrap(), payload: vec![1u8, 2].into() });
            one::<V3>(rep, &p, || format!("v3 PUBLISH with a {}-byte topic", n), roundtrip);
            let p = v5::Packet::Disconnect(v5::Disconnect { reason_code: v5::DisconnectReasonCode::NormalDisconnect, properties: v5::DisconnectProperties { reason_string: Some(Arc::new("r".repeat(n))), ..Default::default() } });
            one::<V5>(rep, &p, || format!("v5 DISCONNECT with a {}-byte reason string", n), roundtrip);
        }
    }
}

/// FULL two-dimensional sweeps of the lengths of two adjacent fields, 0..=200 × 0..=200 (a stack buffer or a
/// fast path sized from two fields at once has its edge at an arbitrary pair such as (42, 82)): encode vs
/// encode_len vs header, and decode back.
pub fn pair_sweeps(rep: &mut Report, roundtrip: bool) {
    use mqtt_proto::{v3, v5, Pid, Protocol, QosPid, TopicName};
    use std::convert::TryFrom;
    use std::sync::Arc;
    let names: Vec<Arc<String>> = (0..=200).map(|n| Arc::new("n".repeat(n))).collect();
    let values: Vec<Arc<String>> = (0..=200).map(|n| Arc::new("v".repeat(n))).collect();
    fn one<F: Fam>(rep: &mut Report, p: &F::P, what: impl Fn() -> String, roundtrip: bool) {
        rep.cases += 1;
        let r = catch_unwind(AssertUnwindSafe(|| (F::encode(p), F::encode_len(p))));
        match r {
            Ok((Ok(e), Ok(l))) => {
                let fine = e.len() == l && matches!(frame_extent(&e), Some((h, rl)) if h + rl == e.len());
                if !fine {
                    rep.fail("pair-sweep-len", what(), format!("encode wrote {} bytes, encode_len says {}, fixed header says {:?}", e.len(), l, frame_extent(&e)));
                } else if roundtrip {
                    match F::decode(&e) {
                        Ok(Some(q)) if &q == p => {}
                        other => rep.fail("pair-sweep-roundtrip", what(), format!("decode of the encoding gave {:?}", other.map(|o| o.map(|q| F::show(&q))).map_err(|e| e.text))),
                    }
                }
            }
            Ok((a, b)) => rep.fail("pair-sweep-len", what(), format!("encode gave {:?}, encode_len gave {:?}", a.map(|e| e.len()).map_err(|e| e.text), b.map_err(|e| e.text))),
            Err(_) => rep.fail("encode-panic", what(), "the real code panicked".into()),
        }
    }
    let pid = Pid::try_from(3).unwrap();
    for a in 0..=200usize {
        for b in 0..=200usize {
            let up = vec![v5::UserProperty { name: names[a].clone(), value: values[b].clone() }];
            let p = v5::Packet::Puback(v5::Puback { pid, reason_code: v5::PubackReasonCode::Success, properties: v5::PubackProperties { reason_string: None, user_properties: up } });
            one::<V5>(rep, &p, || format!("v5 PUBACK with one user property, name {} bytes, value {} bytes", a, b), roundtrip);
            let p = v3::Packet::Connect(v3::Connect { protocol: Protocol::V311, clean_session: true, keep_alive: 9, client_id: names[a].clone(), last_will: None, username: Some(values[b].clone()), password: Some(vec![b'p'; (a + b) % 14].into()) });
            one::<V3>(rep, &p, || format!("v3 CONNECT, client id {} bytes, user name {} bytes, password {} bytes", a, b, (a + b) % 14), roundtrip);
            if (a + 2 * b) % 4 == 0 {
                // further field pairs on a quarter of the grid each (different residues, so the union of the
                // four covers every pair once per two pair kinds)
                let p = v5::Packet::Auth(v5::Auth { reason_code: v5::AuthReasonCode::ContinueAuthentication, properties: v5::AuthProperties { auth_method: Some(names[a].clone()), auth_data: Some(vec![1u8; b].into()), reason_string: None, user_properties: vec![] } });
                one::<V5>(rep, &p, || format!("v5 AUTH, method {} bytes, data {} bytes", a, b), roundtrip);
                let p = v5::Packet::Disconnect(v5::Disconnect { reason_code: v5::DisconnectReasonCode::ServerMoved, properties: v5::DisconnectProperties { session_expiry_interval: None, reason_string: Some(names[a].clone()), user_properties: vec![], server_reference: Some(values[b].clone()) } });
                one::<V5>(rep, &p, || format!("v5 DISCONNECT, reason string {} bytes, server reference {} bytes", a, b), roundtrip);
            }
            if (a + 2 * b) % 4 == 1 {
                let p = v5::Packet::Connack(v5::Connack { session_present: false, reason_code: v5::ConnectReasonCode::Success, properties: v5::ConnackProperties { assigned_client_id: Some(names[a].clone()), response_info: Some(values[b].clone()), ..Default::default() } });
                one::<V5>(rep, &p, || format!("v5 CONNACK, assigned client id {} bytes, response information {} bytes", a, b), roundtrip);
                let p = v5::Packet::Connect(v5::Connect {
                    protocol: Protocol::V500,
                    clean_start: false,
                    keep_alive: 1,
                    properties: Default::default(),
                    client_id: names[a % 24].clone(),
                    last_will: Some(v5::LastWill { qos: mqtt_proto::QoS::Level2, retain: true, topic_name: TopicName::try_from("w".repeat(a + 1)).unwrap(), payload: vec![3u8; b].into(), properties: Default::default() }),
                    username: None,
                    password: None,
                });
                one::<V5>(rep, &p, || format!("v5 CONNECT, will topic {} bytes, will payload {} bytes", a + 1, b), roundtrip);
            }
            if (a + 2 * b) % 4 == 2 {
                let f = |n: usize| mqtt_proto::TopicFilter::try_from("f".repeat(n + 1)).unwrap();
                let p = v3::Packet::Subscribe(v3::Subscribe { pid, topics: vec![(f(a), mqtt_proto::QoS::Level0), (f(b), mqtt_proto::QoS::Level2)] });
                one::<V3>(rep, &p, || format!("v3 SUBSCRIBE, filters of {} and {} bytes", a + 1, b + 1), roundtrip);
                let p = v3::Packet::Connect(v3::Connect {
                    protocol: Protocol::V310,
                    clean_session: false,
                    keep_alive: 1,
                    client_id: names[b % 24].clone(),
                    last_will: Some(v3::LastWill { qos: mqtt_proto::QoS::Level1, retain: false, topic_name: TopicName::try_from("w".repeat(a + 1)).unwrap(), message: vec![3u8; b].into() }),
                    username: None,
                    password: None,
                });
                one::<V3>(rep, &p, || format!("v3.1 CONNECT, will topic {} bytes, will message {} bytes", a + 1, b), roundtrip);
            }
            if a > 0 && (a + b) % 3 == 0 {
                let p = v5::Packet::Publish(v5::Publish { dup: false, retain: false, qos_pid: QosPid::Level0, topic_name: TopicName::try_from("t".repeat(a)).unwrap(), payload: vec![7u8; b].into(), properties: v5::PublishProperties { content_type: Some(values[b % 7].clone()), ..Default::default() } });
                one::<V5>(rep, &p, || format!("v5 PUBLISH, topic {} bytes, payload {} bytes", a, b), roundtrip);
            }
        }
    }
}

pub fn c02_boundary(rep: &mut Report) {
    use bytes::Bytes;
    use mqtt_proto::{v3, QosPid, TopicName};
    use std::convert::TryFrom;
    // remaining length exactly at each width boundary, and the first refused size
    for target in [127usize, 128, 16383, 16384, 2097151, 2097152, 268435450, 268435455, 268435456] {
        let payload = vec![0u8; target - 3];
        let p = v3::Packet::Publish(v3::Publish { dup: false, retain: false, qos_pid: QosPid::Level0, topic_name: TopicName::try_from("t".to_string()).unwrap(), payload: Bytes::from(payload) });
        rep.cases += 1;
        let input = format!("v3 PUBLISH with remaining length {}", target);
        match catch_unwind(AssertUnwindSafe(|| (p.encode().map(|v| v.as_ref().to_vec()), p.encode_len()))) {
            Err(_) => rep.fail("boundary-panic", input, "panicked".into()),
            Ok((Ok(e), Ok(l))) if target < 268435456 => {
                let ok = e.len() == l && frame_extent(&e).map(|(h, rl)| h + rl == e.len() && rl == target) == Some(true);
                if !ok {
                    rep.fail("boundary-len", input, format!("wrote {} bytes, encode_len {}, header {:?}", e.len(), l, frame_extent(&e)));
                }
                rep.count("boundary-ok");
            }
            Ok((Err(mqtt_proto::Error::InvalidVarByteInt), Err(mqtt_proto::Error::InvalidVarByteInt))) if target >= 268435456 => rep.count("boundary-refused"),
            Ok((a, b)) => rep.fail("boundary-len", input, format!("encode {:?} encode_len {:?}", a.map(|e| e.len()), b)),
        }
    }
}

// ------------------------------------------------------------------------------------------ byte-string oracles

fn sched_for(rng: &mut Rng, n: usize) -> Vec<Sched> {
    crate::pktops::parse_sched(&gen_sched(rng, n)).unwrap()
}

/// C03 + C06 + C05 + C11 + C12 share one pass over a byte string
pub struct ByteFlags {
    pub c03: bool,
    pub c05: bool,
    pub c06: bool,
    pub c11: bool,
}

pub fn bytes_pass<F: Fam>(rep: &mut Report, b: &[u8], rng: &mut Rng, fl: &ByteFlags, walker: &dyn Fn(&F::P) -> Vec<String>, c12: bool) {
    rep.cases += 1;
    let input = dec_op::<F>(b);
    let blocking = guard(rep, "decode-panic", &input, || F::decode(b));
    let asyn = guard(rep, "decode-panic", &input, || F::decode_async(b, vec![], Term::Eof));
    let poll = guard(rep, "decode-panic", &input, || F::poll(b, vec![], Term::Eof));
    let (blocking, (asyn, aconsumed), poll) = match (blocking, asyn, poll) {
        (Some(a), Some(b), Some(c)) => (a, b, c),
        _ => return,
    };
    rep.count(match (&blocking, &poll.res) {
        (Ok(Some(_)), Ok(_)) => "accepted-by-both",
        (Ok(Some(_)), Err(_)) => "lenient-only",
        (Ok(None), _) => "incomplete",
        (Err(_), _) => "rejected",
    });
    if fl.c06 {
        // blocking == async with EOF mapped to incomplete
        let mapped: Result<Option<F::P>, ErrInfo> = match &asyn {
            Ok(p) => Ok(Some(p.clone())),
            Err(e) if e.is_eof => Ok(None),
            Err(e) => Err(e.clone()),
        };
        if mapped != blocking {
            rep.fail("blocking-vs-async", input.clone(), format!("blocking {:?} but async {:?}", blocking.as_ref().map(|o| o.as_ref().map(|p| F::show(p))), asyn.as_ref().map(|p| F::show(p))));
        }
        match &poll.res {
            Ok((total, _, p)) => {
                if asyn.as_ref().ok() != Some(p) || aconsumed != *total || blocking.as_ref().ok().and_then(|o| o.as_ref()) != Some(p) {
                    rep.fail("poll-accepts-lenient-differs", input.clone(), format!("poll accepted {} (total {}), async {:?} consumed {}", F::show(p), total, asyn.as_ref().map(|p| F::show(p)), aconsumed));
                }
            }
            Err(e) => {
                let complete = frame_extent(b).map(|(h, rl)| b.len() >= h + rl).unwrap_or(false);
                if complete && e.text != "InvalidRemainingLength" && e.io_kind.is_none() {
                    if asyn.as_ref().err().map(|x| &x.text) != Some(&e.text) {
                        rep.fail("poll-rejects-lenient-differs", input.clone(), format!("poll error {} but async {:?}", e.text, asyn.as_ref().map(|p| F::show(p))));
                    }
                }
            }
        }
    }
    if fl.c05 {
        for _ in 0..2 {
            let sched = sched_for(rng, b.len());
            let term = if rng.chance(1, 2) { Term::Eof } else { Term::Err(*rng.pick(&IOKINDS)) };
            let base = match guard(rep, "decode-panic", &input, || F::poll(b, vec![], term)) {
                Some(x) => x,
                None => return,
            };
            let sched_txt = format!("{:?}", sched);
            let pinput = format!("poll {} {} {} {}", F::NAME, hex_or_dash(b), crate::poracle::sched_text(&sched), term_text(term));
            if let Some(o) = guard(rep, "decode-panic", &pinput, || F::poll(b, sched.clone(), term)) {
                let same = match (&o.res, &base.res) {
                    (Ok(a), Ok(b2)) => a == b2,
                    (Err(a), Err(b2)) => a == b2,
                    _ => false,
                };
                if !same || o.consumed != base.consumed {
                    rep.fail("schedule-dependent", pinput.clone(), format!("with schedule {}: {:?}/{} ; uninterrupted: {:?}/{}", sched_txt, o.res.as_ref().map(|r| (r.0, F::show(&r.2))), o.consumed, base.res.as_ref().map(|r| (r.0, F::show(&r.2))), base.consumed));
                }
                if o.pendings != o.sched_pendings_consumed {
                    rep.fail("spurious-pending", pinput.clone(), format!("future returned Pending {} times, transport {} times", o.pendings, o.sched_pendings_consumed));
                }
                if let Ok((total, _, _)) = &o.res {
                    if o.consumed != *total {
                        rep.fail("consumed-vs-total", pinput.clone(), format!("consumed {} but reports total {}", o.consumed, total));
                    }
                }
                // never asks beyond the end of the current frame
                let end = match frame_extent(b) {
                    Some((h, rl)) => h + rl,
                    None => usize::MAX,
                };
                for (pos, cap) in &o.requests {
                    let in_header = frame_extent(b).map(|(h, _)| *pos < h).unwrap_or(true);
                    if *cap == 0 || (in_header && *cap != 1) || (end != usize::MAX && pos + cap > end.max(pos + 1) && !in_header) {
                        rep.fail("reads-past-frame", pinput.clone(), format!("request at {} for {} bytes, frame ends at {}", pos, cap, end));
                        break;
                    }
                }
            }
        }
    }
    // accepted packets: C11 / C12
    let mut accepted: Vec<(&str, F::P, usize)> = Vec::new();
    if let Ok(Some(p)) = &blocking {
        accepted.push(("blocking", p.clone(), aconsumed));
    }
    if let Ok((t, _, p)) = &poll.res {
        accepted.push(("poll", p.clone(), *t));
    }
    for (fe, p, consumed) in accepted {
        if c12 {
            for v in walker(&p) {
                rep.fail("invariant", input.clone(), format!("{} decoder returned a packet violating: {}", fe, v));
            }
        }
        if fl.c11 {
            match guard(rep, "reencode-panic", &input, || F::encode(&p)) {
                Some(Ok(e2)) => {
                    if e2.len() > consumed {
                        // cause: did the (lenient) decoder read beyond the frame its fixed header declares?
                        let overread = frame_extent(b).map(|(h, rl)| consumed > h + rl).unwrap_or(false);
                        let key = if overread { "lenient-understated-remaining-length" } else { "reencode-longer" };
                        rep.fail(key, input.clone(), format!("{}: re-encoding is {} bytes, decoder consumed {} (fixed header declares {:?})", fe, e2.len(), consumed, frame_extent(b)));
                    }
                    let d1 = guard(rep, "decode-panic", &input, || F::decode(&e2));
                    let d2 = guard(rep, "decode-panic", &input, || F::poll(&e2, vec![], Term::Eof));
                    let ok1 = matches!(&d1, Some(Ok(Some(q))) if *q == p);
                    let ok2 = matches!(&d2, Some(PollOut { res: Ok((t, _, q)), .. }) if *q == p && *t == e2.len());
                    if !ok1 || !ok2 {
                        rep.fail("reencode-not-fixpoint", input.clone(), format!("{}: re-encoding {} does not decode back to the packet (blocking ok={}, poll ok={})", fe, hex(&e2), ok1, ok2));
                    }
                    // "can be re-encoded": through the async encoder entry point as well (plain sink)
                    if let Some((r, written, _)) = guard(rep, "reencode-panic", &input, || F::encode_async_counted(&p, vec![])) {
                        if r.is_err() || written != e2 {
                            rep.fail("reencode-async-differs", input.clone(), format!("{}: encode_async on the accepted packet gave {:?} and wrote {} bytes; encode() gives {} bytes", fe, r.map_err(|e| e.text), written.len(), e2.len()));
                        }
                    }
                }
                Some(Err(e)) => rep.fail("reencode-error", input.clone(), format!("{}: accepted packet cannot be re-encoded: {}", fe, e.text)),
                None => {}
            }
        }
    }
}

pub fn sched_text(s: &[Sched]) -> String {
    if s.is_empty() {
        return "-".into();
    }
    s.iter()
        .map(|x| match x {
            Sched::Chunk(n) => format!("c{}", n),
            Sched::InitChunk(n) => format!("i{}", n),
            Sched::Rest(n) => format!("then<={}", n),
            Sched::Pending => "p".into(),
            Sched::PendingDrop => "d".into(),
        })
        .collect::<Vec<_>>()
        .join(",")
}
pub fn term_text(t: Term) -> String {
    match t {
        Term::Eof => "eof".into(),
        Term::Err(k) => format!("err:{}", io_kind(k)),
    }
}

// ------------------------------------------------------------------------------------------ C07 / C14 (read side)

pub fn c07<F: Fam>(rep: &mut Report, p: &F::P, rng: &mut Rng, faults: bool) {
    let input = enc_op::<F>(p);
    let enc = match F::encode(p) {
        Ok(e) => e,
        Err(_) => return,
    };
    let cuts: Vec<usize> = if enc.len() <= 400 { (0..enc.len()).collect() } else { (0..200).map(|_| rng.below(enc.len() as u64) as usize).chain([0, 1, 2, enc.len() - 1]).collect() };
    for k in cuts {
        rep.cases += 1;
        let pre = &enc[..k];
        let cinput = format!("{} cut at {}", input, k);
        if !faults {
            match guard(rep, "decode-panic", &cinput, || F::decode(pre)) {
                Some(Ok(None)) => {}
                Some(o) => rep.fail("prefix-not-incomplete", format!("dec {} {}", F::NAME, hex_or_dash(pre)), format!("blocking decoder on a strict prefix gave {:?}", o.map(|x| x.map(|q| F::show(&q))))),
                None => {}
            }
        }
        let terms: Vec<Term> = if faults { vec![Term::Err(*rng.pick(&READ_IOKINDS)), Term::Err(*rng.pick(&READ_IOKINDS)), Term::Eof] } else { vec![Term::Eof] };
        for (ti, term) in terms.into_iter().enumerate() {
            let sched = if rng.chance(1, 2) { vec![] } else { sched_for(rng, k) };
            // the second fault of each cut is ONE-SHOT: the transport fails once and would then deliver the
            // rest of the packet — the error must surface all the same
            let one_shot = faults && ti == 1;
            let arm = || {
                if one_shot {
                    crate::sio::AFTER_FAULT.with(|a| *a.borrow_mut() = Some(enc[k..].to_vec()));
                }
            };
            arm();
            let a = guard(rep, "decode-panic", &cinput, || F::decode_async(pre, vec![], term));
            arm();
            let pl = guard(rep, "decode-panic", &cinput, || F::poll(pre, sched.clone(), term));
            let check = |rep: &mut Report, what: &str, e: Option<&ErrInfo>, shown: String| {
                let ok = match (term, e) {
                    (Term::Eof, Some(e)) => e.is_eof,
                    (Term::Err(k), Some(e)) => e.io_kind == Some(k),
                    _ => false,
                };
                if !ok {
                    let key = if faults { "fault-not-io-error" } else { "prefix-not-incomplete" };
                    let tt = if one_shot { format!("{}+{}", term_text(term), hex_or_dash(&enc[k..])) } else { term_text(term) };
                    rep.fail(key, format!("{} {} {} {} {}", what, F::NAME, hex_or_dash(pre), if what == "poll" { sched_text(&sched) } else { String::new() }, tt), format!("{} decoder with the stream {} {:?} after {} of {} bytes gave {}", what, if one_shot { "failing ONCE (the rest of the packet follows) with" } else { "ending in" }, term, k, enc.len(), shown));
                }
            };
            if let Some((r, _)) = a {
                let shown = format!("{:?}", r.as_ref().map(|q| F::show(q)));
                check(rep, "deca", r.as_ref().err(), shown);
            }
            if let Some(o) = pl {
                let shown = format!("{:?}", o.res.as_ref().map(|q| F::show(&q.2)));
                check(rep, "poll", o.res.as_ref().err(), shown);
            }
        }
    }
    // trailing bytes are ignored
    rep.cases += 1;
    let mut ext = enc.clone();
    let tail: Vec<u8> = if rng.chance(1, 2) { enc.clone() } else { (0..(1 + rng.below(6))).map(|_| rng.next() as u8).collect() };
    ext.extend_from_slice(&tail);
    let term = if faults { Term::Err(*rng.pick(&READ_IOKINDS)) } else { Term::Eof };
    match guard(rep, "decode-panic", &input, || (F::decode(&ext), F::decode_async(&ext, vec![], term), F::poll(&ext, sched_for(rng, ext.len()), term))) {
        Some((Ok(Some(a)), (Ok(b), n), PollOut { res: Ok((t, _, c)), .. })) if a == *p && b == *p && c == *p && n == enc.len() && t == enc.len() => {}
        Some((a, (b, n), c)) => rep.fail("trailing-bytes-matter", format!("dec {} {}", F::NAME, hex(&ext)), format!("encoding followed by more bytes: blocking {:?}, async {:?}/{}, poll {:?}", a.map(|x| x.map(|q| F::show(&q))), b.map(|q| F::show(&q)), n, c.res.map(|q| (q.0, F::show(&q.2))))),
        None => {}
    }
}

// ------------------------------------------------------------------------------------------ C08

pub fn c08<F: Fam>(rep: &mut Report, ps: &[F::P], rng: &mut Rng) {
    rep.cases += 1;
    let encs: Vec<Vec<u8>> = ps.iter().filter_map(|p| F::encode(p).ok()).collect();
    if encs.len() != ps.len() {
        return;
    }
    let stream: Vec<u8> = encs.concat();
    let input = format!("stream {} {}", F::NAME, ps.iter().map(|p| F::show(p)).collect::<Vec<_>>().join(" ; "));
    let input = if input.len() > 4000 { format!("{}…", &input[..4000]) } else { input };
    // blocking: advance by encode_len of what was returned
    let mut pos = 0;
    for (i, p) in ps.iter().enumerate() {
        match guard(rep, "decode-panic", &input, || F::decode(&stream[pos..])) {
            Some(Ok(Some(q))) if q == *p => match F::encode_len(&q) {
                Ok(l) if l == encs[i].len() => pos += l,
                other => {
                    rep.fail("stream-length", input.clone(), format!("packet {}: encode_len {:?} but its encoding is {} bytes", i, other, encs[i].len()));
                    return;
                }
            },
            Some(o) => {
                rep.fail("stream-blocking", input.clone(), format!("packet {} at offset {}: got {:?}", i, pos, o.map(|x| x.map(|q| F::show(&q)))));
                return;
            }
            None => return,
        }
    }
    if pos != stream.len() || !matches!(F::decode(&stream[pos..]), Ok(None)) {
        rep.fail("stream-end", input.clone(), format!("after the last packet: offset {} of {}, decode gave {:?}", pos, stream.len(), F::decode(&stream[pos..]).map(|x| x.map(|q| F::show(&q)))));
    }
    // poll: one reader over the whole stream, a fresh state per packet, random chunking
    let mut off = 0;
    for (i, p) in ps.iter().enumerate() {
        let sched = sched_for(rng, stream.len() - off);
        match guard(rep, "decode-panic", &input, || F::poll(&stream[off..], sched, Term::Eof)) {
            Some(o) => match o.res {
                Ok((t, _, q)) if q == *p && t == encs[i].len() && o.consumed == t => off += t,
                r => {
                    rep.fail("stream-poll", input.clone(), format!("packet {} at offset {}: poll gave {:?}, consumed {}", i, off, r.map(|x| (x.0, F::show(&x.2))), o.consumed));
                    return;
                }
            },
            None => return,
        }
    }
    match F::poll(&stream[off..], vec![], Term::Eof).res {
        Err(e) if e.is_eof && off == stream.len() => {}
        r => rep.fail("stream-end", input.clone(), format!("poll after the last packet: {:?}", r.map(|x| x.0))),
    }
    // async: positions through one scripted reader (each call sees the rest of the stream)
    let mut off = 0;
    for (i, p) in ps.iter().enumerate() {
        let sched = sched_for(rng, stream.len() - off);
        match guard(rep, "decode-panic", &input, || F::decode_async(&stream[off..], sched, Term::Eof)) {
            Some((Ok(q), n)) if q == *p && n == encs[i].len() => off += n,
            Some((r, n)) => {
                rep.fail("stream-async", input.clone(), format!("packet {} at offset {}: async gave {:?} consumed {}", i, off, r.map(|q| F::show(&q)), n));
                return;
            }
            None => return,
        }
    }
    rep.count(&format!("stream-of-{}", ps.len().min(20)));
}

// ------------------------------------------------------------------------------------------ C09 / C14 (write side)

pub fn c09<F: Fam>(rep: &mut Report, p: &F::P, rng: &mut Rng, faults: bool) {
    rep.cases += 1;
    let input = enc_op::<F>(p);
    let enc = match guard(rep, "encode-panic", &input, || F::encode(p)) {
        Some(Ok(e)) => e,
        _ => return,
    };
    if !faults {
        if F::encode(p).ok().as_ref() != Some(&enc) {
            rep.fail("encode-nondeterministic", input.clone(), "two calls to encode() differ".into());
        }
        for mode in 0..4 {
            let script: Vec<WItem> = match mode {
                0 => vec![],
                1 => (0..enc.len() + 2).map(|_| WItem::Accept(1)).collect(),
                2 => (0..40).map(|_| if rng.chance(1, 3) { WItem::Pending } else { WItem::Accept(1 + rng.below(7) as usize) }).collect(),
                _ => vec![WItem::Pending, WItem::Accept(enc.len() / 2 + 1), WItem::Pending, WItem::Pending],
            };
            // every sink in both flavours: plain, and gathering (write_vectored applied to the concatenation)
            let script: Vec<WItem> = if rng.chance(1, 2) { std::iter::once(WItem::Gather).chain(script.into_iter()).collect() } else { script };
            match guard(rep, "encode-panic", &input, || F::encode_async(p, script.clone())) {
                Some((Ok(()), w)) if w == enc => {}
                Some((r, w)) => rep.fail("encode-async-differs", format!("enca {} {:?} {}", F::NAME, script, F::show(p)), format!("encode_async gave {:?} and wrote {} (encode() gives {})", r, hex(&w), hex(&enc))),
                None => {}
            }
        }
        // streaming body encoder into a sink that takes 1..k bytes at a time
        let script: Vec<WItem> = (0..60).map(|_| WItem::Accept(1 + rng.below(5) as usize)).collect();
        for gather in [false, true] {
            let script: Vec<WItem> = if gather { std::iter::once(WItem::Gather).chain(script.iter().cloned()).collect() } else { script.clone() };
            if let Some(Some((r, w, _))) = guard(rep, "encode-panic", &input, || F::body_stream(p, script)) {
                if r.is_err() || w[..] != enc[header_len(enc.len())..] {
                    rep.fail(
                        "body-stream-differs",
                        input.clone(),
                        format!("Encodable::encode of the body into a chunking {}sink wrote {} ; packet body is {}", if gather { "GATHERING (write_vectored) " } else { "" }, hex(&w), hex(&enc[header_len(enc.len())..])),
                    );
                }
            }
        }
    } else {
        // a write error / zero-length write at position j
        let j = rng.below(enc.len() as u64 + 1) as usize;
        let kind = *rng.pick(&IOKINDS);
        let zero = rng.chance(1, 3);
        let mut script: Vec<WItem> = Vec::new();
        let mut left = j;
        while left > 0 {
            let n = 1 + rng.below(left as u64) as usize;
            script.push(WItem::Accept(n));
            left -= n;
        }
        script.push(if zero { WItem::Zero } else { WItem::Err(kind) });
        let expect_kind = if zero { io::ErrorKind::WriteZero } else { kind };
        if j < enc.len() {
            match guard(rep, "encode-panic", &input, || F::encode_async(p, script.clone())) {
                Some((Err(e), w)) if e.io_kind == Some(expect_kind) && enc.starts_with(&w) && w.len() == j => {}
                Some((r, w)) => rep.fail("write-fault", format!("enca {} fault@{} {:?} {}", F::NAME, j, expect_kind, F::show(p)), format!("encode_async with a {:?} at byte {} gave {:?} after writing {} bytes (prefix ok: {})", expect_kind, j, r, w.len(), enc.starts_with(&w))),
                None => {}
            }
        }
        // streaming body encoder: fault at byte jb of the body
        if let Some(Some((_, full, _))) = guard(rep, "encode-panic", &input, || F::body_stream(p, vec![])) {
            if !full.is_empty() {
                let jb = rng.below(full.len() as u64) as usize;
                let mut script: Vec<WItem> = Vec::new();
                let mut left = jb;
                while left > 0 {
                    let n = 1 + rng.below(left as u64) as usize;
                    script.push(WItem::Accept(n));
                    left -= n;
                }
                script.push(if zero { WItem::Zero } else { WItem::Err(kind) });
                if let Some(Some((r, w, _))) = guard(rep, "encode-panic", &input, || F::body_stream(p, script)) {
                    // (pieces smaller than an Accept(n) item use the item up early, so the fault may fire before byte jb)
                    if r != Err(expect_kind) || !full.starts_with(&w) || w.len() > jb {
                        rep.fail("write-fault", format!("body stream {} fault@{} {:?} {}", F::NAME, jb, expect_kind, F::show(p)), format!("streaming encoder gave {:?} after {} bytes (prefix ok: {})", r, w.len(), full.starts_with(&w)));
                    }
                }
            }
        }
    }
}
