mod fmt;
mod gen;
mod ops;
mod large;
mod oracle;
mod pgen;
mod catalogue;
mod pkt;
mod fam;
mod poracle;
mod walk;
mod pktops;
mod v3text;
mod v5text;
mod report;
mod sio;
mod tables;

use std::io::{BufRead, Write};

/// Result lines longer than 100,000 characters are printed as their first 2,000 characters plus
/// length and FNV-1a hash (the model driver does the same), so that a decoder which starts
/// returning 256 MB packets cannot exhaust the memory of the comparison.
fn clip(s: String) -> String {
    if s.len() <= 100_000 {
        return s;
    }
    let mut h: u64 = 0xcbf29ce484222325;
    for b in s.as_bytes() {
        h = (h ^ (*b as u64)).wrapping_mul(0x100000001b3);
    }
    format!("{} ...clipped len={} fnv={}", &s[..2000], s.len(), h)
}

fn main() {
    let args: Vec<String> = std::env::args().collect();
    let cmd = args.get(1).map(|s| s.as_str()).unwrap_or("");
    match cmd {
        "gen-tables" => {
            print!("{}", tables::gen_tables(true));
            // the break points found by the total scan become boundary values for every generator and
            // oracle of this build (next to the executable: <target>/boundaries.txt)
            let mut b = tables::BREAKS.with(|b| b.borrow().clone());
            b.sort();
            b.dedup();
            if let Some(path) = pgen::boundaries_path() {
                let _ = std::fs::write(path, b.iter().map(|x| x.to_string()).collect::<Vec<_>>().join("\n"));
            }
        }
        "run" => {
            // ops on stdin, one result line per op on stdout
            std::panic::set_hook(Box::new(|_| {}));
            // ops from the file named by the next argument, else from stdin
            let input: Box<dyn BufRead> = match args.get(2) {
                Some(path) => Box::new(std::io::BufReader::new(std::fs::File::open(path).expect("ops file"))),
                None => Box::new(std::io::BufReader::new(std::io::stdin())),
            };
            let stdout = std::io::stdout();
            let mut out = std::io::BufWriter::new(stdout.lock());
            for line in input.lines() {
                let line = line.unwrap();
                let line = line.trim();
                if line.is_empty() {
                    continue;
                }
                let res = ops::run_op_caught(line);
                writeln!(out, "{}", clip(res)).unwrap();
            }
        }
        "gen" => {
            let stream = &args[2];
            let tier = args.get(3).map(|s| s.as_str()).unwrap_or("quick");
            let seed: u64 = args.get(4).and_then(|s| s.parse().ok()).unwrap_or(0);
            let stdout = std::io::stdout();
            let mut out = std::io::BufWriter::new(stdout.lock());
            for l in gen::gen(stream, tier, seed) {
                writeln!(out, "{}", l).unwrap();
            }
        }
        "oracle" => {
            let prop = &args[2];
            let tier = args.get(3).map(|s| s.as_str()).unwrap_or("quick");
            let seed: u64 = args.get(4).and_then(|s| s.parse().ok()).unwrap_or(0);
            std::panic::set_hook(Box::new(|_| {}));
            let ops: Option<Vec<String>> = if args.iter().any(|a| a == "--ops") {
                Some(std::io::stdin().lock().lines().map(|l| l.unwrap()).filter(|l| !l.trim().is_empty()).collect())
            } else {
                None
            };
            let ops = ops.as_deref();
            // where the last panic of the real code happened (for failure details)
            std::panic::set_hook(Box::new(|info| {
                let loc = info.location().map(|l| format!("{}:{}", l.file(), l.line())).unwrap_or_default();
                let msg = info.payload().downcast_ref::<&str>().map(|s| s.to_string()).or_else(|| info.payload().downcast_ref::<String>().cloned()).unwrap_or_default();
                if let Ok(mut g) = report::LAST_PANIC.lock() {
                    *g = format!("{} at {}", msg.chars().take(200).collect::<String>(), loc);
                }
            }));
            let rep = match prop.as_str() {
                "C15" => oracle::c15(tier, seed, ops),
                "C19" => oracle::c19(tier, ops),
                "C16" => oracle::c16(tier, seed, ops),
                "C13" => oracle::c13(tier, seed, ops),
                "C04" => oracle::c04(tier, seed, ops),
                "C20" => oracle::c20(tier, seed, ops),
                "C01" | "C02" | "C03" | "C05" | "C06" | "C07" | "C08" | "C09" | "C11" | "C12" | "C14" => {
                    let mut rep = oracle::packet_oracle(prop, tier, seed, ops);
                    if ops.is_none() && matches!(prop.as_str(), "C06" | "C12" | "C03" | "C11") {
                        use fam::{V3, V5};
                        poracle::history_invariance::<V3>(&mut rep, &poracle::hist_frames::<V3>(tier, seed));
                        poracle::history_invariance::<V5>(&mut rep, &poracle::hist_frames::<V5>(tier, seed));
                    }
                    if ops.is_none() {
                        // the same property on packets of 64 KiB .. 256 MiB (the corpus above stays < 200 KB)
                        let mut lrep = report::Report::new(prop, "");
                        let r = std::panic::catch_unwind(std::panic::AssertUnwindSafe(|| large::large(&mut lrep, prop, tier == "thorough", seed)));
                        rep.merge(lrep);
                        if r.is_err() {
                            let at = report::LAST_PANIC.lock().map(|g| g.clone()).unwrap_or_default();
                            rep.fail("decode-panic", format!("large-packet oracle for {}", prop), format!("the real code panicked: {}", at));
                        }
                    }
                    rep
                }
                "C17" => oracle::c17(tier, seed, ops),
                "C18" => oracle::c18(tier, seed, ops),
                other => {
                    eprintln!("no oracle for {other}");
                    std::process::exit(2);
                }
            };
            println!("{}", rep.to_json());
        }
        _ => {
            eprintln!("usage: harness gen-tables | run");
            std::process::exit(2);
        }
    }
}
