//! Oracles over LARGE packets (64 KiB .. 256 MiB), shared by the properties whose statement ranges
//! over every valid packet / every cut / every sequence.  The generated corpus stays below ~200 KB
//! per packet, and a defect can live entirely above that (a buffer that is grown on demand, a payload
//! read in two stages, a length field width at 2 MiB).  Sizes: fixed values around every power of two
//! from 2^16 to 2^28 plus seeded log-uniform random sizes (defect windows need not be monotone).
//! Shapes: PUBLISH with a big payload; v5 PUBLISH with a big property section (shared 65,535-byte
//! user properties); SUBSCRIBE with many long filters.  Implementation-side search support only.

use crate::fam::{Fam, V3, V5};
use crate::poracle::{frame_extent, sched_text, IOKINDS, READ_IOKINDS};
use crate::report::{Report, Rng};
use crate::sio::{Sched, Term, WItem};
use mqtt_proto::{header_len, v3, v5, Pid, QoS, QosPid, TopicFilter, TopicName};
use std::convert::TryFrom;
use std::io;
use std::sync::Arc;

fn payload(n: usize) -> Vec<u8> {
    (0..n).map(|i| (i.wrapping_mul(31) >> 3) as u8).collect()
}

fn v3_publish(n: usize) -> v3::Packet {
    v3::Packet::Publish(v3::Publish {
        dup: false,
        retain: true,
        qos_pid: QosPid::Level1(Pid::try_from(7).unwrap()),
        topic_name: TopicName::try_from("t".to_string()).unwrap(),
        payload: payload(n).into(),
    })
}

fn v5_publish(n: usize, prop_bytes: usize) -> v5::Packet {
    let mut properties = v5::PublishProperties::default();
    if prop_bytes > 0 {
        let big = Arc::new("a".repeat(65535));
        let mut left = prop_bytes;
        while left >= 5 {
            let take = left.min(5 + 2 * 65535);
            let pl = take - 5;
            let a = pl.min(65535);
            let b = pl - a;
            let name = if a == 65535 { big.clone() } else { Arc::new("n".repeat(a)) };
            let value = if b == 65535 { big.clone() } else { Arc::new("v".repeat(b)) };
            properties.user_properties.push(v5::UserProperty { name, value });
            left -= take;
        }
    }
    v5::Packet::Publish(v5::Publish {
        dup: false,
        retain: false,
        qos_pid: QosPid::Level0,
        topic_name: TopicName::try_from("t".to_string()).unwrap(),
        payload: payload(n).into(),
        properties,
    })
}

fn filters(total: usize) -> Vec<TopicFilter> {
    let each = 60_000usize;
    let k = (total / each).max(1);
    (0..k)
        .map(|i| {
            let mut s = format!("f{}/", i);
            while s.len() < each {
                s.push_str("level/+/");
            }
            s.push('#');
            TopicFilter::try_from(s).unwrap()
        })
        .collect()
}

fn v3_subscribe(total: usize) -> v3::Packet {
    v3::Packet::Subscribe(v3::Subscribe { pid: Pid::try_from(9).unwrap(), topics: filters(total).into_iter().map(|f| (f, QoS::Level1)).collect() })
}

fn v5_subscribe(total: usize) -> v5::Packet {
    v5::Packet::Subscribe(v5::Subscribe {
        pid: Pid::try_from(9).unwrap(),
        properties: Default::default(),
        topics: filters(total).into_iter().map(|f| (f, v5::SubscriptionOptions::new(QoS::Level2))).collect(),
    })
}

pub fn sizes(thorough: bool, seed: u64) -> Vec<usize> {
    let mut v: Vec<usize> = vec![4_097, 6_000, 9_000, 20_000, 65_536, 70_001, (1 << 20) + 10, (3 << 20) + 1, (1 << 22) + 1, (6 << 20) + 5, (1 << 23) + 1, (12 << 20) + 3, (1 << 24) + 1, 33 << 20];
    if thorough {
        v.extend([65_535, (1 << 17) - 1, 1 << 19, (1 << 21) - 4, (1 << 21) + 3, (1 << 22) - 9, (1 << 23) - 2, (1 << 24) - 3, (1 << 25) + 1, (1 << 26) - 1, 100_000_003, (1 << 27) + 2]);
    }
    // payloads that put the REMAINING LENGTH on either side of 2,097,151 / 2,097,152 (3 → 4 length bytes) for the
    // small variable headers used here (3..7 bytes)
    v.extend((1usize << 21) - 8..=(1 << 21) + 1);
    // thresholds the code itself mentions (harvested integer literals and their small products) above 64 KiB
    for n in crate::pgen::numeric_literals().iter().cloned().filter(|n| *n > 65_536 && *n <= (64 << 20)).take(if thorough { 24 } else { 6 }) {
        v.extend([n - 1, n + 1]);
    }
    // log-uniform random sizes in [64 KiB, 96 MiB]
    let mut rng = Rng::new(seed ^ 0x1a46e);
    for _ in 0..(if thorough { 12 } else { 3 }) {
        let bits = 16 + rng.below(11) as u32; // 2^16 .. 2^26
        let base = 1usize << bits;
        v.push((base + rng.below(base as u64) as usize).min(96 << 20));
    }
    v
}

struct Case<'a, F: Fam> {
    what: String,
    p: &'a F::P,
    enc: Vec<u8>,
}

fn chunky() -> Vec<Sched> {
    vec![Sched::Chunk(1), Sched::Chunk(3), Sched::InitChunk(70_000), Sched::Pending, Sched::Chunk(1 << 20), Sched::Rest(262_147)]
}

fn roundtrip<F: Fam>(rep: &mut Report, c: &Case<F>) {
    let enc = &c.enc;
    let hl = header_len(enc.len());
    match F::encode_len(c.p) {
        Ok(l) if l == enc.len() => {}
        other => rep.fail("large-len-mismatch", c.what.clone(), format!("encode wrote {} bytes, encode_len says {:?}", enc.len(), other.map_err(|e| e.text))),
    }
    match frame_extent(enc) {
        Some((h, rl)) if h + rl == enc.len() => {}
        other => rep.fail("large-header", c.what.clone(), format!("fixed header says {:?} for {} bytes", other, enc.len())),
    }
    let mut ext = enc.clone();
    ext.extend_from_slice(&[0xc0, 0x00, 0x31, 0xff, 0xff, 0xff, 0xff]);
    for (tag, data) in [("exact", enc), ("with-trailing", &ext)] {
        match F::decode(data) {
            Ok(Some(q)) if &q == c.p => {}
            other => rep.fail("large-roundtrip-blocking", c.what.clone(), format!("{}: blocking decode gave {:?}", tag, other.map(|o| o.is_some()).map_err(|e| e.text))),
        }
        for sched in [vec![], chunky()] {
            match F::decode_async(data, sched.clone(), Term::Eof) {
                (Ok(q), n) if &q == c.p && n == enc.len() => {}
                (r, n) => rep.fail(
                    "large-roundtrip-async",
                    c.what.clone(),
                    format!("{} (reader schedule {}): async decode gave {:?}, consumed {} of {}", tag, sched_text(&sched), r.map(|_| "a different packet").map_err(|e| e.text), n, enc.len()),
                ),
            }
            let o = F::poll(data, sched.clone(), Term::Eof);
            match o.res {
                Ok((total, body, q)) if q == *c.p && total == enc.len() && body[..] == enc[hl..] && o.consumed == enc.len() => {}
                r => rep.fail(
                    "large-roundtrip-poll",
                    c.what.clone(),
                    format!("{} (reader schedule {}): poll decode gave {:?}, consumed {} (encoding is {} bytes)", tag, sched_text(&sched), r.map(|(t, b, _)| (t, b.len())).map_err(|e| e.text), o.consumed, enc.len()),
                ),
            }
        }
    }
}

/// C05/C06 on PADDED fixed headers: the same frame with its remaining length spelt in every longer legal
/// form, and the transport Pending (future kept, future dropped) after each of the first bytes — in particular
/// exactly between the last length byte and the first body byte. Same packet, `total` = bytes of THIS spelling.
fn padded<F: Fam>(rep: &mut Report, c: &Case<F>) {
    if c.enc.len() > (2 << 20) {
        return;
    }
    let hl = header_len(c.enc.len());
    let rl = c.enc.len() - hl;
    for width in hl..=4 {
        // (hl - 1) is the minimal width; `width` length bytes here
        let mut frame = vec![c.enc[0]];
        let mut n = rl;
        for i in 0..width {
            let mut b = (n & 0x7f) as u8;
            n >>= 7;
            if i + 1 < width {
                b |= 0x80;
            }
            frame.push(b);
        }
        let fh = frame.len();
        frame.extend_from_slice(&c.enc[hl..]);
        let mut ext = frame.clone();
        ext.extend_from_slice(&[0xc0, 0x00, 0x31, 0xff, 0xff]);
        let mut scheds: Vec<Vec<Sched>> = vec![vec![], chunky()];
        for k in 1..=fh + 1 {
            for pend in [Sched::Pending, Sched::PendingDrop] {
                let mut v = vec![Sched::Chunk(1); k];
                v.push(pend);
                v.push(Sched::Rest(1 << 20));
                scheds.push(v);
            }
        }
        for (tag, data) in [("exact", &frame), ("with-trailing", &ext)] {
            match F::decode(data) {
                Ok(Some(q)) if &q == c.p => {}
                other => rep.fail("large-padded-blocking", c.what.clone(), format!("{} length bytes, {}: blocking decode gave {:?}", width, tag, other.map(|o| o.is_some()).map_err(|e| e.text))),
            }
            for sched in &scheds {
                match F::decode_async(data, sched.clone(), Term::Eof) {
                    (Ok(q), n) if &q == c.p && n == frame.len() => {}
                    (r, n) => rep.fail("large-padded-async", c.what.clone(), format!("{} length bytes, {} (reader schedule {}): async decode gave {:?}, consumed {} of {}", width, tag, sched_text(sched), r.map(|_| "a different packet").map_err(|e| e.text), n, frame.len())),
                }
                let o = F::poll(data, sched.clone(), Term::Eof);
                match o.res {
                    Ok((total, body, q)) if q == *c.p && total == frame.len() && body[..] == frame[fh..] && o.consumed == frame.len() => {}
                    r => rep.fail(
                        "large-padded-poll",
                        c.what.clone(),
                        format!("{} length bytes, {} (reader schedule {}): poll decode gave {:?}, consumed {} (this spelling is {} bytes)", width, tag, sched_text(sched), r.map(|(t, b, _)| (t, b.len())).map_err(|e| e.text), o.consumed, frame.len()),
                    ),
                }
            }
        }
    }
}

/// C05 on a TRICKLE: a never-Pending transport that delivers 1 (or 3) bytes per read.  Thousands of
/// consecutive ready reads inside one poll call: the decoder must neither return Pending on its own
/// (cooperative-yield budgets), nor lose track of the frame.
fn trickle<F: Fam>(rep: &mut Report, c: &Case<F>) {
    if c.enc.len() > (1 << 20) + 64 {
        return;
    }
    let hl = header_len(c.enc.len());
    let mut ext = c.enc.clone();
    ext.extend_from_slice(&[0xc0, 0x00]);
    for step in [1usize, 3] {
        rep.cases += 1;
        let o = F::poll(&ext, vec![Sched::Rest(step)], Term::Eof);
        let pend = o.pendings;
        match o.res {
            Ok((total, body, q)) if q == *c.p && total == c.enc.len() && body[..] == c.enc[hl..] && o.consumed == c.enc.len() && pend == 0 => {}
            r => rep.fail(
                "large-trickle",
                c.what.clone(),
                format!("a never-Pending transport delivering {} byte(s) per read: poll decode gave {:?}, consumed {} of {}, and returned Pending {} time(s) although the transport never did", step, r.map(|(t, b, _)| (t, b.len())).map_err(|e| e.text), o.consumed, c.enc.len(), pend),
            ),
        }
        let (r, n) = F::decode_async(&ext, vec![Sched::Rest(step)], Term::Eof);
        if !matches!(&r, Ok(q) if q == c.p) || n != c.enc.len() {
            rep.fail("large-trickle", c.what.clone(), format!("{} byte(s) per read: async decode gave {:?}, consumed {} of {}", step, r.map(|_| "a different packet").map_err(|e| e.text), n, c.enc.len()));
        }
    }
}

fn cut_positions(len: usize, hl: usize, few: bool) -> Vec<usize> {
    let mut v = vec![hl + 1, len - 1, len / 2];
    let mut k = 16;
    while (1usize << k) + hl < len {
        v.push(hl + (1 << k) + 9);
        if !few {
            v.push(hl + (1 << k) - 1);
        }
        k += if few { 3 } else { 1 };
    }
    v.retain(|c| *c > 0 && *c < len);
    v.sort();
    v.dedup();
    v
}

fn cuts<F: Fam>(rep: &mut Report, c: &Case<F>, faults: bool, rng: &mut Rng) {
    let enc = &c.enc;
    let hl = header_len(enc.len());
    for cut in cut_positions(enc.len(), hl, enc.len() > (40 << 20)) {
        rep.cases += 1;
        let pre = &enc[..cut];
        let what = || format!("{} cut after {} of {} bytes", c.what, cut, enc.len());
        if !faults {
            match F::decode(pre) {
                Ok(None) => {}
                other => rep.fail("large-prefix-blocking", what(), format!("blocking decode of a strict prefix gave {:?}", other.map(|o| o.map(|_| "a packet")).map_err(|e| e.text))),
            }
        }
        // C14 has both clauses: a transport error keeps its kind, and end-of-stream inside a packet is an EOF error
        let terms = if faults { vec![Term::Err(*rng.pick(&READ_IOKINDS)), Term::Eof] } else { vec![Term::Eof] };
        for (term, sched) in terms.into_iter().flat_map(|t| [(t, vec![]), (t, chunky())]) {
            let ok = |e: &crate::fam::ErrInfo| match term {
                Term::Eof => e.is_eof,
                Term::Err(k) => e.io_kind == Some(k),
            };
            match F::decode_async(pre, sched.clone(), term) {
                (Err(e), _) if ok(&e) => {}
                (r, n) => rep.fail(
                    if faults { "large-fault-async" } else { "large-prefix-async" },
                    what(),
                    format!("async decode (reader schedule {}, stream ends with {:?}) gave {:?} after consuming {}", sched_text(&sched), term, r.map(|_| "a packet").map_err(|e| e.text), n),
                ),
            }
            let o = F::poll(pre, sched.clone(), term);
            match o.res {
                Err(e) if ok(&e) => {}
                r => rep.fail(
                    if faults { "large-fault-poll" } else { "large-prefix-poll" },
                    what(),
                    format!("poll decode (reader schedule {}, stream ends with {:?}) gave {:?}", sched_text(&sched), term, r.map(|(t, _, _)| t).map_err(|e| e.text)),
                ),
            }
        }
    }
}

fn writes<F: Fam>(rep: &mut Report, c: &Case<F>, faults: bool, rng: &mut Rng) {
    let enc = &c.enc;
    let hl = header_len(enc.len());
    if !faults {
        // the container is header + streamed body: the length field, read by an independent var-int reader, must
        // describe exactly the streamed body
        match frame_extent(enc) {
            Some((h, rl)) if h == hl && h + rl == enc.len() => {}
            other => rep.fail("large-header", c.what.clone(), format!("encode() wrote {} bytes whose fixed header reads as (header bytes, remaining length) = {:?}", enc.len(), other)),
        }
        for gather in [false, true] {
            let mut script = vec![WItem::Accept(1), WItem::Accept(70_000), WItem::Pending, WItem::Accept(1 << 20), WItem::Accept(3)];
            if gather {
                script.insert(0, WItem::Gather);
            }
            match F::encode_async(c.p, script.clone()) {
                (Ok(()), w) if w == *enc => {}
                (r, w) => rep.fail("large-encode-async", c.what.clone(), format!("encode_async into sink {:?} gave {:?} and delivered {} of {} bytes", script, r.map_err(|e| e.text), w.len(), enc.len())),
            }
            let mut script = vec![WItem::Accept(3), WItem::Accept(100_000), WItem::Accept(2), WItem::Accept(65_537), WItem::Accept(1 << 21)];
            if gather {
                script.insert(0, WItem::Gather);
            }
            if let Some((r, w, blen)) = F::body_stream(c.p, script.clone()) {
                if r.is_err() || w[..] != enc[hl..] || blen != enc.len() - hl {
                    rep.fail("large-body-stream", c.what.clone(), format!("Encodable::encode of the body into sink {:?} gave {:?}, wrote {} bytes, reports {}; the packet body is {} bytes", script, r, w.len(), blen, enc.len() - hl));
                }
            }
        }
    } else {
        for j in [65_536usize, enc.len() / 2 + 1, enc.len() - 1] {
            if j >= enc.len() {
                continue;
            }
            let kind = *rng.pick(&IOKINDS);
            let zero = rng.chance(1, 3);
            let expect = if zero { io::ErrorKind::WriteZero } else { kind };
            let script = vec![WItem::Accept(5), WItem::Accept(j - 5), if zero { WItem::Zero } else { WItem::Err(kind) }];
            match F::encode_async(c.p, script) {
                (Err(e), w) if e.io_kind == Some(expect) && w.len() == j && enc.starts_with(&w) => {}
                (r, w) => rep.fail("large-write-fault", format!("{} write fault {:?} at byte {}", c.what, expect, j), format!("encode_async gave {:?} after delivering {} bytes", r.map_err(|e| e.text), w.len())),
            }
        }
    }
}

fn one<F: Fam>(rep: &mut Report, prop: &str, what: String, p: &F::P, rng: &mut Rng) -> Option<Vec<u8>> {
    rep.cases += 1;
    let enc = match F::encode(p) {
        Ok(e) => e,
        Err(e) => {
            rep.fail("large-encode-error", what, format!("valid packet refused: {}", e.text));
            return None;
        }
    };
    rep.count(match enc.len() {
        0..=1_048_575 => "large:<1MiB",
        1_048_576..=4_194_303 => "large:1-4MiB",
        4_194_304..=16_777_215 => "large:4-16MiB",
        16_777_216..=67_108_863 => "large:16-64MiB",
        _ => "large:>=64MiB",
    });
    let c = Case::<F> { what, p, enc };
    match prop {
        "C05" | "C06" => {
            roundtrip(rep, &c);
            trickle(rep, &c);
            padded(rep, &c);
        }
        "C01" | "C02" | "C03" | "C11" | "C12" => roundtrip(rep, &c),
        "C07" => cuts(rep, &c, false, rng),
        "C14" => {
            cuts(rep, &c, true, rng);
            writes(rep, &c, true, rng);
        }
        "C09" => writes(rep, &c, false, rng),
        _ => {}
    }
    Some(c.enc)
}

/// C08: small, LARGE, small, LARGE, small back to back, on all three front-ends.
fn sequence<F: Fam>(rep: &mut Report, what: String, packets: &[&F::P]) {
    rep.cases += 1;
    let mut stream = Vec::new();
    let mut lens = Vec::new();
    for p in packets {
        match F::encode(p) {
            Ok(e) => {
                lens.push(e.len());
                stream.extend_from_slice(&e);
            }
            Err(e) => {
                rep.fail("large-encode-error", what, format!("valid packet refused: {}", e.text));
                return;
            }
        }
    }
    for front in ["blocking", "async", "async-chunked", "poll", "poll-chunked"] {
        let mut pos = 0;
        for (i, p) in packets.iter().enumerate() {
            let rest = &stream[pos..];
            let sched = if front.ends_with("chunked") { chunky() } else { vec![] };
            let (got, used): (Result<F::P, String>, usize) = match front {
                "blocking" => match F::decode(rest) {
                    Ok(Some(q)) => {
                        let n = F::encode_len(&q).unwrap_or(0);
                        (Ok(q), n)
                    }
                    Ok(None) => (Err("Ok(None)".into()), 0),
                    Err(e) => (Err(e.text), 0),
                },
                "async" | "async-chunked" => {
                    let (r, n) = F::decode_async(rest, sched, Term::Eof);
                    (r.map_err(|e| e.text), n)
                }
                _ => {
                    let o = F::poll(rest, sched, Term::Eof);
                    match o.res {
                        Ok((t, _, q)) => (Ok(q), if t == o.consumed { t } else { usize::MAX }),
                        Err(e) => (Err(e.text), o.consumed),
                    }
                }
            };
            match got {
                Ok(q) if &q == *p && used == lens[i] => pos += used,
                other => {
                    rep.fail(
                        "large-sequence",
                        what.clone(),
                        format!("{} front-end, packet #{} of {} (sizes {:?}): got {:?}, advanced {} (should be {})", front, i, packets.len(), lens, other.map(|_| "a different packet"), used, lens[i]),
                    );
                    break;
                }
            }
        }
        if pos != stream.len() && !rep.failures.iter().any(|f| f.key == "large-sequence") {
            rep.fail("large-sequence", what.clone(), format!("{} front-end: {} of {} bytes consumed", front, pos, stream.len()));
        }
    }
}

/// OVER-LONG frames: the body of a small valid packet of every type, followed by padding INSIDE the frame up to
/// several hundred KB / a few MB (a declared length no packet of that type needs). Every byte-string clause of
/// C03/C05/C06/C11 applies to them as to any other complete frame.
fn overlong<F: Fam>(rep: &mut Report, prop: &str, thorough: bool, seed: u64) {
    let fl = crate::poracle::ByteFlags { c03: prop == "C03", c05: prop == "C05", c06: prop == "C06", c11: prop == "C11" };
    let mut rng = Rng::new(seed ^ 0x0ee7);
    let mut totals = vec![70_000usize, 327_698, 400_000, (1 << 21) + 7];
    if thorough {
        totals.extend([200_000, 327_697, 1 << 20, 5 << 20]);
    }
    let mut g = Rng::new(0x5eed_0ee7);
    for t in 0..F::TYPES {
        let p = F::gen(&mut g, t, crate::pgen::Sizes { big: false });
        let enc = match F::encode(&p) {
            Ok(e) if e.len() < 60_000 => e,
            _ => continue,
        };
        let hl = header_len(enc.len());
        for total in &totals {
            for pad in [0u8, 0xff] {
                let mut frame = vec![enc[0]];
                let mut n = *total;
                loop {
                    let mut b = (n & 0x7f) as u8;
                    n >>= 7;
                    if n > 0 {
                        b |= 0x80;
                    }
                    frame.push(b);
                    if n == 0 {
                        break;
                    }
                }
                frame.extend_from_slice(&enc[hl..]);
                let fh = frame.len() - (enc.len() - hl);
                frame.resize(fh + total, pad);
                frame.extend_from_slice(&[0xc0, 0x00]);
                crate::poracle::bytes_pass::<F>(rep, &frame, &mut rng, &fl, &|_| Vec::new(), false);
            }
        }
    }
}

pub fn large(rep: &mut Report, prop: &str, thorough: bool, seed: u64) {
    if matches!(prop, "C03" | "C05" | "C06" | "C11") {
        overlong::<V3>(rep, prop, thorough, seed);
        overlong::<V5>(rep, prop, thorough, seed);
    }
    let mut rng = Rng::new(seed ^ 0xb16);
    let ss = sizes(thorough, seed);
    if prop == "C08" {
        let s3 = v3::Packet::Pingreq;
        let s3b = v3_publish(3);
        let s5 = v5::Packet::Pingresp;
        let s5b = v5_publish(3, 0);
        for pair in ss.chunks(2) {
            let (a, b) = (pair[0], *pair.get(1).unwrap_or(&pair[0]));
            let (l1, l2) = (v3_publish(a), if b <= (24 << 20) { v3_subscribe(b) } else { v3_publish(b) });
            sequence::<V3>(rep, format!("v3 [PINGREQ, PUBLISH {}-byte payload, small PUBLISH, {} ~{} bytes, PINGREQ]", a, if b <= (24 << 20) { "SUBSCRIBE" } else { "PUBLISH" }, b), &[&s3, &l1, &s3b, &l2, &s3]);
            drop((l1, l2));
            let (l1, l2) = (v5_publish(a, 0), if b <= (64 << 20) { v5_publish(10, b) } else { v5_publish(b, 0) });
            sequence::<V5>(rep, format!("v5 [PINGRESP, PUBLISH {}-byte payload, small PUBLISH, PUBLISH with ~{} bytes of {}, PINGRESP]", a, b, if b <= (64 << 20) { "user properties" } else { "payload" }), &[&s5, &l1, &s5b, &l2, &s5]);
        }
        return;
    }
    for (i, n) in ss.iter().enumerate() {
        let n = *n;
        one::<V3>(rep, prop, format!("v3 PUBLISH qos1 topic 't' with a {}-byte payload", n), &v3_publish(n), &mut rng);
        one::<V5>(rep, prop, format!("v5 PUBLISH qos0 topic 't' with a {}-byte payload", n), &v5_publish(n, 0), &mut rng);
        if n <= (64 << 20) && i % 2 == 0 {
            one::<V5>(rep, prop, format!("v5 PUBLISH with {} bytes of user properties and a 1000-byte payload", n), &v5_publish(1000, n), &mut rng);
        }
        if n <= (24 << 20) && i % 2 == 1 {
            one::<V3>(rep, prop, format!("v3 SUBSCRIBE with ~{} bytes of 60,000-byte filters", n), &v3_subscribe(n), &mut rng);
            one::<V5>(rep, prop, format!("v5 SUBSCRIBE with ~{} bytes of 60,000-byte filters", n), &v5_subscribe(n), &mut rng);
        }
    }
    // the top of the range: remaining length exactly 268,435,455 (v3) — round trip only
    if matches!(prop, "C01" | "C02" | "C11") {
        one::<V3>(rep, prop, "v3 PUBLISH with the maximum remaining length 268,435,455".into(), &v3_publish(268_435_455 - 5), &mut rng);
    }
}
