//! Tie A: tables extracted by running the real code over whole finite domains,
//! emitted as Lean source (`Mqtt/Gen/Tables.lean`).  This file has no knowledge of
//! expected values: it prints what the crate returns.

use mqtt_proto::{header_len, remaining_len, total_len, v3, v5, var_int_len, Error, QoS};
use std::fmt::Write;

pub const SCAN_MAX: usize = (1 << 28) + 8;

/// Break points of a step function `f : [lo, hi] -> u64`, found by a total scan.
fn steps(lo: usize, hi: usize, f: impl Fn(usize) -> Option<u64> + Sync) -> (Vec<(usize, u64)>, Option<usize>, bool) {
    // returns (rows, first argument where f is None, whether None is upward closed up to hi)
    let mut rows: Vec<(usize, u64)> = Vec::new();
    let mut err_from: Option<usize> = None;
    let mut closed = true;
    let mut visited: usize = 0;
    for n in lo..=hi {
        visited += 1;
        match f(n) {
            Some(v) => {
                if err_from.is_some() {
                    closed = false;
                }
                if rows.last().map(|r| r.1) != Some(v) {
                    rows.push((n, v));
                }
            }
            None => {
                if err_from.is_none() {
                    err_from = Some(n);
                }
            }
        }
    }
    assert_eq!(visited, hi - lo + 1, "scan did not visit every argument");
    (rows, err_from, closed)
}

fn lean_rows(rows: &[(usize, u64)]) -> String {
    let items: Vec<String> = rows.iter().map(|(a, b)| format!("({}, {})", a, b)).collect();
    format!("[{}]", items.join(", "))
}

fn code_table(name: &str, out: &mut String, f: impl Fn(u8) -> Option<u8>, variants: &[u8]) {
    let mut rows = Vec::new();
    for b in 0..=255u8 {
        if let Some(d) = f(b) {
            rows.push(format!("({}, {})", b, d));
        }
    }
    let vs: Vec<String> = variants.iter().map(|v| v.to_string()).collect();
    writeln!(out, "  | .{} => [{}]", name, rows.join(", ")).unwrap();
    VARIANTS.with(|v| v.borrow_mut().push(format!("  | .{} => [{}]", name, vs.join(", "))));
}

thread_local! {
    static VARIANTS: std::cell::RefCell<Vec<String>> = std::cell::RefCell::new(Vec::new());
}

fn qos_variants() -> Vec<u8> {
    let all = [QoS::Level0, QoS::Level1, QoS::Level2];
    all.iter()
        .map(|v| match v {
            QoS::Level0 | QoS::Level1 | QoS::Level2 => *v as u8,
        })
        .collect()
}

macro_rules! variants_of {
    ($ty:path, $($v:ident),+ $(,)?) => {{
        use $ty as T;
        // exhaustive match: a new variant fails to compile here ("translator broken")
        let all = [$(T::$v),+];
        all.iter().map(|v| match v { $(T::$v)|+ => *v as u8 }).collect::<Vec<u8>>()
    }};
}

fn header_row_v3(b: u8) -> String {
    match v3::Header::new_with(b, 0) {
        Ok(h) => {
            let t = v3_type_nibble(h.typ);
            format!(".ok ⟨{}, {}, {}, {}⟩", t, h.dup, h.qos as u8, h.retain)
        }
        Err(e) => format!(".error ({})", lean_error(&e)),
    }
}

fn header_row_v5(b: u8) -> String {
    match v5::Header::new_with(b, 0) {
        Ok(h) => {
            let t = v5_type_nibble(h.typ);
            format!(".ok ⟨{}, {}, {}, {}⟩", t, h.dup, h.qos as u8, h.retain)
        }
        Err(v5::ErrorV5::Common(e)) => format!(".error ({})", lean_error(&e)),
        Err(e) => panic!("unexpected header error {e:?}"),
    }
}

pub fn v3_type_nibble(t: v3::PacketType) -> u8 {
    use v3::PacketType::*;
    match t {
        Connect => 1,
        Connack => 2,
        Publish => 3,
        Puback => 4,
        Pubrec => 5,
        Pubrel => 6,
        Pubcomp => 7,
        Subscribe => 8,
        Suback => 9,
        Unsubscribe => 10,
        Unsuback => 11,
        Pingreq => 12,
        Pingresp => 13,
        Disconnect => 14,
    }
}

pub fn v5_type_nibble(t: v5::PacketType) -> u8 {
    use v5::PacketType::*;
    match t {
        Connect => 1,
        Connack => 2,
        Publish => 3,
        Puback => 4,
        Pubrec => 5,
        Pubrel => 6,
        Pubcomp => 7,
        Subscribe => 8,
        Suback => 9,
        Unsubscribe => 10,
        Unsuback => 11,
        Pingreq => 12,
        Pingresp => 13,
        Disconnect => 14,
        Auth => 15,
    }
}

fn lean_error(e: &Error) -> String {
    match e {
        Error::InvalidHeader => ".invalidHeader".into(),
        Error::InvalidQos(n) => format!(".invalidQos {}", n),
        other => panic!("unexpected error in table: {other:?}"),
    }
}


/// A well-formed value for each property identifier of MQTT 5.0 §2.2.2.2 (wire type from the
/// standard's table; values chosen inside every per-property range restriction).
pub fn std_property(id: u8) -> Option<Vec<u8>> {
    let one_byte = [0x01u8, 0x17, 0x19, 0x24, 0x25, 0x28, 0x29, 0x2a];
    let two_byte = [0x13u8, 0x21, 0x22, 0x23];
    let four_byte = [0x02u8, 0x11, 0x18, 0x27];
    let strings = [0x03u8, 0x08, 0x09, 0x12, 0x15, 0x16, 0x1a, 0x1c, 0x1f];
    let mut v = vec![id];
    if one_byte.contains(&id) {
        v.push(1);
    } else if two_byte.contains(&id) {
        v.extend_from_slice(&[0, 1]);
    } else if four_byte.contains(&id) {
        v.extend_from_slice(&[0, 0, 0, 1]);
    } else if strings.contains(&id) {
        v.extend_from_slice(&[0, 1, b'a']);
    } else if id == 0x0b {
        v.push(1);
    } else if id == 0x26 {
        v.extend_from_slice(&[0, 1, b'a', 0, 1, b'b']);
    } else {
        return None;
    }
    Some(v)
}

/// The smallest frame of each property-carrying position with the given property section.
pub fn host_frame(host: &str, props: &[u8]) -> Vec<u8> {
    let mut section = vec![props.len() as u8];
    section.extend_from_slice(props);
    let (first, body): (u8, Vec<u8>) = match host {
        "connect" => (0x10, [&[0, 4, b'M', b'Q', b'T', b'T', 5, 0, 0, 0][..], &section, &[0, 0]].concat()),
        "will" => (0x10, [&[0, 4, b'M', b'Q', b'T', b'T', 5, 4, 0, 0, 0, 0, 0][..], &section, &[0, 1, b't', 0, 0]].concat()),
        "connack" => (0x20, [&[0, 0][..], &section].concat()),
        "publish" => (0x30, [&[0, 1, b't'][..], &section].concat()),
        "puback" => (0x40, [&[0, 1, 0][..], &section].concat()),
        "pubrec" => (0x50, [&[0, 1, 0][..], &section].concat()),
        "pubrel" => (0x62, [&[0, 1, 0][..], &section].concat()),
        "pubcomp" => (0x70, [&[0, 1, 0][..], &section].concat()),
        "subscribe" => (0x82, [&[0, 1][..], &section, &[0, 1, b't', 0]].concat()),
        "suback" => (0x90, [&[0, 1][..], &section, &[0]].concat()),
        "unsubscribe" => (0xa2, [&[0, 1][..], &section, &[0, 1, b't']].concat()),
        "unsuback" => (0xb0, [&[0, 1][..], &section, &[0]].concat()),
        "disconnect" => (0xe0, [&[0][..], &section].concat()),
        "auth" => (0xf0, [&[0][..], &section].concat()),
        _ => unreachable!(),
    };
    let mut f = vec![first, body.len() as u8];
    f.extend_from_slice(&body);
    f
}

pub const PROP_HOSTS: [&str; 14] =
    ["connect", "will", "connack", "publish", "puback", "pubrec", "pubrel", "pubcomp", "subscribe", "suback", "unsubscribe", "unsuback", "disconnect", "auth"];

/// Which of the standard's property identifiers the real decoder accepts at each property-carrying
/// position: one well-formed property in the smallest frame of that kind, decoded by `Packet::decode`.
fn prop_allowed(host: &str) -> (bool, Vec<u8>) {
    let base_ok = matches!(v5::Packet::decode(&host_frame(host, &[])), Ok(Some(_)));
    let mut ids = Vec::new();
    for id in 0..=255u8 {
        if let Some(p) = std_property(id) {
            if matches!(v5::Packet::decode(&host_frame(host, &p)), Ok(Some(_))) {
                ids.push(id);
            }
        }
    }
    (base_ok, ids)
}

thread_local! {
    /// every argument at which one of the four length helpers changes its value or starts failing
    pub static BREAKS: std::cell::RefCell<Vec<usize>> = std::cell::RefCell::new(Vec::new());
}

fn note_breaks(rows: &[(usize, u64)], err_from: Option<usize>) {
    BREAKS.with(|b| {
        let mut b = b.borrow_mut();
        b.extend(rows.iter().map(|r| r.0));
        b.extend(err_from);
    });
}

pub fn gen_tables(full_scan: bool) -> String {
    let mut out = String::new();
    out.push_str("/-\n  GENERATED by `harness gen-tables` from the code in /repo — do not edit.\n  Every table is the result of running the real function over its whole domain.\n-/\nimport Mqtt.Gen.Kinds\n\nnamespace Mqtt.Gen\n\n");

    let hi = if full_scan { SCAN_MAX } else { SCAN_MAX };
    // var_int_len
    let (rows, err_from, closed) = steps(0, hi, |n| var_int_len(n).ok().map(|v| v as u64));
    note_breaks(&rows, err_from);
    writeln!(out, "def scanMax : Nat := {}", hi).unwrap();
    writeln!(out, "def varIntLenSteps : List (Nat × Nat) := {}", lean_rows(&rows)).unwrap();
    writeln!(out, "def varIntLenErrFrom : Nat := {}", err_from.unwrap_or(hi + 1)).unwrap();
    writeln!(out, "def varIntLenErrClosed : Bool := {}", closed).unwrap();
    // total_len: value - n
    let (rows, err_from, closed) =
        steps(0, hi, |n| total_len(n).ok().map(|v| (v as u64).wrapping_sub(n as u64)));
    note_breaks(&rows, err_from);
    writeln!(out, "def totalLenSteps : List (Nat × Nat) := {}", lean_rows(&rows)).unwrap();
    writeln!(out, "def totalLenErrFrom : Nat := {}", err_from.unwrap_or(hi + 1)).unwrap();
    writeln!(out, "def totalLenErrClosed : Bool := {}", closed).unwrap();
    // header_len
    let (rows, _, _) = steps(0, hi, |n| Some(header_len(n) as u64));
    note_breaks(&rows, None);
    writeln!(out, "def headerLenSteps : List (Nat × Nat) := {}", lean_rows(&rows)).unwrap();
    // remaining_len: total - remaining_len(total), from total = 2 (below that the Rust subtraction underflows)
    let (rows, _, _) = steps(2, hi, |n| Some((n as u64).wrapping_sub(remaining_len(n) as u64)));
    note_breaks(&rows, None);
    writeln!(out, "def remainingLenSteps : List (Nat × Nat) := {}", lean_rows(&rows)).unwrap();
    out.push('\n');

    // code tables
    out.push_str("def codeTable : CodeKind → List (UInt8 × UInt8)\n");
    VARIANTS.with(|v| v.borrow_mut().clear());
    code_table("qos", &mut out, |b| QoS::from_u8(b).ok().map(|v| v as u8), &qos_variants());
    code_table(
        "connectReturnV3",
        &mut out,
        |b| v3::ConnectReturnCode::from_u8(b).ok().map(|v| v as u8),
        &variants_of!(v3::ConnectReturnCode, Accepted, UnacceptableProtocolVersion, IdentifierRejected, ServerUnavailable, BadUserNameOrPassword, NotAuthorized),
    );
    code_table(
        "subscribeReturnV3",
        &mut out,
        |b| v3::SubscribeReturnCode::from_u8(b).ok().map(|v| v as u8),
        &variants_of!(v3::SubscribeReturnCode, MaxLevel0, MaxLevel1, MaxLevel2, Failure),
    );
    code_table(
        "connectReason",
        &mut out,
        |b| v5::ConnectReasonCode::from_u8(b).map(|v| v as u8),
        &variants_of!(v5::ConnectReasonCode, Success, UnspecifiedError, MalformedPacket, ProtocolError, ImplementationSpecificError, UnsupportedProtocolVersion, ClientIdentifierNotValid, BadUserNameOrPassword, NotAuthorized, ServerUnavailable, ServerBusy, Banned, BadAuthMethod, TopicNameInvalid, PacketTooLarge, QuotaExceeded, PayloadFormatInvalid, RetainNotSupported, QoSNotSupported, UseAnotherServer, ServerMoved, ConnectionRateExceeded),
    );
    code_table(
        "disconnectReason",
        &mut out,
        |b| v5::DisconnectReasonCode::from_u8(b).map(|v| v as u8),
        &variants_of!(v5::DisconnectReasonCode, NormalDisconnect, DisconnectWithWillMessage, UnspecifiedError, MalformedPacket, ProtocolError, ImplementationSpecificError, NotAuthorized, ServerBusy, ServerShuttingDown, KeepAliveTimeout, SessionTakenOver, TopicFilterInvalid, TopicNameInvalid, ReceiveMaximumExceeded, TopicAliasInvalid, PacketTooLarge, MessageRateTooHigh, QuotaExceeded, AdministrativeAction, PayloadFormatInvalid, RetainNotSupported, QoSNotSupported, UserAnotherServer, ServerMoved, SharedSubscriptionNotSupported, ConnectionRateExceeded, MaximumConnectTime, SubscriptionIdentifiersNotSupported, WildcardSubscriptionsNotSupported),
    );
    code_table(
        "authReason",
        &mut out,
        |b| v5::AuthReasonCode::from_u8(b).map(|v| v as u8),
        &variants_of!(v5::AuthReasonCode, Success, ContinueAuthentication, ReAuthentication),
    );
    code_table(
        "pubackReason",
        &mut out,
        |b| v5::PubackReasonCode::from_u8(b).map(|v| v as u8),
        &variants_of!(v5::PubackReasonCode, Success, NoMatchingSubscribers, UnspecifiedError, ImplementationSpecificError, NotAuthorized, TopicNameInvalid, PacketIdentifierInUse, QuotaExceeded, PayloadFormatInvalid),
    );
    code_table(
        "pubrecReason",
        &mut out,
        |b| v5::PubrecReasonCode::from_u8(b).map(|v| v as u8),
        &variants_of!(v5::PubrecReasonCode, Success, NoMatchingSubscribers, UnspecifiedError, ImplementationSpecificError, NotAuthorized, TopicNameInvalid, PacketIdentifierInUse, QuotaExceeded, PayloadFormatInvalid),
    );
    code_table(
        "pubrelReason",
        &mut out,
        |b| v5::PubrelReasonCode::from_u8(b).map(|v| v as u8),
        &variants_of!(v5::PubrelReasonCode, Success, PacketIdentifierNotFound),
    );
    code_table(
        "pubcompReason",
        &mut out,
        |b| v5::PubcompReasonCode::from_u8(b).map(|v| v as u8),
        &variants_of!(v5::PubcompReasonCode, Success, PacketIdentifierNotFound),
    );
    code_table(
        "subscribeReason",
        &mut out,
        |b| v5::SubscribeReasonCode::from_u8(b).map(|v| v as u8),
        &variants_of!(v5::SubscribeReasonCode, GrantedQoS0, GrantedQoS1, GrantedQoS2, UnspecifiedError, ImplementationSpecificError, NotAuthorized, TopicFilterInvalid, PacketIdentifierInUse, QuotaExceeded, SharedSubscriptionNotSupported, SubscriptionIdentifiersNotSupported, WildcardSubscriptionsNotSupported),
    );
    code_table(
        "unsubscribeReason",
        &mut out,
        |b| v5::UnsubscribeReasonCode::from_u8(b).map(|v| v as u8),
        &variants_of!(v5::UnsubscribeReasonCode, Success, NoSubscriptionExisted, UnspecifiedError, ImplementationSpecificError, NotAuthorized, TopicFilterInvalid, PacketIdentifierInUse),
    );
    code_table(
        "retainHandling",
        &mut out,
        |b| v5::RetainHandling::from_u8(b).map(|v| v as u8),
        &variants_of!(v5::RetainHandling, SendAtSubscribe, SendAtSubscribeIfNotExist, DoNotSend),
    );
    code_table(
        "propertyId",
        &mut out,
        |b| v5::PropertyId::from_u8(b).ok().map(|v| v as u8),
        &variants_of!(v5::PropertyId, PayloadFormatIndicator, MessageExpiryInterval, ContentType, ResponseTopic, CorrelationData, SubscriptionIdentifier, SessionExpiryInterval, AssignedClientIdentifier, ServerKeepAlive, AuthenticationMethod, AuthenticationData, RequestProblemInformation, WillDelayInterval, RequestResponseInformation, ResponseInformation, ServerReference, ReasonString, ReceiveMaximum, TopicAliasMaximum, TopicAlias, MaximumQoS, RetainAvailable, UserProperty, MaximumPacketSize, WildcardSubscriptionAvailable, SubscriptionIdentifierAvailable, SharedSubscriptionAvailable),
    );
    out.push('\n');
    out.push_str("def variants : CodeKind → List UInt8\n");
    VARIANTS.with(|v| {
        for l in v.borrow().iter() {
            out.push_str(l);
            out.push('\n');
        }
    });
    out.push('\n');

    // the variant each short-form encoder compares the reason code with
    out.push_str("def defaultCode : CodeKind → UInt8\n");
    writeln!(out, "  | .pubackReason => {}", v5::PubackReasonCode::Success as u8).unwrap();
    writeln!(out, "  | .pubrecReason => {}", v5::PubrecReasonCode::Success as u8).unwrap();
    writeln!(out, "  | .pubrelReason => {}", v5::PubrelReasonCode::Success as u8).unwrap();
    writeln!(out, "  | .pubcompReason => {}", v5::PubcompReasonCode::Success as u8).unwrap();
    writeln!(out, "  | .disconnectReason => {}", v5::DisconnectReasonCode::NormalDisconnect as u8).unwrap();
    writeln!(out, "  | .authReason => {}", v5::AuthReasonCode::Success as u8).unwrap();
    out.push_str("  | _ => 0\n\n");

    // property identifiers accepted at each property-carrying position (probe: one well-formed property)
    out.push_str("def propHostDecodes : PropHost → Bool\n");
    for h in PROP_HOSTS {
        writeln!(out, "  | .{} => {}", h, prop_allowed(h).0).unwrap();
    }
    out.push_str("\ndef propAllowed : PropHost → List UInt8\n");
    for h in PROP_HOSTS {
        let ids: Vec<String> = prop_allowed(h).1.iter().map(|i| i.to_string()).collect();
        writeln!(out, "  | .{} => [{}]", h, ids.join(", ")).unwrap();
    }
    out.push('\n');

    // v5 subscription-options byte and v3 requested-QoS byte: all 256 values in a one-filter SUBSCRIBE,
    // decoded fields (max_qos, no_local, retain_as_published, retain_handling) and the byte the
    // encoder writes back for them
    out.push_str("def subOptsV5 : List (Option (UInt8 × Bool × Bool × UInt8 × UInt8)) := [\n");
    for b in 0..=255u8 {
        let row = match v5::Packet::decode(&[0x82, 7, 0, 1, 0, 0, 1, b't', b]) {
            Ok(Some(v5::Packet::Subscribe(sub))) if sub.topics.len() == 1 => {
                let o = sub.topics[0].1;
                let back = v5::Packet::Subscribe(sub.clone()).encode().map(|e| *e.as_ref().last().unwrap()).unwrap_or(255);
                format!("some ({}, {}, {}, {}, {})", o.max_qos as u8, o.no_local, o.retain_as_published, o.retain_handling as u8, back)
            }
            _ => "none".to_string(),
        };
        writeln!(out, "  {}{}", row, if b == 255 { "" } else { "," }).unwrap();
    }
    out.push_str("]\n\ndef subQosV3 : List (Option (UInt8 × UInt8)) := [\n");
    for b in 0..=255u8 {
        let row = match v3::Packet::decode(&[0x82, 6, 0, 1, 0, 1, b't', b]) {
            Ok(Some(v3::Packet::Subscribe(sub))) if sub.topics.len() == 1 => {
                let q = sub.topics[0].1 as u8;
                let back = v3::Packet::Subscribe(sub.clone()).encode().map(|e| *e.as_ref().last().unwrap()).unwrap_or(255);
                format!("some ({}, {})", q, back)
            }
            _ => "none".to_string(),
        };
        writeln!(out, "  {}{}", row, if b == 255 { "" } else { "," }).unwrap();
    }
    out.push_str("]\n\n");

    // header tables
    out.push_str("def headerV3 : List (Except Error HeaderRow) := [\n");
    for b in 0..=255u8 {
        writeln!(out, "  {}{}", header_row_v3(b), if b == 255 { "" } else { "," }).unwrap();
    }
    out.push_str("]\n\n");
    out.push_str("def headerV5 : List (Except Error HeaderRow) := [\n");
    for b in 0..=255u8 {
        writeln!(out, "  {}{}", header_row_v5(b), if b == 255 { "" } else { "," }).unwrap();
    }
    out.push_str("]\n\nend Mqtt.Gen\n");
    out
}
