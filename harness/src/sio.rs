//! Scripted transports: an `AsyncRead` that delivers a byte string according to a
//! schedule (chunk sizes, Pending) and ends in EOF or an error of a given kind;
//! an `AsyncWrite`/`io::Write` sink that accepts bytes according to a pattern.

use std::io;
use std::pin::Pin;
use std::task::{Context, Poll};
use tokio::io::{AsyncRead, AsyncWrite, ReadBuf};

#[derive(Clone, Copy, Debug, PartialEq, Eq)]
pub enum Sched {
    /// offer at most n bytes on the next read
    Chunk(usize),
    /// the same, but the transport fills its buffer the other legal way: `initialize_unfilled()`
    /// (which marks the WHOLE offered buffer initialised) and then `advance(n)` — as TLS and
    /// compat wrappers do — instead of `put_slice`
    InitChunk(usize),
    /// every further read offers at most n bytes (sticky: never used up); oracle-side only
    Rest(usize),
    /// answer the next read with Pending
    Pending,
    /// answer the next read with Pending, and the driver drops + re-creates the future
    PendingDrop,
}

/// An `io::Error` of kind `k` as a transport would really produce it: sometimes the bare kind, sometimes
/// with a short custom message, sometimes with a LONG localised message (multi-byte characters at varying
/// alignment around bytes 32…300), sometimes as a raw OS error — code that stores, clips or formats the message, or
/// inspects the error's representation, must cope with all.
pub fn fault(k: io::ErrorKind, salt: usize) -> io::Error {
    // what a real socket produces: an OS-level error (raw errno), whose kind std derives from the number
    if salt % 8 == 7 {
        let errno = match k {
            io::ErrorKind::ConnectionReset => Some(104),
            io::ErrorKind::BrokenPipe => Some(32),
            io::ErrorKind::TimedOut => Some(110),
            io::ErrorKind::WouldBlock => Some(11),
            io::ErrorKind::Interrupted => Some(4),
            io::ErrorKind::PermissionDenied => Some(13),
            io::ErrorKind::ConnectionRefused => Some(111),
            io::ErrorKind::NotFound => Some(2),
            io::ErrorKind::InvalidInput => Some(22),
            io::ErrorKind::OutOfMemory => Some(12),
            _ => None,
        };
        if let Some(e) = errno {
            let err = io::Error::from_raw_os_error(e);
            if err.kind() == k {
                return err;
            }
        }
    }
    match salt % 7 {
        6 => {
            // a layered transport built on this very crate: the payload is one of the codec's OWN errors
            let inner = if salt % 2 == 0 { mqtt_proto::Error::ZeroPid } else { mqtt_proto::Error::IoError(if k == io::ErrorKind::UnexpectedEof { io::ErrorKind::BrokenPipe } else { io::ErrorKind::UnexpectedEof }, "inner".into()) };
            io::Error::new(k, inner)
        }
        5 => {
            // what a TLS / websocket layer produces: its own kind, the OS error only quoted in the message
            let os = io::Error::from_raw_os_error([104, 32, 110, 11, 4, 13][salt % 6]);
            io::Error::new(k, format!("transport failed: {}", os))
        }
        4 => {
            // an adapter-style error: the kind the transport reports, wrapping an inner io::Error of ANOTHER kind
            let inner = io::Error::new(if k == io::ErrorKind::UnexpectedEof { io::ErrorKind::TimedOut } else { io::ErrorKind::UnexpectedEof }, "inner cause");
            io::Error::new(k, inner)
        }
        0 => k.into(),
        1 => io::Error::new(k, "link down"),
        2 => {
            let mut m = "x".repeat(salt % 5);
            while m.len() < 100 + (salt % 7) * 31 {
                m.push_str(["连接被对端重置", "é", "😀 transport"][salt % 3]);
            }
            io::Error::new(k, m)
        }
        _ => io::Error::new(k, format!("{}\u{0}", "ошибка ввода-вывода ".repeat(1 + salt % 9))),
    }
}

#[derive(Clone, Copy, Debug, PartialEq, Eq)]
pub enum Term {
    Eof,
    Err(io::ErrorKind),
}

thread_local! {
    /// bytes the NEXT ScriptReader delivers after its terminal error has been returned once (a one-shot
    /// transport fault: the stream continues if the decoder polls again).  Taken by `ScriptReader::new`.
    pub static AFTER_FAULT: std::cell::RefCell<Option<Vec<u8>>> = std::cell::RefCell::new(None);
}

pub struct ScriptReader {
    /// what follows a one-shot fault (None: the fault is persistent)
    pub after: Option<Vec<u8>>,
    pub data: Vec<u8>,
    pub pos: usize,
    pub sched: Vec<Sched>,
    pub sidx: usize,
    pub term: Term,
    /// capacity requested at each poll_read, with the position at that time
    pub requests: Vec<(usize, usize)>,
    pub pendings: usize,
    pub drop_requested: bool,
}

impl ScriptReader {
    pub fn new(data: Vec<u8>, sched: Vec<Sched>, term: Term) -> Self {
        let after = AFTER_FAULT.with(|a| a.borrow_mut().take());
        ScriptReader { after, data, pos: 0, sched, sidx: 0, term, requests: Vec::new(), pendings: 0, drop_requested: false }
    }
}

impl AsyncRead for ScriptReader {
    fn poll_read(self: Pin<&mut Self>, cx: &mut Context<'_>, buf: &mut ReadBuf<'_>) -> Poll<io::Result<()>> {
        let me = self.get_mut();
        me.requests.push((me.pos, buf.remaining()));
        let item = if me.sidx < me.sched.len() {
            let it = me.sched[me.sidx];
            if !matches!(it, Sched::Rest(_)) {
                me.sidx += 1;
            }
            Some(it)
        } else {
            None
        };
        match item {
            Some(Sched::Pending) | Some(Sched::PendingDrop) => {
                me.pendings += 1;
                if item == Some(Sched::PendingDrop) {
                    me.drop_requested = true;
                }
                cx.waker().wake_by_ref();
                Poll::Pending
            }
            other => {
                let avail = me.data.len() - me.pos;
                if avail == 0 {
                    return match me.term {
                        Term::Eof => Poll::Ready(Ok(())),
                        Term::Err(k) => {
                            if let Some(more) = me.after.take() {
                                // one-shot fault: the error is returned once, then the stream goes on
                                me.data.extend_from_slice(&more);
                                me.term = Term::Eof;
                            }
                            Poll::Ready(Err(fault(k, me.pos + me.requests.len())))
                        }
                    };
                }
                let mut n = avail.min(buf.remaining());
                if let Some(Sched::Chunk(c)) | Some(Sched::InitChunk(c)) | Some(Sched::Rest(c)) = other {
                    n = n.min(c.max(1));
                }
                if let Some(Sched::InitChunk(_)) = other {
                    let dst = buf.initialize_unfilled();
                    dst[..n].copy_from_slice(&me.data[me.pos..me.pos + n]);
                    buf.advance(n);
                } else {
                    buf.put_slice(&me.data[me.pos..me.pos + n]);
                }
                me.pos += n;
                Poll::Ready(Ok(()))
            }
        }
    }
}

#[derive(Clone, Copy, Debug, PartialEq, Eq)]
pub enum WItem {
    /// accept at most n (>= 1) bytes
    Accept(usize),
    Pending,
    /// accept zero bytes (Ok(0))
    Zero,
    Err(io::ErrorKind),
    /// (first item only) the sink GATHERS: it overrides `write_vectored` / `poll_write_vectored` and
    /// applies each following item to the concatenation of the offered slices, as sockets and files do
    Gather,
}

/// Sink: follows `script`, afterwards accepts everything.
pub struct ScriptWriter {
    pub written: Vec<u8>,
    pub script: Vec<WItem>,
    pub idx: usize,
    pub calls: usize,
    pub gather: bool,
}

impl ScriptWriter {
    pub fn new(mut script: Vec<WItem>) -> Self {
        let gather = script.first() == Some(&WItem::Gather);
        if gather {
            script.remove(0);
        }
        script.retain(|i| *i != WItem::Gather);
        ScriptWriter { written: Vec::new(), script, idx: 0, calls: 0, gather }
    }
    /// one scripted step over the concatenation of `bufs`
    fn gathered(&mut self, bufs: &[io::IoSlice<'_>]) -> Option<io::Result<usize>> {
        self.calls += 1;
        let total: usize = bufs.iter().map(|b| b.len()).sum();
        let n = match self.next() {
            Some(WItem::Pending) => return None,
            Some(WItem::Zero) => return Some(Ok(0)),
            Some(WItem::Err(k)) => return Some(Err(fault(k, self.written.len() + self.calls))),
            Some(WItem::Accept(n)) => n.max(1).min(total),
            Some(WItem::Gather) | None => total,
        };
        let mut left = n;
        for b in bufs {
            let k = left.min(b.len());
            self.written.extend_from_slice(&b[..k]);
            left -= k;
            if left == 0 {
                break;
            }
        }
        Some(Ok(n))
    }
    fn next(&mut self) -> Option<WItem> {
        if self.idx < self.script.len() {
            let it = self.script[self.idx];
            self.idx += 1;
            Some(it)
        } else {
            None
        }
    }
}

impl AsyncWrite for ScriptWriter {
    fn poll_write(self: Pin<&mut Self>, cx: &mut Context<'_>, buf: &[u8]) -> Poll<io::Result<usize>> {
        let me = self.get_mut();
        me.calls += 1;
        match me.next() {
            Some(WItem::Pending) => {
                cx.waker().wake_by_ref();
                Poll::Pending
            }
            Some(WItem::Zero) => Poll::Ready(Ok(0)),
            Some(WItem::Err(k)) => Poll::Ready(Err(fault(k, me.written.len() + me.calls))),
            Some(WItem::Accept(n)) => {
                let n = n.max(1).min(buf.len());
                me.written.extend_from_slice(&buf[..n]);
                Poll::Ready(Ok(n))
            }
            Some(WItem::Gather) | None => {
                me.written.extend_from_slice(buf);
                Poll::Ready(Ok(buf.len()))
            }
        }
    }
    fn poll_write_vectored(self: Pin<&mut Self>, cx: &mut Context<'_>, bufs: &[io::IoSlice<'_>]) -> Poll<io::Result<usize>> {
        let me = self.get_mut();
        if !me.gather {
            // what tokio's default does: the first non-empty slice through poll_write
            let buf = bufs.iter().find(|b| !b.is_empty()).map_or(&[][..], |b| &**b);
            return Pin::new(me).poll_write(cx, buf);
        }
        match me.gathered(bufs) {
            None => {
                cx.waker().wake_by_ref();
                Poll::Pending
            }
            Some(r) => Poll::Ready(r),
        }
    }
    fn is_write_vectored(&self) -> bool {
        self.gather
    }
    fn poll_flush(self: Pin<&mut Self>, _cx: &mut Context<'_>) -> Poll<io::Result<()>> {
        Poll::Ready(Ok(()))
    }
    fn poll_shutdown(self: Pin<&mut Self>, _cx: &mut Context<'_>) -> Poll<io::Result<()>> {
        Poll::Ready(Ok(()))
    }
}

impl io::Write for ScriptWriter {
    fn write(&mut self, buf: &[u8]) -> io::Result<usize> {
        self.calls += 1;
        match self.next() {
            // a synchronous sink has no Pending: treat it as "accept everything"
            Some(WItem::Pending) | Some(WItem::Gather) | None => {
                self.written.extend_from_slice(buf);
                Ok(buf.len())
            }
            Some(WItem::Zero) => Ok(0),
            Some(WItem::Err(k)) => Err(fault(k, self.written.len() + self.calls)),
            Some(WItem::Accept(n)) => {
                let n = n.max(1).min(buf.len());
                self.written.extend_from_slice(&buf[..n]);
                Ok(n)
            }
        }
    }
    fn write_vectored(&mut self, bufs: &[io::IoSlice<'_>]) -> io::Result<usize> {
        if !self.gather {
            let buf = bufs.iter().find(|b| !b.is_empty()).map_or(&[][..], |b| &**b);
            return self.write(buf);
        }
        loop {
            // (a synchronous sink has no Pending: skip such items)
            if let Some(r) = self.gathered(bufs) {
                return r;
            }
        }
    }
    fn flush(&mut self) -> io::Result<()> {
        Ok(())
    }
}

/// The task's waker: a flag. Every scripted transport wakes WHATEVER waker it is handed before it returns
/// Pending (what an executor-driven transport does when it becomes ready again), so a future that returns
/// Pending without this flag having been set has parked the task on a waker nobody will wake — under a real
/// executor it would never complete.
pub struct FlagWaker(pub std::sync::atomic::AtomicBool);

impl std::task::Wake for FlagWaker {
    fn wake(self: std::sync::Arc<Self>) {
        self.0.store(true, std::sync::atomic::Ordering::SeqCst);
    }
    fn wake_by_ref(self: &std::sync::Arc<Self>) {
        self.0.store(true, std::sync::atomic::Ordering::SeqCst);
    }
}

pub fn task_waker() -> (std::sync::Arc<FlagWaker>, std::task::Waker) {
    let f = std::sync::Arc::new(FlagWaker(std::sync::atomic::AtomicBool::new(false)));
    (f.clone(), std::task::Waker::from(f))
}

/// after a Pending result: was the task woken? (resets the flag)
pub fn woken(f: &FlagWaker) -> bool {
    f.0.swap(false, std::sync::atomic::Ordering::SeqCst)
}

pub const LOST_WAKEUP: &str = "LostWakeup(Pending returned although the transport woke a waker that is not the task's)";

/// Poll a future to completion, re-polling only because the task's waker was woken (all our transports wake
/// the waker they are given).  Returns the number of Pending results seen.
pub fn drive<F: std::future::Future>(mut fut: Pin<&mut F>) -> (F::Output, usize) {
    let (flag, waker) = task_waker();
    let mut cx = Context::from_waker(&waker);
    let mut pend = 0;
    loop {
        match fut.as_mut().poll(&mut cx) {
            Poll::Ready(v) => return (v, pend),
            Poll::Pending => {
                pend += 1;
                if !woken(&flag) {
                    panic!("{}", LOST_WAKEUP);
                }
            }
        }
        if pend > 1_000_000 {
            panic!("future spins");
        }
    }
}
