//! Hand-assembled frames that carry a given string in a topic position, to check that
//! the packet decode paths apply the same validators as the public constructors.

use mqtt_proto::{v3, v5};

fn put_str(out: &mut Vec<u8>, s: &str) {
    out.extend_from_slice(&(s.len() as u16).to_be_bytes());
    out.extend_from_slice(s.as_bytes());
}

fn put_varint(out: &mut Vec<u8>, mut n: usize) {
    loop {
        let mut b = (n % 128) as u8;
        n /= 128;
        if n > 0 {
            b |= 0x80;
        }
        out.push(b);
        if n == 0 {
            break;
        }
    }
}

pub fn frame(control: u8, body: &[u8]) -> Vec<u8> {
    let mut f = vec![control];
    put_varint(&mut f, body.len());
    f.extend_from_slice(body);
    f
}

fn v3_ok(f: &[u8]) -> bool {
    matches!(v3::Packet::decode(f), Ok(Some(_)))
}
fn v5_ok(f: &[u8]) -> bool {
    matches!(v5::Packet::decode(f), Ok(Some(_)))
}

/// (description, accepted?) for a topic filter inside SUBSCRIBE / UNSUBSCRIBE of both families
pub fn filter_in_packets(s: &str) -> Vec<(&'static str, bool)> {
    let mut out = Vec::new();
    // v3 SUBSCRIBE: pid, filter, qos
    let mut b = vec![0, 1];
    put_str(&mut b, s);
    b.push(1);
    out.push(("v3 SUBSCRIBE", v3_ok(&frame(0x82, &b))));
    // v3 UNSUBSCRIBE
    let mut b = vec![0, 1];
    put_str(&mut b, s);
    out.push(("v3 UNSUBSCRIBE", v3_ok(&frame(0xa2, &b))));
    // v5 SUBSCRIBE: pid, props(0), filter, options
    let mut b = vec![0, 1, 0];
    put_str(&mut b, s);
    b.push(1);
    out.push(("v5 SUBSCRIBE", v5_ok(&frame(0x82, &b))));
    let mut b = vec![0, 1, 0];
    put_str(&mut b, s);
    out.push(("v5 UNSUBSCRIBE", v5_ok(&frame(0xa2, &b))));
    out
}

/// (description, accepted?) for a topic name in PUBLISH, will topic and response topic
pub fn name_in_packets(s: &str) -> Vec<(&'static str, bool)> {
    let mut out = Vec::new();
    // v3 PUBLISH qos0
    let mut b = Vec::new();
    put_str(&mut b, s);
    b.extend_from_slice(b"pl");
    out.push(("v3 PUBLISH", v3_ok(&frame(0x30, &b))));
    // v3 CONNECT with will
    let mut b = Vec::new();
    put_str(&mut b, "MQTT");
    b.extend_from_slice(&[4, 0b0000_0110, 0, 10]);
    put_str(&mut b, "cid");
    put_str(&mut b, s);
    put_str(&mut b, "msg");
    out.push(("v3 CONNECT will", v3_ok(&frame(0x10, &b))));
    // the same under protocol level 3 (MQTT 3.1, name "MQIsdp")
    let mut b = Vec::new();
    put_str(&mut b, "MQIsdp");
    b.extend_from_slice(&[3, 0b0000_0110, 0, 10]);
    put_str(&mut b, "cid");
    put_str(&mut b, s);
    put_str(&mut b, "msg");
    out.push(("v3.1 CONNECT will", v3_ok(&frame(0x10, &b))));
    // v5 PUBLISH qos0, no properties
    let mut b = Vec::new();
    put_str(&mut b, s);
    b.push(0);
    b.extend_from_slice(b"pl");
    out.push(("v5 PUBLISH", v5_ok(&frame(0x30, &b))));
    // v5 PUBLISH with response topic (only if the property section fits a varint)
    let mut props = vec![0x08];
    put_str(&mut props, s);
    let mut b = Vec::new();
    put_str(&mut b, "t");
    put_varint(&mut b, props.len());
    b.extend_from_slice(&props);
    out.push(("v5 PUBLISH response-topic", v5_ok(&frame(0x30, &b))));
    // v5 CONNECT with will topic
    let mut b = Vec::new();
    put_str(&mut b, "MQTT");
    b.extend_from_slice(&[5, 0b0000_0110, 0, 10, 0]);
    put_str(&mut b, "cid");
    b.push(0); // will properties
    put_str(&mut b, s);
    put_str(&mut b, "msg");
    out.push(("v5 CONNECT will", v5_ok(&frame(0x10, &b))));
    // v5 CONNECT will with response topic
    let mut wprops = vec![0x08];
    put_str(&mut wprops, s);
    let mut b = Vec::new();
    put_str(&mut b, "MQTT");
    b.extend_from_slice(&[5, 0b0000_0110, 0, 10, 0]);
    put_str(&mut b, "cid");
    put_varint(&mut b, wprops.len());
    b.extend_from_slice(&wprops);
    put_str(&mut b, "wt");
    put_str(&mut b, "msg");
    out.push(("v5 CONNECT will response-topic", v5_ok(&frame(0x10, &b))));
    out
}

/// A valid name carried by a v5 PUBLISH together with a Response Topic that is a NEAR-duplicate of it (same text
/// in another ASCII case, or identical): what the decoder hands back as topic name and as response topic.
pub fn name_with_similar_response_topic(s: &str, response: &str) -> Option<(String, Option<String>, bool, bool)> {
    let mut props = vec![0x08];
    put_str(&mut props, response);
    let mut b = Vec::new();
    put_str(&mut b, s);
    put_varint(&mut b, props.len());
    b.extend_from_slice(&props);
    match v5::Packet::decode(&frame(0x30, &b)) {
        Ok(Some(v5::Packet::Publish(p))) => Some((p.topic_name.to_string(), p.properties.response_topic.as_ref().map(|t| t.to_string()), p.topic_name.is_sys(), p.topic_name.is_shared())),
        _ => None,
    }
}
