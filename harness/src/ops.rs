//! The line protocol: one operation per line in, one canonical result line out.
//! The Lean driver (`mqttmodel`) implements the same ops on the model.

use crate::fmt::*;
use mqtt_proto::{decode_raw_header, header_len, remaining_len, total_len, v5, var_int_len, Encodable, Pid};
use std::convert::TryFrom;
use std::panic::{catch_unwind, AssertUnwindSafe};

pub fn run_op_caught(line: &str) -> String {
    match catch_unwind(AssertUnwindSafe(|| run_op(line))) {
        Ok(s) => s,
        Err(_) => "panic".to_string(),
    }
}

fn res_usize(r: Result<usize, mqtt_proto::Error>) -> String {
    match r {
        Ok(v) => v.to_string(),
        Err(e) => error(&e),
    }
}

/// bytes `write_var_int(n)` emits, observed through `SubscribeProperties::encode`
pub fn real_write_var_int(n: u32) -> Option<Vec<u8>> {
    let v = v5::VarByteInt::try_from(n).ok()?;
    let props = v5::SubscribeProperties { subscription_id: Some(v), user_properties: Vec::new() };
    let mut buf = Vec::new();
    props.encode(&mut buf).unwrap();
    // [property length][0x0B][varint]
    Some(buf[2..].to_vec())
}

pub fn run_op(line: &str) -> String {
    let toks: Vec<&str> = line.split_whitespace().collect();
    match toks[0] {
        "vi" => {
            let n: usize = toks[1].parse().unwrap();
            let rl = if n >= 2 { remaining_len(n).to_string() } else { "-".into() };
            let w = if n < (1usize << 32) { real_write_var_int(n as u32).map(|b| hex(&b)).unwrap_or("-".into()) } else { "-".into() };
            format!("vil={} tl={} hl={} rl={} w={}", res_usize(var_int_len(n)), res_usize(total_len(n)), header_len(n), rl, w)
        }
        "vib" => {
            let bytes = unhex(toks[1]).unwrap();
            let mut rd: &[u8] = &bytes;
            let r = futures_lite::future::block_on(decode_raw_header(&mut rd));
            match r {
                Ok((t, n)) => format!("ok {} {} {}", t, n, bytes.len() - rd.len()),
                Err(e) if e.is_eof() => "more".into(),
                Err(e) => format!("err {}", error(&e)),
            }
        }
        "pid" => {
            let p: u16 = toks[1].parse().unwrap();
            let u: u16 = toks[2].parse().unwrap();
            match Pid::try_from(p) {
                Err(e) => format!("try={}", error(&e)),
                Ok(pid) => {
                    let a = pid + u;
                    let s = pid - u;
                    let mut aa = pid;
                    aa += u;
                    let mut ss = pid;
                    ss -= u;
                    format!("try=ok add={} sub={} addassign={} subassign={} value={}", a.value(), s.value(), aa.value(), ss.value(), pid.value())
                }
            }
        }
        "tf" | "tfd" => {
            let bytes = unhex(toks[1]).unwrap();
            match String::from_utf8(bytes) {
                Err(_) => "notutf8".into(),
                Ok(s) => op_tf(s),
            }
        }
        "tfcmp" => {
            // Ord / PartialOrd / PartialEq / Hash of two constructed filters (hand-written impls)
            use mqtt_proto::TopicFilter;
            use std::cmp::Ordering;
            use std::hash::{Hash, Hasher};
            let mk = |h: &str| String::from_utf8(unhex(h).unwrap()).ok().and_then(|s| TopicFilter::try_from(s).ok());
            match (mk(toks[1]), mk(toks[2])) {
                (Some(f), Some(g)) => {
                    let name = |o: Ordering| match o {
                        Ordering::Less => "lt",
                        Ordering::Equal => "eq",
                        Ordering::Greater => "gt",
                    };
                    let h = |x: &TopicFilter| {
                        let mut s = std::collections::hash_map::DefaultHasher::new();
                        x.hash(&mut s);
                        s.finish()
                    };
                    assert!(f.partial_cmp(&g) == Some(f.cmp(&g)) && (f < g) == (f.cmp(&g) == Ordering::Less) && (f != g) == !(f == g), "partial_cmp / < / != disagree with cmp / ==");
                    assert!(f != g || h(&f) == h(&g), "equal filters hash differently");
                    format!("cmp={} rev={} eq={}", name(f.cmp(&g)), name(g.cmp(&f)), (f == g) as u8)
                }
                _ => "inv".into(),
            }
        }
        "tn" => {
            let bytes = unhex(toks[1]).unwrap();
            match String::from_utf8(bytes) {
                Err(_) => "notutf8".into(),
                Ok(s) => {
                    let inv = mqtt_proto::TopicName::is_invalid(&s);
                    {
                        let mut roomy = String::with_capacity(70_000 + s.len());
                        roomy.push_str(&s);
                        let a = mqtt_proto::TopicName::try_from(roomy).is_ok();
                        assert!(a == !inv, "TopicName::try_from on a String with spare capacity disagrees with is_invalid");
                    }
                    match mqtt_proto::TopicName::try_from(s.clone()) {
                        Err(_) => {
                            assert!(inv, "try_from rejects what is_invalid accepts");
                            "inv=1".into()
                        }
                        Ok(t) => {
                            assert!(!inv && &*t == s.as_str() && t.to_string() == s);
                            format!("inv=0 shared={} sys={}", t.is_shared() as u8, t.is_sys() as u8)
                        }
                    }
                }
            }
        }
        "utf8" => {
            let bytes = unhex(toks[1]).unwrap();
            let a = simdutf8::basic::from_utf8(&bytes).is_ok();
            let b = std::str::from_utf8(&bytes).is_ok();
            if a == b {
                format!("valid={}", a as u8)
            } else {
                format!("valid=simd:{} std:{}", a as u8, b as u8)
            }
        }
        "proto" => crate::pktops::op_proto(&unhex(toks[1]).unwrap()),
        "dec" if toks[1] == "v3" => crate::pktops::v3_dec(&unhex(toks[2]).unwrap()),
        "deca" if toks[1] == "v3" => crate::pktops::v3_deca(&unhex(toks[2]).unwrap(), crate::pktops::parse_term(toks[3]).unwrap(), vec![]),
        "hdr" if toks[1] == "v3" => crate::pktops::v3_hdr(&unhex(toks[2]).unwrap()),
        "enc" if toks[1] == "v3" => crate::pktops::v3_enc(&toks[2..]),
        "poll" if toks[1] == "v3" => crate::pktops::v3_poll(&unhex(toks[2]).unwrap(), crate::pktops::parse_sched(toks[3]).unwrap(), crate::pktops::parse_term(toks[4]).unwrap()),
        "cwp" if toks[1] == "v3" => crate::pktops::v3_cwp(toks[2], &unhex(toks[3]).unwrap()),
        "dec" if toks[1] == "v5" => crate::pktops::v5_dec(&unhex(toks[2]).unwrap()),
        "deca" if toks[1] == "v5" => crate::pktops::v5_deca(&unhex(toks[2]).unwrap(), crate::pktops::parse_term(toks[3]).unwrap(), vec![]),
        "hdr" if toks[1] == "v5" => crate::pktops::v5_hdr(&unhex(toks[2]).unwrap()),
        "enc" if toks[1] == "v5" => crate::pktops::v5_enc(&toks[2..]),
        "poll" if toks[1] == "v5" => crate::pktops::v5_poll(&unhex(toks[2]).unwrap(), crate::pktops::parse_sched(toks[3]).unwrap(), crate::pktops::parse_term(toks[4]).unwrap()),
        "cwp" if toks[1] == "v5" => crate::pktops::v5_cwp(toks[2], toks[3].parse().unwrap(), &unhex(toks[4]).unwrap()),
        "spec" => {
            use crate::fam::{Fam, V3, V5};
            fn go<F: Fam>(b: &[u8]) -> String {
                match F::poll(b, vec![], crate::sio::Term::Eof).res {
                    Ok((t, _, p)) => format!("accept {} {}", t, F::show(&p)),
                    Err(_) => "reject".into(),
                }
            }
            let b = unhex(toks[2]).unwrap();
            if toks[1] == "v3" { go::<V3>(&b) } else { go::<V5>(&b) }
        }
        "enca" => {
            use crate::fam::{Fam, V3, V5};
            use crate::sio::WItem;
            let mut script = Vec::new();
            if toks[2] != "-" {
                for it in toks[2].split(',') {
                    script.push(if it == "g" {
                        WItem::Gather
                    } else if it == "p" {
                        WItem::Pending
                    } else if it == "z" {
                        WItem::Zero
                    } else if let Some(n) = it.strip_prefix('a') {
                        WItem::Accept(n.parse().unwrap())
                    } else {
                        WItem::Err(io_kind_of(it.strip_prefix("e:").unwrap()).unwrap())
                    });
                }
            }
            fn go<F: Fam>(toks: &[&str], script: Vec<WItem>) -> String {
                match F::parse(toks) {
                    None => "unconstructible-or-bad".into(),
                    Some(p) => {
                        let npend = {
                            // Pending items consumed are observable as the number of Pending results
                            let mut w = crate::sio::ScriptWriter::new(script.clone());
                            let _ = &mut w;
                            0usize
                        };
                        let _ = npend;
                        let (r, written, pend) = F::encode_async_counted(&p, script);
                        match r {
                            Ok(()) => format!("ok written={} pend={}", hex_or_dash(&written), pend),
                            Err(e) => match e.io_kind {
                                Some(k) => format!("err {} written={} pend={}", io_kind(k), hex_or_dash(&written), pend),
                                None => format!("encode-err {}", e.text),
                            },
                        }
                    }
                }
            }
            if toks[1] == "v3" { go::<V3>(&toks[3..], script) } else { go::<V5>(&toks[3..], script) }
        }
        "valid" => {
            // the generator only emits `valid` ops for packets it built inside the valid domain and
            // that the real encoder accepts: the model must agree (valid=1) and round-trip (rt=1)
            let ok = match toks[1] {
                "v3" => match crate::v3text::parse(&toks[2..]) {
                    crate::v3text::Build::Ok(p) => p.encode().is_ok(),
                    _ => false,
                },
                _ => match crate::v5text::parse(&toks[2..]) {
                    crate::v3text::Build::Ok(p) => p.encode().is_ok(),
                    _ => false,
                },
            };
            if ok { "valid=1 rt=1 spec=1".into() } else { "outside".into() }
        }
        other => format!("bad-op {}", other),
    }
}

/// Feed `frame` (control byte + length bytes) to the v3 poll decoder, then EOF, and
/// report where its header state machine ended up.
pub fn poll_header_probe(frame: &[u8]) -> String {
    use crate::sio::*;
    use mqtt_proto::v3::{PollPacket, PollPacketState};
    use mqtt_proto::GenericPollPacketState;
    let mut state = PollPacketState::default();
    let mut rd = ScriptReader::new(frame.to_vec(), vec![], Term::Eof);
    let res = {
        let mut fut = PollPacket::new(&mut state, &mut rd);
        let (r, _) = drive(std::pin::Pin::new(&mut fut));
        r
    };
    match res {
        Ok((total, _, _)) => format!("ok {}", total),
        Err(e) if e.is_eof() => match &state {
            GenericPollPacketState::Header(_) => "header".into(),
            GenericPollPacketState::Body(b) => format!("body {} {}", b.header.remaining_len, b.total),
        },
        Err(e) => format!("err {}", error(&e)),
    }
}

fn opt_hex(o: Option<&str>) -> String {
    match o {
        None => "~".into(),
        Some(s) => hex_or_dash(s.as_bytes()),
    }
}

pub fn op_tf(s: String) -> String {
    use mqtt_proto::TopicFilter;
    let (inv, sep) = TopicFilter::is_invalid(&s);
    // the same text in a String with a LARGE spare capacity (grown by pushes, or pre-allocated): the verdict is
    // about the text, not about the allocation
    {
        let mut roomy = String::with_capacity(70_000 + s.len());
        roomy.push_str(&s);
        let a = TopicFilter::try_from(roomy).is_ok();
        assert!(a == !inv, "TopicFilter::try_from on a String with spare capacity {} the text that is_invalid {}", if a { "accepts" } else { "rejects" }, if inv { "rejects" } else { "accepts" });
    }
    match TopicFilter::try_from(s.clone()) {
        Err(e) => {
            assert!(inv, "try_from rejects what is_invalid accepts: {e:?}");
            format!("inv=1 sep={}", sep)
        }
        Ok(f) => {
            assert!(!inv, "try_from accepts what is_invalid rejects");
            let g = catch_unwind(AssertUnwindSafe(|| opt_hex(f.shared_group_name()))).unwrap_or("panic[str slice]".into());
            let fl = catch_unwind(AssertUnwindSafe(|| opt_hex(f.shared_filter()))).unwrap_or("panic[str slice]".into());
            format!("inv=0 sep={} shared={} group={} filter={} sys={}", sep, f.is_shared() as u8, g, fl, f.is_sys() as u8)
        }
    }
}
