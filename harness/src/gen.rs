//! Generators of op streams for the correspondence check.  Every random choice
//! derives from one `Rng` seeded by VERIF_SEED.

use crate::fmt::*;
use crate::oracle::{interesting_varints, varint_patterns};
use crate::report::Rng;

pub fn gen(stream: &str, tier: &str, seed: u64) -> Vec<String> {
    let mut rng = Rng::new(seed ^ 0xC0FFEE);
    let thorough = tier == "thorough";
    let mut out = Vec::new();
    match stream {
        "vi" => {
            for n in interesting_varints() {
                out.push(format!("vi {}", n));
            }
            let k = if thorough { 200_000 } else { 20_000 };
            for _ in 0..k {
                let bits = 1 + rng.below(30);
                out.push(format!("vi {}", rng.next() & ((1u64 << bits) - 1)));
            }
        }
        "vib" => {
            for p in varint_patterns() {
                for cb in [0x30u8, 0x00, 0xc0] {
                    let mut f = vec![cb];
                    f.extend_from_slice(&p);
                    out.push(format!("vib {}", hex(&f)));
                }
            }
            out.push("vib -".into());
            let k = if thorough { 100_000 } else { 10_000 };
            for _ in 0..k {
                let len = rng.below(7) as usize;
                let bytes: Vec<u8> = (0..len).map(|_| rng.next() as u8).collect();
                out.push(format!("vib {}", hex_or_dash(&bytes)));
            }
        }
        "pid" => {
            let edge = [0u32, 1, 2, 3, 255, 256, 32767, 32768, 65533, 65534, 65535];
            for p in edge {
                for u in edge {
                    out.push(format!("pid {} {}", p, u));
                }
            }
            let k = if thorough { 300_000 } else { 30_000 };
            for _ in 0..k {
                out.push(format!("pid {} {}", rng.below(65536), rng.below(65536)));
            }
        }
        "tf" | "tn" => {
            // bounded-exhaustive over the alphabet of character classes the validators distinguish
            let alpha: [&str; 9] = ["/", "+", "#", "$", "a", "\0", "é", "你", "😀"];
            let maxlen = if thorough { 6 } else { 5 };
            let mut strs: Vec<String> = Vec::new();
            for len in 0..=maxlen {
                let total = (alpha.len() as u64).pow(len as u32);
                for mut k in 0..total {
                    let mut st = String::new();
                    for _ in 0..len {
                        st.push_str(alpha[(k % alpha.len() as u64) as usize]);
                        k /= alpha.len() as u64;
                    }
                    strs.push(st);
                }
            }
            let op = stream;
            for st in &strs {
                out.push(format!("{} {}", op, hex_or_dash(st.as_bytes())));
            }
            if stream == "tf" {
                // with every prefix shape of "$share/"
                let prefixes = ["$share/", "$share/g/", "$share//", "$share/你/", "$shar/", "$share", "$SYS/", "$share/g", "$share/+/", "$share/g/a/"];
                let short = if thorough { 4 } else { 3 };
                for pre in prefixes {
                    for st in strs.iter().filter(|s| s.chars().count() <= short) {
                        out.push(format!("tf {}", hex_or_dash(format!("{}{}", pre, st).as_bytes())));
                    }
                }
            } else {
                for pre in ["$share/", "$SYS/", "$share", "$SYS", "$sys/"] {
                    for st in strs.iter().filter(|s| s.chars().count() <= 2) {
                        out.push(format!("tn {}", hex_or_dash(format!("{}{}", pre, st).as_bytes())));
                    }
                }
            }
            // long strings around the 65,535-byte limit
            for n in [65534usize, 65535, 65536] {
                out.push(format!("{} {}", op, hex(&vec![b'a'; n])));
                let mut v = vec![b'a'; n - 2];
                v.extend_from_slice("é".as_bytes());
                out.push(format!("{} {}", op, hex(&v)));
                let mut w = b"$share/grp/".to_vec();
                w.extend(vec![b'x'; n - 11]);
                out.push(format!("{} {}", op, hex(&w)));
            }
            // random strings over the alphabet, and invalid UTF-8
            let k = if thorough { 100_000 } else { 10_000 };
            for _ in 0..k {
                let len = rng.below(14) as usize;
                let mut st = String::new();
                if rng.chance(1, 3) {
                    st.push_str(*rng.pick(&["$share/", "$share/ab/", "$share//", "$SYS/", "$share/é/"]));
                }
                for _ in 0..len {
                    st.push_str(*rng.pick(&alpha));
                }
                out.push(format!("{} {}", op, hex_or_dash(st.as_bytes())));
            }
            for _ in 0..200 {
                let len = 1 + rng.below(5) as usize;
                let bytes: Vec<u8> = (0..len).map(|_| rng.next() as u8).collect();
                out.push(format!("{} {}", op, hex(&bytes)));
            }
        }
        "utf8" => {
            // all 1- and 2-byte strings, boundaries of the 3-/4-byte forms, random
            for a in 0..=255u8 {
                out.push(format!("utf8 {}", hex(&[a])));
            }
            for a in 0..=255u8 {
                for b in 0..=255u8 {
                    if a >= 0x80 {
                        out.push(format!("utf8 {}", hex(&[a, b])));
                    }
                }
            }
            for a in [0xe0u8, 0xe1, 0xec, 0xed, 0xee, 0xef, 0xf0, 0xf1, 0xf3, 0xf4, 0xf5] {
                for b in [0x7fu8, 0x80, 0x8f, 0x90, 0x9f, 0xa0, 0xbf, 0xc0] {
                    for c in [0x7fu8, 0x80, 0xbf, 0xc0] {
                        out.push(format!("utf8 {}", hex(&[a, b, c])));
                        for d in [0x7fu8, 0x80, 0xbf, 0xc0] {
                            out.push(format!("utf8 {}", hex(&[a, b, c, d])));
                        }
                    }
                }
            }
            let k = if thorough { 200_000 } else { 20_000 };
            for _ in 0..k {
                let len = rng.below(9) as usize;
                let bytes: Vec<u8> = (0..len).map(|_| if rng.chance(1, 2) { rng.next() as u8 } else { *rng.pick(&[0x41u8, 0xc3, 0xa9, 0xe4, 0xbd, 0xa0, 0xf0, 0x9f, 0x98, 0x80]) }).collect();
                out.push(format!("utf8 {}", hex_or_dash(&bytes)));
            }
        }
        other => panic!("unknown stream {other}"),
    }
    out
}
