//! Generators of op streams for the correspondence check.  Every random choice
//! derives from one `Rng` seeded by VERIF_SEED.

use crate::fmt::*;
use crate::oracle::{interesting_varints, varint_patterns};
use crate::pgen::*;
use crate::report::Rng;

pub const KINDS: [&str; 6] = ["UnexpectedEof", "ConnectionReset", "TimedOut", "BrokenPipe", "WouldBlock", "Other"];
/// kinds for READ faults (a synchronous `io::Write::write_all` retries Interrupted by contract, so the
/// write side keeps to KINDS)
pub const READ_KINDS: [&str; 12] = ["UnexpectedEof", "ConnectionReset", "TimedOut", "BrokenPipe", "WouldBlock", "Other", "Interrupted", "PermissionDenied", "ConnectionRefused", "InvalidInput", "NotFound", "OutOfMemory"];

pub fn gen(stream: &str, tier: &str, seed: u64) -> Vec<String> {
    let mut rng = Rng::new(seed ^ 0xC0FFEE);
    let thorough = tier == "thorough";
    let mut out = Vec::new();
    match stream {
        "vi" => {
            for n in interesting_varints() {
                out.push(format!("vi {}", n));
            }
            let k = if thorough { 200_000 } else { 20_000 };
            for _ in 0..k {
                let bits = 1 + rng.below(30);
                out.push(format!("vi {}", rng.next() & ((1u64 << bits) - 1)));
            }
        }
        "vib" => {
            for p in varint_patterns() {
                for cb in [0x30u8, 0x00, 0xc0] {
                    let mut f = vec![cb];
                    f.extend_from_slice(&p);
                    out.push(format!("vib {}", hex(&f)));
                }
            }
            out.push("vib -".into());
            let k = if thorough { 100_000 } else { 10_000 };
            for _ in 0..k {
                let len = rng.below(7) as usize;
                let bytes: Vec<u8> = (0..len).map(|_| rng.next() as u8).collect();
                out.push(format!("vib {}", hex_or_dash(&bytes)));
            }
        }
        "pid" => {
            let edge = [0u32, 1, 2, 3, 255, 256, 32767, 32768, 65533, 65534, 65535];
            for p in edge {
                for u in edge {
                    out.push(format!("pid {} {}", p, u));
                }
            }
            let k = if thorough { 300_000 } else { 30_000 };
            for _ in 0..k {
                out.push(format!("pid {} {}", rng.below(65536), rng.below(65536)));
            }
        }
        "tf" | "tn" => {
            // bounded-exhaustive over the alphabet of character classes the validators distinguish
            let alpha: [&str; 9] = ["/", "+", "#", "$", "a", "\0", "é", "你", "😀"];
            let maxlen = if thorough { 6 } else { 5 };
            let mut strs: Vec<String> = Vec::new();
            for len in 0..=maxlen {
                let total = (alpha.len() as u64).pow(len as u32);
                for mut k in 0..total {
                    let mut st = String::new();
                    for _ in 0..len {
                        st.push_str(alpha[(k % alpha.len() as u64) as usize]);
                        k /= alpha.len() as u64;
                    }
                    strs.push(st);
                }
            }
            let op = stream;
            for st in &strs {
                out.push(format!("{} {}", op, hex_or_dash(st.as_bytes())));
            }
            if stream == "tf" {
                // with every prefix shape of "$share/"
                let prefixes = ["$share/", "$share/g/", "$share//", "$share/你/", "$shar/", "$share", "$SYS/", "$share/g", "$share/+/", "$share/g/a/", "$shared/", "$shared/a/", "$sharex/a/b/", "$share你/好/", "$Share/g/", "$sharE/g/"];
                let short = if thorough { 4 } else { 3 };
                for pre in prefixes {
                    for st in strs.iter().filter(|s| s.chars().count() <= short) {
                        out.push(format!("tf {}", hex_or_dash(format!("{}{}", pre, st).as_bytes())));
                    }
                }
            } else {
                for pre in ["$share/", "$SYS/", "$share", "$SYS", "$sys/"] {
                    for st in strs.iter().filter(|s| s.chars().count() <= 2) {
                        out.push(format!("tn {}", hex_or_dash(format!("{}{}", pre, st).as_bytes())));
                    }
                }
            }
            // TRUNCATION LOOKALIKES: characters whose code point equals a syntax character modulo 256
            // (U+012B ≡ '+', U+0123 ≡ '#', U+012F ≡ '/', U+0124 ≡ '$', U+0100 ≡ NUL) or modulo 65,536
            // (U+1002B …): an implementation that compares `c as u8` / `c as u16` confuses them
            let look: [&str; 14] = ["/", "+", "#", "$", "a", "\u{12b}", "\u{123}", "\u{12f}", "\u{124}", "\u{100}", "\u{1002b}", "\u{10023}", "\u{1002f}", "\u{10000}"];
            let lmax = if thorough { 4 } else { 3 };
            for len in 1..=lmax {
                let total = (look.len() as u64).pow(len as u32);
                for mut k in 0..total {
                    let mut st = String::new();
                    for _ in 0..len {
                        st.push_str(look[(k % look.len() as u64) as usize]);
                        k /= look.len() as u64;
                    }
                    if !st.is_ascii() {
                        out.push(format!("{} {}", op, hex(st.as_bytes())));
                    }
                }
            }
            // every way of replacing characters of "$share/" (and "$SYS/") by their lookalikes, with the
            // suffix shapes that distinguish shared from ordinary filters
            for base in ["$share/", "$SYS/"] {
                let chars: Vec<char> = base.chars().collect();
                for off in [0x100u32, 0x4e00, 0x10000] {
                    for mask in 1u32..(1 << chars.len()) {
                        // all single and double replacements, and the full replacement
                        if mask.count_ones() > 2 && mask != (1 << chars.len()) - 1 {
                            continue;
                        }
                        let pre: String = chars.iter().enumerate().map(|(i, c)| if mask & (1 << i) != 0 { char::from_u32(*c as u32 + off).unwrap() } else { *c }).collect();
                        for suf in ["", "+", "x", "g", "g/f", "g/+", "g/#", "/x", "g/", "#", "+/x", "g/a/b"] {
                            out.push(format!("{} {}", op, hex(format!("{}{}", pre, suf).as_bytes())));
                        }
                    }
                }
            }
            // TOKEN-level bounded-exhaustive: every sequence of up to 5 (thorough: 6) levels drawn from the
            // tokens the rules speak about, joined by '/': nests and repeats the multi-character prefixes
            // (`$share/g/$share/x`, `$share/g/$SYS/x`, `$SYS/$share/…`) that no character-level
            // enumeration of this length reaches
            {
                let toks = ["$share", "$SYS", "+", "#", "", "a", "$", "g"];
                let maxl = if thorough { 6 } else { 5 };
                for len in 1..=maxl {
                    let total = (toks.len() as u64).pow(len as u32);
                    for mut k in 0..total {
                        let mut parts: Vec<&str> = Vec::new();
                        for _ in 0..len {
                            parts.push(toks[(k % toks.len() as u64) as usize]);
                            k /= toks.len() as u64;
                        }
                        out.push(format!("{} {}", op, hex_or_dash(parts.join("/").as_bytes())));
                    }
                }
            }
            // COMPONENT LENGTHS: share name, filter part and a single level swept through the lengths where an
            // index kept in a narrower integer wraps (256·k, 65,536-ish) — in bytes and in multi-byte characters
            for n in [1usize, 2, 126, 127, 128, 129, 254, 255, 256, 257, 258, 510, 511, 512, 513, 514, 767, 768, 769, 1023, 1024, 1025, 4095, 4096, 4097, 16_383, 16_384, 32_767, 32_768] {
                for unit in ["g", "é"] {
                    if n % unit.len() != 0 {
                        continue;
                    }
                    let c = unit.repeat(n / unit.len());
                    out.push(format!("{} {}", op, hex(format!("$share/{}/t", c).as_bytes())));
                    out.push(format!("{} {}", op, hex(format!("$share/{}/+/#", c).as_bytes())));
                    out.push(format!("{} {}", op, hex(format!("$share/g/{}", c).as_bytes())));
                    out.push(format!("{} {}", op, hex(format!("a/{}/b", c).as_bytes())));
                    out.push(format!("{} {}", op, hex(format!("$SYS/{}", c).as_bytes())));
                }
            }
            // every structural SHAPE padded to the maximum length (a 16-bit index + 1 or + 2 overflows only there)
            for total in [65_533usize, 65_534, 65_535, 65_536] {
                for shape in ["$share/{F}/", "$share/{F}/t", "$share/{F}", "$share/g/{F}", "$share/g/{F}/#", "$share/g/{F}/", "{F}/#", "{F}/+", "+/{F}", "{F}#", "{F}+", "$SYS/{F}", "{F}/", "/{F}", "{F}/+/#", "$share/{F}/+/#"] {
                    let fixed = shape.len() - 3;
                    if total > fixed {
                        let st = shape.replace("{F}", &"a".repeat(total - fixed));
                        out.push(format!("{} {}", op, hex(st.as_bytes())));
                    }
                }
            }
            // DEPTH: many levels (a level counter kept in a u8 / u16 wraps at 256 / 65,536 levels)
            for n in [254usize, 255, 256, 257, 258, 259, 260, 511, 512, 513, 1023, 1024, 1025, 4095, 4096, 32_767] {
                let deep = vec!["a"; n].join("/");
                out.push(format!("{} {}", op, hex(deep.as_bytes())));
                out.push(format!("{} {}", op, hex(format!("$share/g/{}", deep).as_bytes())));
                out.push(format!("{} {}", op, hex(format!("$share/g/{}/#", deep).as_bytes())));
                out.push(format!("{} {}", op, hex(format!("{}/+", deep).as_bytes())));
                out.push(format!("{} {}", op, hex("/".repeat(n).as_bytes())));
                out.push(format!("{} {}", op, hex(format!("$share/g/{}", "/".repeat(n)).as_bytes())));
            }
            for n in [65_526usize, 65_527, 65_534, 65_535] {
                out.push(format!("{} {}", op, hex("/".repeat(n).as_bytes())));
                out.push(format!("{} {}", op, hex(format!("$share/g/{}", "/".repeat(n - 9)).as_bytes())));
            }
            // … and the reserved-looking first levels of OTHER brokers' extensions ($queue = pre-v5 shared
            // subscriptions, $local, $exclusive, $delayed, $oshare, $aws, …): ordinary levels to this codec
            {
                let firsts = ["$queue", "$local", "$exclusive", "$delayed", "$oshare", "$aws", "$share2", "$", "$$", "$shar", "$sy", "$SYSTEM", "$SYS2"];
                for f in firsts {
                    for rest in ["", "/", "/t", "/g/t", "/+", "/#", "/g/+", "/g/#", "//t", "/$share/g/t", "/+/t", "/t/"] {
                        out.push(format!("{} {}", op, hex(format!("{}{}", f, rest).as_bytes())));
                        out.push(format!("{} {}", op, hex(format!("$share/{}{}", f, rest).as_bytes())));
                    }
                }
            }
            // … and with the CASE variants of the two reserved tokens (4 levels)
            {
                let toks = ["$share", "$SHARE", "$Share", "$SYS", "$sys", "$Sys", "+", "#", "", "a", "g"];
                let maxl = if thorough { 5 } else { 4 };
                for len in 1..=maxl {
                    let total = (toks.len() as u64).pow(len as u32);
                    for mut k in 0..total {
                        let mut parts: Vec<&str> = Vec::new();
                        let mut cased = false;
                        for _ in 0..len {
                            let t = toks[(k % toks.len() as u64) as usize];
                            cased |= matches!(t, "$SHARE" | "$Share" | "$sys" | "$Sys");
                            parts.push(t);
                            k /= toks.len() as u64;
                        }
                        if cased {
                            out.push(format!("{} {}", op, hex_or_dash(parts.join("/").as_bytes())));
                        }
                    }
                }
            }
            // ONE representative (lowest and highest code point) for EVERY UTF-8 lead byte C2…F4, next to each
            // syntax character: a byte-walking validator that mis-sizes one lead byte skips what follows it
            {
                let mut reps: Vec<char> = Vec::new();
                for lead in 0xc2u32..=0xdf {
                    reps.push(char::from_u32((lead & 0x1f) << 6).unwrap());
                    reps.push(char::from_u32(((lead & 0x1f) << 6) | 0x3f).unwrap());
                }
                for lead in 0xe0u32..=0xef {
                    let lo = ((lead & 0x0f) << 12).max(0x800);
                    let hi = ((lead & 0x0f) << 12) | 0xfff;
                    for c in [lo, hi] {
                        if let Some(ch) = char::from_u32(if (0xd800..=0xdfff).contains(&c) { if c == lo { 0xd000 } else { 0xd7ff } } else { c }) {
                            reps.push(ch);
                        }
                    }
                }
                for lead in 0xf0u32..=0xf4 {
                    let lo = ((lead & 0x07) << 18).max(0x10000);
                    let hi = (((lead & 0x07) << 18) | 0x3ffff).min(0x10ffff);
                    reps.push(char::from_u32(lo).unwrap());
                    reps.push(char::from_u32(hi).unwrap());
                }
                for c in reps {
                    for x in ["+", "#", "/", "\0", "$", "a"] {
                        for st in [format!("{}{}", c, x), format!("{}{}", x, c), format!("a/{}{}", c, x), format!("{}{}{}", c, c, x), format!("{}é{}", c, x), format!("$share/{}/{}{}", c, c, x)] {
                            out.push(format!("{} {}", op, hex(st.as_bytes())));
                        }
                    }
                }
            }
            // characters an implementation might treat specially (BOM, non-characters, white space, …) at the
            // start, inside and at the end of representative texts
            for sp in crate::pgen::SPECIALS {
                for base in ["", "a", "a/b", "$share/g/t", "$SYS/x", "+", "#", "a/+/b", "a/#", "/"] {
                    for st in [format!("{}{}", sp, base), format!("{}{}", base, sp), format!("{}{}{}", sp, base, sp)] {
                        out.push(format!("{} {}", op, hex_or_dash(st.as_bytes())));
                    }
                    if let Some(i) = base.find('/') {
                        out.push(format!("{} {}", op, hex(format!("{}{}{}", &base[..i + 1], sp, &base[i + 1..]).as_bytes())));
                        out.push(format!("{} {}", op, hex(format!("{}{}{}", &base[..i], sp, &base[i..]).as_bytes())));
                    }
                }
            }
            // offending values that an error path might echo, truncate or format: long multi-byte texts at
            // every alignment around 32 / 64 / 128 / 256 / 512 / 1024 bytes (invalid: wildcard inside)
            for unit in ["é", "你", "😀"] {
                for target in [31usize, 32, 33, 63, 64, 65, 127, 128, 129, 255, 256, 257, 511, 512, 513, 1023, 1024, 1025] {
                    for pad in 0..4usize {
                        let mut st = "a".repeat(pad);
                        while st.len() < target + 4 {
                            st.push_str(unit);
                        }
                        out.push(format!("{} {}", op, hex(st.as_bytes())));
                        out.push(format!("{} {}", op, hex(format!("{}+x#", st).as_bytes())));
                        out.push(format!("{} {}", op, hex(format!("+{}", st).as_bytes())));
                    }
                }
            }
            // long strings whose length in BYTES, in CHARS and in UTF-16 units differ, around the limits an
            // implementation might apply in the wrong unit (32,767 / 32,768 / 65,535)
            for (unit, per) in [("a", 1usize), ("é", 2), ("你", 3), ("😀", 4)] {
                for chars in [16_383usize, 16_384, 21_845, 21_846, 32_767, 32_768, 40_000, 65_535] {
                    if chars * per <= 65_540 {
                        let body = unit.repeat(chars);
                        out.push(format!("{} {}", op, hex(body.as_bytes())));
                        out.push(format!("{} {}", op, hex(format!("$SYS/{}", &body[..body.len() - per * 5]).as_bytes())));
                    }
                }
            }
            // long strings around the 65,535-byte limit
            for n in [65534usize, 65535, 65536] {
                out.push(format!("{} {}", op, hex(&vec![b'a'; n])));
                let mut v = vec![b'a'; n - 2];
                v.extend_from_slice("é".as_bytes());
                out.push(format!("{} {}", op, hex(&v)));
                let mut w = b"$share/grp/".to_vec();
                w.extend(vec![b'x'; n - 11]);
                out.push(format!("{} {}", op, hex(&w)));
            }
            // random strings over the alphabet, and invalid UTF-8
            let k = if thorough { 100_000 } else { 10_000 };
            for _ in 0..k {
                let len = rng.below(14) as usize;
                let mut st = String::new();
                if rng.chance(1, 3) {
                    st.push_str(*rng.pick(&["$share/", "$share/ab/", "$share//", "$SYS/", "$share/é/"]));
                }
                for _ in 0..len {
                    st.push_str(*rng.pick(&alpha));
                }
                out.push(format!("{} {}", op, hex_or_dash(st.as_bytes())));
            }
            for _ in 0..200 {
                let len = 1 + rng.below(5) as usize;
                let bytes: Vec<u8> = (0..len).map(|_| rng.next() as u8).collect();
                out.push(format!("{} {}", op, hex(&bytes)));
            }
        }
        "mixed" => {
            // ops of BOTH families and of every kind interleaved in one process, each op repeated later in the
            // stream: a result must not depend on what was decoded or encoded before (hidden static state,
            // caches keyed on the previous packet, a family flag left behind)
            let mut pool: Vec<String> = Vec::new();
            for st in ["v3dec", "v5dec", "v3enc", "v5enc", "cross", "v5props", "tf", "tn", "proto"] {
                let ops = gen(st, "quick", seed);
                let step = (ops.len() / (if thorough { 6000 } else { 1500 })).max(1);
                pool.extend(ops.into_iter().step_by(step).filter(|l| l.len() < 4000));
            }
            let n = pool.len();
            for k in 0..(3 * n) {
                // a fixed pseudo-random walk that visits every op three times in different neighbourhoods
                let i = (k.wrapping_mul(7919) + (k / n) * 104_729) % n;
                out.push(pool[i].clone());
            }
        }
        "hist" => {
            // HISTORY: the same text presented in different roles back to back (as a filter, then as a name,
            // then as a filter again; inside SUBSCRIBE, then PUBLISH, then UNSUBSCRIBE, both families), and the
            // same packet decoded twice around a different one.  A result must be a function of the op alone:
            // memoised validations, "last topic" caches and the like show up here.
            let toks = ["$share", "$SYS", "+", "#", "", "a", "g"];
            let mut texts: Vec<String> = vec!["sensors/+/temp".into(), "a".into(), "".into(), "$share/g".into(), "$share/g/t".into(), "a/#".into(), "#".into(), "+".into(), "$SYS/x".into(), "é/你".into()];
            for len in 1..=3usize {
                let total = (toks.len() as u64).pow(len as u32);
                for mut k in 0..total {
                    let mut parts: Vec<&str> = Vec::new();
                    for _ in 0..len {
                        parts.push(toks[(k % toks.len() as u64) as usize]);
                        k /= toks.len() as u64;
                    }
                    texts.push(parts.join("/"));
                }
            }
            for (i, t) in texts.iter().enumerate() {
                let h = hex_or_dash(t.as_bytes());
                let other = hex_or_dash(texts[(i * 7 + 3) % texts.len()].as_bytes());
                for seq in [["tf", "tn", "tf"], ["tn", "tf", "tn"]] {
                    for op in seq {
                        out.push(format!("{} {}", op, h));
                    }
                }
                out.push(format!("tf {}", h));
                out.push(format!("tf {}", other));
                out.push(format!("tn {}", h));
                if t.len() < 100 {
                    for v3 in [true, false] {
                        let fam = if v3 { "v3" } else { "v5" };
                        let fr = topic_frames(v3, t); // [SUBSCRIBE, UNSUBSCRIBE, PUBLISH]
                        for k in [0usize, 2, 1, 2, 0] {
                            out.push(format!("dec {} {}", fam, hex(&fr[k])));
                            out.push(format!("poll {} {} - eof", fam, hex(&fr[k])));
                        }
                    }
                }
            }
        }
        "tfcmp" => {
            // pairs of filters: a sample of the tf stream's valid texts (validity by the independent rule),
            // plus FAMILIES of related shared filters — share names / filters extended by one character
            // below, at and above '/' — all pairs within the sample
            let texts: Vec<String> = gen("tf", tier, seed)
                .iter()
                .filter_map(|l| crate::fmt::unhex(l.split(' ').nth(1).unwrap_or("")).and_then(|b| String::from_utf8(b).ok()))
                .filter(|s| s.len() <= 24 && crate::oracle::spec_filter(s).is_some())
                .collect();
            let mut pool: Vec<String> = Vec::new();
            let shared: Vec<&String> = texts.iter().filter(|s| s.starts_with("$share/")).collect();
            for s in shared.iter().step_by((shared.len() / 12).max(1)).take(12) {
                let rest = &s[7..];
                if let Some(i) = rest.find('/') {
                    let (g, f) = (&rest[..i], &rest[i + 1..]);
                    pool.push(s.to_string());
                    for c in [" ", "!", "$", "-", ".", "0", "a", "\u{7f}", "é", "\u{1}"] {
                        pool.push(format!("$share/{}{}/{}", g, c, f));
                        pool.push(format!("$share/{}/{}{}", g, f.trim_end_matches('#').trim_end_matches('+'), c));
                    }
                    pool.push(format!("{}/{}", g, f));
                }
            }
            let want = if thorough { 700 } else { 260 };
            pool.extend(texts.iter().step_by((texts.len() / (want / 2)).max(1)).cloned());
            pool.retain(|s| crate::oracle::spec_filter(s).is_some());
            pool.sort();
            pool.dedup();
            let step = (pool.len() / want).max(1);
            let pool: Vec<&String> = pool.iter().step_by(step).collect();
            for (i, a) in pool.iter().enumerate() {
                for (j, b) in pool.iter().enumerate().skip(i) {
                    let (x, y) = if (i + j) % 2 == 0 { (a, b) } else { (b, a) };
                    out.push(format!("tfcmp {} {}", hex(x.as_bytes()), hex(y.as_bytes())));
                }
            }
        }
        "utf8" => {
            // all 1- and 2-byte strings, boundaries of the 3-/4-byte forms, random
            for a in 0..=255u8 {
                out.push(format!("utf8 {}", hex(&[a])));
            }
            for a in 0..=255u8 {
                for b in 0..=255u8 {
                    if a >= 0x80 {
                        out.push(format!("utf8 {}", hex(&[a, b])));
                    }
                }
            }
            for a in [0xe0u8, 0xe1, 0xec, 0xed, 0xee, 0xef, 0xf0, 0xf1, 0xf3, 0xf4, 0xf5] {
                for b in [0x7fu8, 0x80, 0x8f, 0x90, 0x9f, 0xa0, 0xbf, 0xc0] {
                    for c in [0x7fu8, 0x80, 0xbf, 0xc0] {
                        out.push(format!("utf8 {}", hex(&[a, b, c])));
                        for d in [0x7fu8, 0x80, 0xbf, 0xc0] {
                            out.push(format!("utf8 {}", hex(&[a, b, c, d])));
                        }
                    }
                }
            }
            let k = if thorough { 200_000 } else { 20_000 };
            for _ in 0..k {
                let len = rng.below(9) as usize;
                let bytes: Vec<u8> = (0..len).map(|_| if rng.chance(1, 2) { rng.next() as u8 } else { *rng.pick(&[0x41u8, 0xc3, 0xa9, 0xe4, 0xbd, 0xa0, 0xf0, 0x9f, 0x98, 0x80]) }).collect();
                out.push(format!("utf8 {}", hex_or_dash(&bytes)));
            }
        }
        "v3enc" => {
            let n = if thorough { 30_000 } else { 3_000 };
            for i in 0..n {
                let sz = Sizes { big: i % 50 == 0 };
                let p = gen_v3(&mut rng, i % V3_TYPES, sz);
                out.push(format!("enc v3 {}", crate::v3text::show(&p)));
            }
            for p in model_sweep_v3(thorough, 8_300) {
                out.push(format!("enc v3 {}", crate::v3text::show(&p)));
            }
            // just outside the valid domain
            for extra in [
                "enc v3 puback 0",
                "enc v3 publish 0 0 1 0 61 -",
                "enc v3 connect 5 1 60 63 ~ ~ ~",
                "enc v3 subscribe 1 0",
                "enc v3 unsubscribe 1 0",
                "enc v3 publish 0 0 0 ~ 612b -",
                "enc v3 subscribe 1 1 2b78:0",
                "enc v3 suback 1 1 128",
                "enc v3 connack 0 6",
                "enc v3 publish 0 0 3 1 61 -",
            ] {
                out.push(extra.to_string());
            }
            let big = "61".repeat(65536);
            out.push(format!("enc v3 connect 4 1 60 {} ~ ~ ~", big));
            out.push(format!("enc v3 publish 0 0 0 ~ 61 {}", "00".repeat(70000)));
        }
        "v3dec" | "v3poll" | "v3fault" => {
            if stream == "v3dec" {
                // the grid sweeps as FRAMES (valid, so every decoder and the specification must accept them)
                for p in model_sweep_v3(thorough, 4_200) {
                    if let Ok(e) = p.encode() {
                        let e = e.as_ref();
                        if e.len() <= 40_000 {
                            out.push(format!("dec v3 {}", hex(e)));
                            out.push(format!("poll v3 {} - eof", hex(e)));
                        }
                    }
                }
                for t in lookalike_topics() {
                    for f in topic_frames(true, &t) {
                        out.push(format!("dec v3 {}", hex(&f)));
                        out.push(format!("poll v3 {} - eof", hex(&f)));
                    }
                }
            }
            let n = if thorough { 20_000 } else { 2_000 };
            for i in 0..n {
                let sz = Sizes { big: i % 100 == 0 };
                let p = gen_v3(&mut rng, i % V3_TYPES, sz);
                let enc = match p.encode() {
                    Ok(e) => e.as_ref().to_vec(),
                    Err(_) => continue,
                };
                let mut variants: Vec<Vec<u8>> = vec![enc.clone()];
                let mut with_tail = enc.clone();
                with_tail.extend_from_slice(&[0xc0, 0x00, 0x30]);
                variants.push(with_tail);
                for _ in 0..3 {
                    let mut m = mutate(&mut rng, &enc);
                    if rng.chance(1, 4) {
                        m = mutate(&mut rng, &m);
                    }
                    variants.push(m);
                }
                for v in variants {
                    let h = hex_or_dash(&v);
                    match stream {
                        "v3dec" => {
                            out.push(format!("dec v3 {}", h));
                            out.push(format!("deca v3 {} eof", h));
                            out.push(format!("poll v3 {} - eof", h));
                            out.push(format!("hdr v3 {}", h));
                        }
                        "v3poll" => {
                            out.push(format!("poll v3 {} {} eof", h, gen_sched(&mut rng, v.len())));
                            out.push(format!("poll v3 {} {} err:{}", h, gen_sched(&mut rng, v.len()), rng.pick(&READ_KINDS)));
                        }
                        _ => {
                            if v.len() <= 300 {
                                let k = rng.below(v.len() as u64 + 1) as usize;
                                let kind = rng.pick(&READ_KINDS);
                                out.push(format!("deca v3 {} err:{}", hex_or_dash(&v[..k]), kind));
                                out.push(format!("poll v3 {} {} err:{}", hex_or_dash(&v[..k]), gen_sched(&mut rng, k), kind));
                                // the same cut as a ONE-SHOT fault: the rest of the bytes would follow
                                let kind = rng.pick(&READ_KINDS);
                                let rest = if k < v.len() { format!("+{}", hex(&v[k..])) } else { String::new() };
                                out.push(format!("deca v3 {} err:{}{}", hex_or_dash(&v[..k]), kind, rest));
                                out.push(format!("poll v3 {} {} err:{}{}", hex_or_dash(&v[..k]), gen_sched(&mut rng, k), kind, rest));
                                out.push(format!("deca v3 {} eof", hex_or_dash(&v[..k])));
                                out.push(format!("dec v3 {}", hex_or_dash(&v[..k])));
                            }
                        }
                    }
                }
            }
            if stream == "v3poll" {
                out.extend(short_poll_schedules("v3"));
                // exhaustive compositions (+ Pending before any read, drop at any Pending) for short packets of every type
                for t in 0..V3_TYPES {
                    let mut tries = 0;
                    loop {
                        tries += 1;
                        let p = gen_v3(&mut rng, t, Sizes { big: false });
                        let enc = p.encode().unwrap().as_ref().to_vec();
                        if enc.len() <= (if thorough { 11 } else { 9 }) || tries > 200 {
                            if enc.len() > 12 {
                                break;
                            }
                            for comp in compositions(enc.len()) {
                                let plain: Vec<String> = comp.iter().map(|c| format!("c{}", c)).collect();
                                out.push(format!("poll v3 {} {} eof", hex(&enc), plain.join(",")));
                                let init: Vec<String> = comp.iter().enumerate().map(|(j, c)| format!("{}{}", if j % 2 == 0 { "i" } else { "c" }, c)).collect();
                                out.push(format!("poll v3 {} {} eof", hex(&enc), init.join(",")));
                                // Pending (with drop) before a read chosen by the composition's shape
                                let mut withp: Vec<String> = Vec::new();
                                for (j, c) in comp.iter().enumerate() {
                                    if (j + comp.len()) % 2 == 0 {
                                        withp.push(if j % 3 == 0 { "d".into() } else { "p".into() });
                                    }
                                    withp.push(format!("c{}", c));
                                }
                                out.push(format!("poll v3 {} {} eof", hex(&enc), withp.join(",")));
                            }
                            break;
                        }
                    }
                }
            }
        }
        "v5enc" => {
            let n = if thorough { 40_000 } else { 4_000 };
            for i in 0..n {
                let sz = Sizes { big: i % 50 == 0 };
                let pmode = [0u8, 0, 0, 1, 2, 3, 4][i % 7];
                let p = gen_v5(&mut rng, i % V5_TYPES, sz, pmode, i / 7);
                out.push(format!("enc v5 {}", crate::v5text::show(&p)));
            }
            for p in model_sweep_v5(thorough, 8_300) {
                out.push(format!("enc v5 {}", crate::v5text::show(&p)));
            }
            for extra in [
                "enc v5 puback 0 0 [|]",
                "enc v5 connect 4 1 60 [|] 63 ~ ~ ~",
                "enc v5 subscribe 1 [|] 0",
                "enc v5 unsubscribe 1 [|] 0",
                "enc v5 connack 0 0 [36=2|]",
                "enc v5 connack 0 1 [|]",
                "enc v5 publish 0 0 0 ~ 61 [1=1|] ff",
                "enc v5 publish 0 0 0 ~ 61 [11=268435456|] -",
                "enc v5 puback 1 0 [17=1|]",
                "enc v5 auth 1 [|]",
                "enc v5 disconnect 1 [|]",
                "enc v5 puback 7 0 [31=78|]",
                "enc v5 pubrel 7 0 [|6b/76]",
            ] {
                out.push(extra.to_string());
            }
        }
        "v5dec" | "v5poll" | "v5fault" => {
            if stream == "v5dec" {
                for f in dictionary_frames() {
                    out.push(format!("dec v5 {}", hex(&f)));
                    out.push(format!("poll v5 {} - eof", hex(&f)));
                }
                // the grid sweeps as FRAMES (valid, so every decoder and the specification must accept them)
                for p in model_sweep_v5(thorough, 4_200) {
                    if let Ok(e) = p.encode() {
                        let e = e.as_ref();
                        if e.len() <= 40_000 {
                            out.push(format!("dec v5 {}", hex(e)));
                            out.push(format!("poll v5 {} - eof", hex(e)));
                        }
                    }
                }
                for t in lookalike_topics() {
                    for f in topic_frames(false, &t) {
                        out.push(format!("dec v5 {}", hex(&f)));
                        out.push(format!("poll v5 {} - eof", hex(&f)));
                    }
                }
            }
            let n = if thorough { 20_000 } else { 2_000 };
            for i in 0..n {
                let sz = Sizes { big: i % 100 == 0 };
                let pmode = [0u8, 0, 1, 2, 3, 4][i % 6];
                let p = gen_v5(&mut rng, i % V5_TYPES, sz, pmode, i / 6);
                let enc = match p.encode() {
                    Ok(e) => e.as_ref().to_vec(),
                    Err(_) => continue,
                };
                let mut variants: Vec<Vec<u8>> = vec![enc.clone()];
                let mut with_tail = enc.clone();
                with_tail.extend_from_slice(&[0xc0, 0x00, 0x30]);
                variants.push(with_tail);
                variants.push(respell_v5(&mut rng, &enc));
                for _ in 0..3 {
                    let mut m = mutate(&mut rng, &enc);
                    if rng.chance(1, 4) {
                        m = mutate(&mut rng, &m);
                    }
                    variants.push(m);
                }
                for v in variants {
                    let h = hex_or_dash(&v);
                    match stream {
                        "v5dec" => {
                            out.push(format!("dec v5 {}", h));
                            out.push(format!("deca v5 {} eof", h));
                            out.push(format!("poll v5 {} - eof", h));
                            out.push(format!("hdr v5 {}", h));
                        }
                        "v5poll" => {
                            out.push(format!("poll v5 {} {} eof", h, gen_sched(&mut rng, v.len())));
                            out.push(format!("poll v5 {} {} err:{}", h, gen_sched(&mut rng, v.len()), rng.pick(&READ_KINDS)));
                        }
                        _ => {
                            if v.len() <= 300 {
                                let k = rng.below(v.len() as u64 + 1) as usize;
                                let kind = rng.pick(&READ_KINDS);
                                out.push(format!("deca v5 {} err:{}", hex_or_dash(&v[..k]), kind));
                                out.push(format!("poll v5 {} {} err:{}", hex_or_dash(&v[..k]), gen_sched(&mut rng, k), kind));
                                // the same cut as a ONE-SHOT fault: the rest of the bytes would follow
                                let kind = rng.pick(&READ_KINDS);
                                let rest = if k < v.len() { format!("+{}", hex(&v[k..])) } else { String::new() };
                                out.push(format!("deca v5 {} err:{}{}", hex_or_dash(&v[..k]), kind, rest));
                                out.push(format!("poll v5 {} {} err:{}{}", hex_or_dash(&v[..k]), gen_sched(&mut rng, k), kind, rest));
                                out.push(format!("deca v5 {} eof", hex_or_dash(&v[..k])));
                                out.push(format!("dec v5 {}", hex_or_dash(&v[..k])));
                            }
                        }
                    }
                }
            }
            if stream == "v5poll" {
                out.extend(short_poll_schedules("v5"));
                for t in 0..V5_TYPES {
                    let mut tries = 0;
                    loop {
                        tries += 1;
                        let p = gen_v5(&mut rng, t, Sizes { big: false }, 2, 0);
                        let enc = p.encode().unwrap().as_ref().to_vec();
                        if enc.len() <= (if thorough { 11 } else { 9 }) || tries > 300 {
                            if enc.len() > 12 {
                                break;
                            }
                            for comp in compositions(enc.len()) {
                                let plain: Vec<String> = comp.iter().map(|c| format!("c{}", c)).collect();
                                out.push(format!("poll v5 {} {} eof", hex(&enc), plain.join(",")));
                                let init: Vec<String> = comp.iter().enumerate().map(|(j, c)| format!("{}{}", if j % 2 == 0 { "i" } else { "c" }, c)).collect();
                                out.push(format!("poll v5 {} {} eof", hex(&enc), init.join(",")));
                                let mut withp: Vec<String> = Vec::new();
                                for (j, c) in comp.iter().enumerate() {
                                    if (j + comp.len()) % 2 == 0 {
                                        withp.push(if j % 3 == 0 { "d".into() } else { "p".into() });
                                    }
                                    withp.push(format!("c{}", c));
                                }
                                out.push(format!("poll v5 {} {} eof", hex(&enc), withp.join(",")));
                            }
                            break;
                        }
                    }
                }
            }
        }
        "v5short" => {
            out.extend(tiny_frames("v5", thorough));
            out.push("dec v5 -".into());
            out.push("poll v5 - - eof".into());
            for a in 0..=255u8 {
                out.push(format!("dec v5 {}", hex(&[a])));
                out.push(format!("poll v5 {} - eof", hex(&[a])));
                out.push(format!("hdr v5 {}", hex(&[a])));
            }
            for a in 0..=255u8 {
                for b in 0..=255u8 {
                    let h = hex(&[a, b]);
                    out.push(format!("dec v5 {}", h));
                    out.push(format!("poll v5 {} - eof", h));
                    if thorough || b % 16 == 0 {
                        out.push(format!("hdr v5 {}", h));
                    }
                }
            }
            let bodies: [&[u8]; 10] = [&[0, 0], &[0, 1], &[0, 1, 0], &[0, 1, 0x61], &[0, 1, 0x61, 0], &[0, 0, 0, 1], &[0, 4, 0x4d, 0x51, 0x54, 0x54, 5, 2, 0, 0, 0, 0, 0], &[0xff, 0xff, 0xff], &[0, 1, 0, 0], &[0, 1, 0x10, 2, 0x1f, 0]];
            for a in 0..=255u8 {
                for body in bodies {
                    for l in [body.len() as u8, body.len() as u8 + 1, body.len().saturating_sub(1) as u8] {
                        let mut f = vec![a, l];
                        f.extend_from_slice(body);
                        out.push(format!("dec v5 {}", hex(&f)));
                        out.push(format!("poll v5 {} - eof", hex(&f)));
                    }
                }
            }
        }
        "v3sub1" | "v5sub1" | "v3sub1s" | "v5sub1s" => {
            // EXHAUSTIVE single-byte substitution: for short valid packets of every type (several shapes
            // each), every byte position receives every one of the 255 other values.  This sweeps every
            // flag byte, code byte, property identifier, option byte and length byte through its whole
            // domain in its real context, so the tie on these one-byte tables is exhaustive, not sampled.
            // `…s` = the same frames through the independent specification (`spec` op).
            let v3 = stream.starts_with("v3");
            let as_spec = stream.ends_with('s');
            let fam = &stream[..2];
            let per_type = if thorough { 20 } else { 6 };
            let max_len = if thorough { 80 } else { 48 };
            let types = if v3 { V3_TYPES } else { V5_TYPES };
            // CONNECT flag sweep: all 256 flag bytes, each with the body that flag byte calls for
            // (will fields iff bit 2, user name iff bit 7, password iff bit 6), for every protocol level
            let levels: &[(&[u8], u8)] = if v3 { &[(b"MQTT", 4), (b"MQIsdp", 3)] } else { &[(b"MQTT", 5)] };
            for (name, level) in levels {
                for b in 0..=255u8 {
                    let mut body = vec![0, name.len() as u8];
                    body.extend_from_slice(name);
                    body.extend_from_slice(&[*level, b, 0, 10]);
                    if !v3 {
                        body.push(0);
                    }
                    body.extend_from_slice(&[0, 1, b'c']);
                    if b & 4 != 0 {
                        if !v3 {
                            body.push(0);
                        }
                        body.extend_from_slice(&[0, 1, b'w', 0, 1, b'm']);
                    }
                    if b & 0x80 != 0 {
                        body.extend_from_slice(&[0, 1, b'u']);
                    }
                    if b & 0x40 != 0 {
                        body.extend_from_slice(&[0, 1, b'p']);
                    }
                    let mut f = vec![0x10, body.len() as u8];
                    f.extend_from_slice(&body);
                    if as_spec {
                        out.push(format!("spec {} {}", fam, hex(&f)));
                    } else {
                        out.push(format!("dec {} {}", fam, hex(&f)));
                        out.push(format!("poll {} {} - eof", fam, hex(&f)));
                    }
                }
            }
            // CONNECT whose body does NOT match its flags although the remaining length is consistent: the last
            // field the flags call for is missing / one more field than called for is present; alone and followed
            // by bytes that look like a short length-prefixed field (a lenient reader might take them for it)
            for (name, level) in levels {
                for b in 0..=255u8 {
                    let mut fields: Vec<Vec<u8>> = Vec::new();
                    fields.push(vec![0, 1, b'c']);
                    if b & 4 != 0 {
                        if !v3 {
                            fields.push(vec![0]);
                        }
                        fields.push(vec![0, 1, b'w']);
                        fields.push(vec![0, 1, b'm']);
                    }
                    if b & 0x80 != 0 {
                        fields.push(vec![0, 1, b'u']);
                    }
                    if b & 0x40 != 0 {
                        fields.push(vec![0, 1, b'p']);
                    }
                    for variant in 0..2 {
                        let mut fs = fields.clone();
                        if variant == 0 {
                            if fs.len() < 2 {
                                continue;
                            }
                            fs.pop();
                        } else {
                            fs.push(vec![0, 1, b'x']);
                        }
                        let mut body = vec![0, name.len() as u8];
                        body.extend_from_slice(name);
                        body.extend_from_slice(&[*level, b, 0, 10]);
                        if !v3 {
                            body.push(0);
                        }
                        for f in &fs {
                            body.extend_from_slice(f);
                        }
                        let mut f = vec![0x10, body.len() as u8];
                        f.extend_from_slice(&body);
                        for tail in [&[][..], &[0, 2, b'h', b'i'][..], &[0, 0][..]] {
                            let mut g = f.clone();
                            g.extend_from_slice(tail);
                            if as_spec {
                                out.push(format!("spec {} {}", fam, hex(&g)));
                            } else {
                                out.push(format!("dec {} {}", fam, hex(&g)));
                                out.push(format!("poll {} {} - eof", fam, hex(&g)));
                            }
                        }
                    }
                }
            }
            let mut seen = std::collections::HashSet::new();
            for t in 0..types {
                let mut got = 0;
                let mut tries = 0;
                while got < per_type && tries < 400 {
                    tries += 1;
                    let enc = if v3 {
                        gen_v3(&mut rng, t, Sizes { big: false }).encode().map(|e| e.as_ref().to_vec())
                    } else {
                        gen_v5(&mut rng, t, Sizes { big: false }, [3u8, 2, 0, 3][tries % 4], tries).encode().map(|e| e.as_ref().to_vec())
                    };
                    let enc = match enc {
                        Ok(e) if e.len() <= max_len => e,
                        _ => continue,
                    };
                    // prefer distinct shapes: key = (length, first bytes)
                    if !seen.insert((enc.len(), enc.iter().take(4).cloned().collect::<Vec<u8>>())) {
                        continue;
                    }
                    got += 1;
                    for pos in 0..enc.len() {
                        for v in 0..=255u8 {
                            if v == enc[pos] {
                                continue;
                            }
                            let mut f = enc.clone();
                            f[pos] = v;
                            if as_spec {
                                out.push(format!("spec {} {}", fam, hex(&f)));
                            } else {
                                out.push(format!("dec {} {}", fam, hex(&f)));
                                out.push(format!("poll {} {} - eof", fam, hex(&f)));
                            }
                        }
                    }
                }
            }
        }
        "v5props" | "v5propss" => {
            // property sections built by hand, independently of the encoder: random subsets of the
            // standard's identifiers in RANDOM ORDER (the encoder always emits one fixed order), user
            // properties interleaved, occasional duplicates and identifiers foreign to the host packet,
            // boundary values, at each of the 14 property-carrying positions
            let as_spec = stream.ends_with("ss");
            let n = if thorough { 4000 } else { 500 };
            for host in crate::tables::PROP_HOSTS {
                for i in 0..n {
                    let f = props_frame(&mut rng, host, i);
                    if as_spec {
                        out.push(format!("spec v5 {}", hex(&f)));
                    } else {
                        out.push(format!("dec v5 {}", hex(&f)));
                        out.push(format!("poll v5 {} - eof", hex(&f)));
                    }
                }
                // EVERY declared property length 0 ..= true length + 2 over a few sections per position (the section
                // then ends at every byte of every property; the rest of the frame is laid out as if it were right)
                let mut r2 = Rng::new(seed ^ 0xc0de_cafe);
                for i in 0..(if thorough { 40 } else { 10 }) {
                    let snapshot = r2.clone();
                    let _ = props_frame(&mut r2, host, i * 5 + (i % 3));
                    let true_len = PROPS_LEN.with(|c| c.get());
                    if true_len > 160 {
                        continue;
                    }
                    for d in 0..=true_len + 2 {
                        DECLARED_OVERRIDE.with(|c| c.set(Some(d)));
                        let f = props_frame(&mut snapshot.clone(), host, i * 5 + (i % 3));
                        DECLARED_OVERRIDE.with(|c| c.set(None));
                        if as_spec {
                            out.push(format!("spec v5 {}", hex(&f)));
                        } else {
                            out.push(format!("dec v5 {}", hex(&f)));
                            out.push(format!("poll v5 {} - eof", hex(&f)));
                        }
                    }
                }
            }
        }
        "sib" => {
            // a forbidden character at EVERY position of topic names / filters of every length up to 40 (and around 64):
            // a validator that scans in words or blocks must not have a blind window at any (length, position)
            for v3 in [true, false] {
                let fam = if v3 { "v3" } else { "v5" };
                let mut lens: Vec<usize> = (1..=40).collect();
                lens.extend([47, 48, 49, 63, 64, 65, 72, 73]);
                for len in lens {
                    for pos in 0..len {
                        for c in [b'+', b'#', 0u8] {
                            let mut t = vec![b'a'; len];
                            if len > 12 {
                                t[len / 3] = b'/';
                            }
                            t[pos] = c;
                            let t = String::from_utf8(t).unwrap();
                            for f in topic_frames(v3, &t) {
                                let h = hex(&f);
                                out.push(format!("dec {} {}", fam, h));
                                out.push(format!("spec {} {}", fam, h));
                            }
                        }
                    }
                }
            }
            for v3 in [true, false] {
                let fam = if v3 { "v3" } else { "v5" };
                for f in sibling_frames(v3, thorough) {
                    let h = hex(&f);
                    out.push(format!("dec {} {}", fam, h));
                    out.push(format!("poll {} {} - eof", fam, h));
                    out.push(format!("spec {} {}", fam, h));
                }
            }
        }
        "v3spec" | "v5spec" => {
            // the dec corpus (valid encodings, trailing bytes, mutations, short strings) through `spec`
            let fam = &stream[..2];
            for base in [format!("{}dec", fam), format!("{}short", fam)] {
                for l in gen(&base, tier, seed) {
                    let t: Vec<&str> = l.split_whitespace().collect();
                    if t[0] == "dec" {
                        out.push(format!("spec {} {}", fam, t[2]));
                    }
                }
            }
        }
        "cross" => {
            // CONNECTs of one family presented to the other family's decoders, and the
            // continuation on the bytes after the protocol level with the known-protocol entry point
            let n = if thorough { 6_000 } else { 800 };
            for i in 0..n {
                let sz = Sizes { big: i % 80 == 0 };
                if i % 2 == 0 {
                    let p = gen_v5(&mut rng, 0, sz, [0u8, 1, 2][i % 3], i);
                    if let Ok(e) = p.encode() {
                        let e = e.as_ref().to_vec();
                        let h = hex(&e);
                        out.push(format!("dec v3 {}", h));
                        out.push(format!("deca v3 {} eof", h));
                        out.push(format!("poll v3 {} {} eof", h, gen_sched(&mut rng, e.len())));
                        let hl = mqtt_proto::header_len(e.len());
                        out.push(format!("cwp v5 5 {} {}", e.len() - hl, hex_or_dash(&e[hl + 7..])));
                        // the known-protocol entry points handed a FOREIGN protocol must refuse, whatever follows
                        out.push(format!("cwp v5 4 {} {}", e.len() - hl, hex_or_dash(&e[hl + 7..])));
                        out.push(format!("cwp v5 3 {} {}", e.len() - hl, hex_or_dash(&e[hl + 7..])));
                        out.push(format!("cwp v3 5 {}", hex_or_dash(&e[hl + 7..])));
                        // garbage after the level byte
                        let mut g = e[..hl + 7].to_vec();
                        g.extend((0..(e.len() - hl - 7)).map(|_| rng.next() as u8));
                        out.push(format!("dec v3 {}", hex(&g)));
                        out.push(format!("poll v3 {} - eof", hex(&g)));
                        // the refusal must come as soon as name and level have arrived: every kind of PREFIX that
                        // contains them (blocking and async), also for CONNECTs with a 2-byte remaining length
                        for cut in [hl + 7, hl + 8, (hl + 7 + e.len()) / 2, e.len() - 1] {
                            if cut >= hl + 7 && cut < e.len() {
                                out.push(format!("dec v3 {}", hex(&e[..cut])));
                                out.push(format!("deca v3 {} eof", hex(&e[..cut])));
                            }
                        }
                    }
                } else {
                    let p = gen_v3(&mut rng, 0, sz);
                    if let Ok(e) = p.encode() {
                        let e = e.as_ref().to_vec();
                        let h = hex(&e);
                        out.push(format!("dec v5 {}", h));
                        out.push(format!("deca v5 {} eof", h));
                        out.push(format!("poll v5 {} {} eof", h, gen_sched(&mut rng, e.len())));
                        let hl = mqtt_proto::header_len(e.len());
                        let plen = 2 + (e[hl + 1] as usize) + 1;
                        let lvl = e[hl + plen - 1];
                        out.push(format!("cwp v3 {} {}", lvl, hex_or_dash(&e[hl + plen..])));
                        out.push(format!("cwp v3 5 {}", hex_or_dash(&e[hl + plen..])));
                        out.push(format!("cwp v5 {} {} {}", lvl, e.len() - hl, hex_or_dash(&e[hl + plen..])));
                        let mut g = e[..hl + plen].to_vec();
                        g.extend((0..(e.len() - hl - plen)).map(|_| rng.next() as u8));
                        out.push(format!("dec v5 {}", hex(&g)));
                        out.push(format!("poll v5 {} - eof", hex(&g)));
                        for cut in [hl + plen, hl + plen + 1, (hl + plen + e.len()) / 2, e.len() - 1] {
                            if cut >= hl + plen && cut < e.len() {
                                out.push(format!("dec v5 {}", hex(&e[..cut])));
                                out.push(format!("deca v5 {} eof", hex(&e[..cut])));
                            }
                        }
                    }
                }
            }
        }
        "v3cat" => out.extend(crate::catalogue::stream::<crate::fam::V3>(tier, seed)),
        "v5cat" => out.extend(crate::catalogue::stream::<crate::fam::V5>(tier, seed)),
        "enca" => {
            for (k, p) in model_sweep_v3(thorough, 8_300).iter().enumerate() {
                let sink = ["-", "g", "a1,a7,p,a4000", "g,a3,a200,p,a5", "a130,a2,a1"][k % 5];
                out.push(format!("enca v3 {} {}", sink, crate::v3text::show(p)));
            }
            for (k, p) in model_sweep_v5(thorough, 8_300).iter().enumerate() {
                let sink = ["-", "g", "a1,a7,p,a4000", "g,a3,a200,p,a5", "a130,a2,a1"][k % 5];
                out.push(format!("enca v5 {} {}", sink, crate::v5text::show(p)));
            }
            let n = if thorough { 20_000 } else { 2_500 };
            for i in 0..n {
                let sz = Sizes { big: false };
                let (fam, text, len) = if i % 2 == 0 {
                    let p = gen_v3(&mut rng, (i / 2) % V3_TYPES, sz);
                    ("v3", crate::v3text::show(&p), p.encode().map(|v| v.as_ref().len()).unwrap_or(0))
                } else {
                    let p = gen_v5(&mut rng, (i / 2) % V5_TYPES, sz, [0u8, 1, 2][(i / 2) % 3], i);
                    ("v5", crate::v5text::show(&p), p.encode().map(|v| v.as_ref().len()).unwrap_or(0))
                };
                let mut items: Vec<String> = Vec::new();
                let nitems = rng.below(12);
                for _ in 0..nitems {
                    items.push(match rng.below(10) {
                        0 | 1 => "p".into(),
                        2 => format!("a{}", len.max(1)),
                        _ => format!("a{}", 1 + rng.below(9)),
                    });
                }
                if rng.chance(1, 2) {
                    items.push(if rng.chance(1, 3) { "z".into() } else { format!("e:{}", rng.pick(&KINDS)) });
                }
                if rng.chance(1, 3) {
                    items.insert(0, "g".into()); // the same script on a sink that gathers vectored writes
                }
                let sink = if items.is_empty() { "-".to_string() } else { items.join(",") };
                out.push(format!("enca {} {} {}", fam, sink, text));
            }
        }
        "valid" => {
            let n = if thorough { 30_000 } else { 4_000 };
            for i in 0..n {
                let sz = Sizes { big: i % 60 == 0 };
                if i % 2 == 0 {
                    let p = gen_v3(&mut rng, (i / 2) % V3_TYPES, sz);
                    if p.encode().is_ok() {
                        out.push(format!("valid v3 {}", crate::v3text::show(&p)));
                    }
                } else {
                    let pmode = [0u8, 0, 1, 2, 3, 4][(i / 2) % 6];
                    let p = gen_v5(&mut rng, (i / 2) % V5_TYPES, sz, pmode, i / 12);
                    if p.encode().is_ok() {
                        out.push(format!("valid v5 {}", crate::v5text::show(&p)));
                    }
                }
            }
        }
        "v3short" => {
            out.extend(tiny_frames("v3", thorough));
            // every string of length <= 2, every 2-byte header followed by short bodies
            out.push("dec v3 -".into());
            out.push("poll v3 - - eof".into());
            for a in 0..=255u8 {
                out.push(format!("dec v3 {}", hex(&[a])));
                out.push(format!("poll v3 {} - eof", hex(&[a])));
                out.push(format!("hdr v3 {}", hex(&[a])));
            }
            for a in 0..=255u8 {
                for b in 0..=255u8 {
                    let h = hex(&[a, b]);
                    out.push(format!("dec v3 {}", h));
                    out.push(format!("poll v3 {} - eof", h));
                    if thorough || b % 16 == 0 {
                        out.push(format!("hdr v3 {}", h));
                    }
                }
            }
            let bodies: [&[u8]; 8] = [&[0, 0], &[0, 1], &[0, 1, 0], &[0, 1, 0x61], &[0, 1, 0x61, 0], &[0, 0, 0, 1], &[0, 4, 0x4d, 0x51, 0x54, 0x54, 4, 2, 0, 0, 0, 0], &[0xff, 0xff, 0xff]];
            for a in 0..=255u8 {
                for body in bodies {
                    for l in [body.len() as u8, body.len() as u8 + 1, body.len().saturating_sub(1) as u8] {
                        let mut f = vec![a, l];
                        f.extend_from_slice(body);
                        out.push(format!("dec v3 {}", hex(&f)));
                        out.push(format!("poll v3 {} - eof", hex(&f)));
                    }
                }
            }
        }
        "proto" => {
            for name in [&b"MQTT"[..], b"MQIsdp", b"MQTt", b"", b"MQTTT", b"MQ\xff"] {
                for level in 0..=255u8 {
                    let mut f = Vec::new();
                    f.extend_from_slice(&(name.len() as u16).to_be_bytes());
                    f.extend_from_slice(name);
                    f.push(level);
                    out.push(format!("proto {}", hex(&f)));
                }
            }
            // near-misses of the two legal names: padded, truncated, extended, one byte substituted
            let levels = [0u8, 3, 4, 5, 6, 0x83, 0x84, 0x85];
            let names = proto_names();
            for name in &names {
                for level in levels {
                    let mut f = Vec::new();
                    f.extend_from_slice(&(name.len() as u16).to_be_bytes());
                    f.extend_from_slice(name);
                    f.push(level);
                    out.push(format!("proto {}", hex(&f)));
                    // and as a whole CONNECT through both families' packet decoders
                    if matches!(level, 3 | 4 | 5) && name.len() != 0 && name.len() < 100 {
                        let mut body = f.clone();
                        body.extend_from_slice(&[2, 0, 10]);
                        if level == 5 {
                            body.push(0);
                        }
                        body.extend_from_slice(&[0, 1, b'c']);
                        let mut fr = vec![0x10, body.len() as u8];
                        fr.extend_from_slice(&body);
                        for fam in ["v3", "v5"] {
                            out.push(format!("dec {} {}", fam, hex(&fr)));
                            out.push(format!("poll {} {} - eof", fam, hex(&fr)));
                        }
                    }
                }
            }
            out.push("proto 0004".into());
            out.push("proto -".into());
        }
        other => panic!("unknown stream {other}"),
    }
    out
}

/// Topic texts whose treatment depends on exact character comparison: every single/double/full
/// replacement of the characters of "$share/" and "$SYS/" by lookalikes (same code point modulo 256,
/// modulo 65,536, or +0x4E00), with suffix shapes that separate shared from ordinary filters, plus
/// lookalikes of the wildcards.  Built without consulting the implementation's validators.
pub fn lookalike_topics() -> Vec<String> {
    let mut out = Vec::new();
    for base in ["$share/", "$SYS/"] {
        let chars: Vec<char> = base.chars().collect();
        for off in [0x100u32, 0x10000] {
            for mask in 1u32..(1 << chars.len()) {
                if mask.count_ones() > 1 && mask != (1 << chars.len()) - 1 {
                    continue;
                }
                let pre: String = chars.iter().enumerate().map(|(i, c)| if mask & (1 << i) != 0 { char::from_u32(*c as u32 + off).unwrap() } else { *c }).collect();
                for suf in ["+", "x", "g/f", "g/+", "g/#", "/x", "abc", "+/x"] {
                    out.push(format!("{}{}", pre, suf));
                }
            }
        }
    }
    // reserved-looking first levels of other brokers' extensions: ordinary levels to this codec
    for f in ["$queue", "$local", "$exclusive", "$delayed", "$oshare", "$aws", "$share2", "$", "$shar", "$SHARE", "$Share", "$sys", "$SYSTEM"] {
        for rest in ["/t", "/g/t", "/+", "/#", "/g/+", "//t", "/+/t"] {
            out.push(format!("{}{}", f, rest));
        }
    }
    for w in ["\u{12b}", "\u{123}", "\u{12f}", "\u{100}", "\u{1002b}", "\u{10023}", "\u{10000}"] {
        for shape in ["{}", "a/{}", "{}/a", "a{}", "{}a", "a/{}/b", "$share/g/{}"] {
            out.push(shape.replace("{}", w));
        }
    }
    out
}

/// SUBSCRIBE, UNSUBSCRIBE and PUBLISH frames carrying `t` (hand-built: no validator involved).
pub fn topic_frames(v3: bool, t: &str) -> Vec<Vec<u8>> {
    let tb = t.as_bytes();
    let st = |out: &mut Vec<u8>| {
        out.extend_from_slice(&(tb.len() as u16).to_be_bytes());
        out.extend_from_slice(tb);
    };
    let frame = |first: u8, body: Vec<u8>| {
        let mut f = vec![first];
        let mut n = body.len();
        loop {
            let mut b = (n % 128) as u8;
            n /= 128;
            if n > 0 {
                b |= 0x80;
            }
            f.push(b);
            if n == 0 {
                break;
            }
        }
        f.extend(body);
        f
    };
    let mut frames = Vec::new();
    let mut b = vec![0, 1];
    if !v3 {
        b.push(0);
    }
    st(&mut b);
    b.push(1);
    frames.push(frame(0x82, b));
    let mut b = vec![0, 1];
    if !v3 {
        b.push(0);
    }
    st(&mut b);
    frames.push(frame(0xa2, b));
    let mut b = Vec::new();
    st(&mut b);
    if !v3 {
        b.push(0);
    }
    b.extend_from_slice(b"pl");
    frames.push(frame(0x30, b));
    frames
}

/// Near-misses of the two legal protocol names: padded (NUL, space, 0xff), truncated at either end,
/// extended by any byte, any single byte substituted, doubled, case-changed.
pub fn proto_names() -> Vec<Vec<u8>> {
    let mut names: Vec<Vec<u8>> = Vec::new();
    for base in [&b"MQTT"[..], b"MQIsdp"] {
        for pad in 1..=4 {
            for fill in [0u8, b' ', 0xff] {
                let mut n = base.to_vec();
                n.extend(std::iter::repeat(fill).take(pad));
                names.push(n);
            }
        }
        for pad in 1..=4 {
            for fill in [0u8, b' ', 0xff] {
                // padding in FRONT, and one filler byte inserted at every interior position
                let mut n: Vec<u8> = std::iter::repeat(fill).take(pad).collect();
                n.extend_from_slice(base);
                names.push(n);
            }
        }
        for fill in [0u8, b' '] {
            for at in 1..base.len() {
                let mut n = base.to_vec();
                n.insert(at, fill);
                names.push(n);
            }
        }
        for k in 0..base.len() {
            names.push(base[..k].to_vec());
            names.push(base[k..].to_vec());
        }
        for pos in 0..base.len() {
            for v in 0..=255u8 {
                if v != base[pos] {
                    let mut n = base.to_vec();
                    n[pos] = v;
                    names.push(n);
                }
            }
        }
        for v in 0..=255u8 {
            let mut n = base.to_vec();
            n.push(v);
            names.push(n);
        }
        names.push([base, base].concat());
        names.push(base.to_ascii_lowercase());
        names.push(base.to_ascii_uppercase());
    }
    // long unknown names, multi-byte characters at every alignment (an error path may echo or clip them)
    for unit in ["é", "你", "😀"] {
        for target in [31usize, 32, 33, 63, 64, 65, 255, 256, 257] {
            for pad in 0..4usize {
                let mut st = "M".repeat(pad);
                while st.len() < target + 4 {
                    st.push_str(unit);
                }
                names.push(st.into_bytes());
            }
        }
    }
    // short names that are valid UTF-8 but not ASCII (fullwidth / accented lookalikes)
    for n in ["MQT\u{166}", "MQ\u{130}sdp", "\u{ff2d}\u{ff31}\u{ff34}\u{ff34}", "MQTT\u{e9}", "\u{e9}MQTT", "M\u{51}TT\u{301}", "\u{1f600}"] {
        names.push(n.as_bytes().to_vec());
    }
    names.push(b"MQTTdp".to_vec());
    names.push(b"MQIs".to_vec());
    names
}

fn put_varint(out: &mut Vec<u8>, mut n: usize) {
    loop {
        let mut b = (n % 128) as u8;
        n /= 128;
        if n > 0 {
            b |= 0x80;
        }
        out.push(b);
        if n == 0 {
            break;
        }
    }
}

/// One property with a random well-formed (mostly) value; wire types from MQTT 5.0 table 2-4.
fn random_property(rng: &mut Rng, id: u8) -> Vec<u8> {
    let mut v = vec![id];
    let text = |rng: &mut Rng| -> Vec<u8> { rng.pick(&["", "a", "t/x", "é", "你好", "a/+", "$share/g/t", "😀"]).as_bytes().to_vec() };
    match id {
        0x01 | 0x17 | 0x19 | 0x24 | 0x25 | 0x28 | 0x29 | 0x2a => v.push(*rng.pick(&[0u8, 1, 1, 0, 2, 255])),
        0x13 | 0x21 | 0x22 | 0x23 => v.extend_from_slice(&rng.pick(&[0u16, 1, 1, 255, 256, 65535]).to_be_bytes()),
        0x02 | 0x11 | 0x18 | 0x27 => v.extend_from_slice(&rng.pick(&[0u32, 1, 1, 65536, u32::MAX, 268435456]).to_be_bytes()),
        0x03 | 0x08 | 0x09 | 0x12 | 0x15 | 0x16 | 0x1a | 0x1c | 0x1f => {
            let t = text(rng);
            v.extend_from_slice(&(t.len() as u16).to_be_bytes());
            v.extend_from_slice(&t);
        }
        0x0b => put_varint(&mut v, *rng.pick(&[0usize, 1, 1, 127, 128, 16383, 16384, 268435455])),
        0x26 => {
            for _ in 0..2 {
                let t = text(rng);
                v.extend_from_slice(&(t.len() as u16).to_be_bytes());
                v.extend_from_slice(&t);
            }
        }
        _ => v.push(0),
    }
    v
}

const STD_IDS: [u8; 27] = [0x01, 0x02, 0x03, 0x08, 0x09, 0x0b, 0x11, 0x12, 0x13, 0x15, 0x16, 0x17, 0x18, 0x19, 0x1a, 0x1c, 0x1f, 0x21, 0x22, 0x23, 0x24, 0x25, 0x26, 0x27, 0x28, 0x29, 0x2a];

/// The standard's property table (MQTT 5.0 §2.2.2.2, column "Packet / Will Properties").
fn std_allowed(host: &str) -> &'static [u8] {
    match host {
        "connect" => &[0x11, 0x15, 0x16, 0x17, 0x19, 0x21, 0x22, 0x27, 0x26],
        "will" => &[0x01, 0x02, 0x03, 0x08, 0x09, 0x18, 0x26],
        "connack" => &[0x11, 0x12, 0x13, 0x15, 0x16, 0x1a, 0x1c, 0x1f, 0x21, 0x22, 0x24, 0x25, 0x26, 0x27, 0x28, 0x29, 0x2a],
        "publish" => &[0x01, 0x02, 0x03, 0x08, 0x09, 0x0b, 0x23, 0x26],
        "puback" | "pubrec" | "pubrel" | "pubcomp" | "suback" | "unsuback" => &[0x1f, 0x26],
        "subscribe" => &[0x0b, 0x26],
        "unsubscribe" => &[0x26],
        "disconnect" => &[0x11, 0x1c, 0x1f, 0x26],
        _ => &[0x15, 0x16, 0x1f, 0x26],
    }
}

thread_local! {
    /// `props_frame`: declare this property length instead of the true one / the length of the last section built
    static DECLARED_OVERRIDE: std::cell::Cell<Option<usize>> = std::cell::Cell::new(None);
    static PROPS_LEN: std::cell::Cell<usize> = std::cell::Cell::new(0);
}

fn props_frame(rng: &mut Rng, host: &str, i: usize) -> Vec<u8> {
    let allowed = std_allowed(host);
    let mut ids: Vec<u8> = Vec::new();
    match i % 5 {
        0 => ids.extend(allowed.iter().cloned()), // all of them …
        1 => ids.extend(allowed.iter().cloned().filter(|_| rng.chance(1, 2))),
        2 => ids.extend(allowed.iter().cloned().filter(|_| rng.chance(1, 4))),
        3 => {
            // … one duplicated (a protocol error except for the user property / subscription identifier)
            ids.extend(allowed.iter().cloned().filter(|_| rng.chance(1, 2)));
            if !ids.is_empty() {
                let d = *rng.pick(&ids);
                ids.push(d);
            }
        }
        _ => {
            // … one identifier that does not belong here
            ids.extend(allowed.iter().cloned().filter(|_| rng.chance(1, 3)));
            ids.push(*rng.pick(&STD_IDS));
        }
    }
    for _ in 0..(if rng.chance(1, 4) { 3 + rng.below(6) } else { rng.below(3) }) {
        ids.push(0x26);
    }
    // random order
    for k in (1..ids.len()).rev() {
        let j = rng.below(k as u64 + 1) as usize;
        ids.swap(k, j);
    }
    let mut props = Vec::new();
    for id in ids {
        props.extend(random_property(rng, id));
    }
    let mut section = Vec::new();
    // one frame in six declares a property length that is WRONG by a few bytes (the section then ends inside
    // or beyond its last property; the rest of the packet is laid out as if the length were right)
    let declared = if rng.chance(1, 6) { (props.len() as i64 + *rng.pick(&[-9i64, -7, -4, -3, -2, -1, 1, 2, 5])).max(0) as usize } else { props.len() };
    PROPS_LEN.with(|c| c.set(props.len()));
    let declared = DECLARED_OVERRIDE.with(|c| c.get()).unwrap_or(declared);
    put_varint(&mut section, declared);
    if rng.chance(1, 5) {
        // the property length spelled NON-MINIMALLY (padded with 80…00): tolerated by the codec
        let last = section.len() - 1;
        if section.len() < 4 {
            section[last] |= 0x80;
            for k in 0..(1 + rng.below((4 - section.len()) as u64) as usize) {
                let _ = k;
                section.push(0x80);
            }
            let l2 = section.len() - 1;
            section[l2] = 0x00;
        }
    }
    section.extend_from_slice(&props);
    let reason: u8 = if rng.chance(1, 8) {
        3 // in no reason-code table
    } else {
        match host {
            "connack" => *rng.pick(&[0u8, 0x80, 0x87, 0x9f]),
            "puback" | "pubrec" => *rng.pick(&[0u8, 0x10, 0x80, 0x99]),
            "pubrel" | "pubcomp" => *rng.pick(&[0u8, 0x92]),
            "disconnect" => *rng.pick(&[0u8, 4, 0x80, 0x8e, 0xa2]),
            _ => *rng.pick(&[0u8, 0x18, 0x19]),
        }
    };
    let (first, body): (u8, Vec<u8>) = match host {
        "connect" => (0x10, [&[0, 4, b'M', b'Q', b'T', b'T', 5, 2, 0, 0][..], &section, &[0, 1, b'c']].concat()),
        "will" => (0x10, [&[0, 4, b'M', b'Q', b'T', b'T', 5, 6, 0, 0, 0, 0, 1, b'c'][..], &section, &[0, 1, b't', 0, 2, b'h', b'i']].concat()),
        "connack" => (0x20, [&[*rng.pick(&[0u8, 1]), reason][..], &section].concat()),
        "publish" => (*rng.pick(&[0x30u8, 0x31, 0x32, 0x3b]), if rng.chance(1, 2) { [&[0, 1, b't'][..], &section, b"pay"].concat() } else { [&[0, 0][..], &section].concat() }),
        "puback" => (0x40, [&[0, 1, reason][..], &section].concat()),
        "pubrec" => (0x50, [&[0, 1, reason][..], &section].concat()),
        "pubrel" => (0x62, [&[0, 1, reason][..], &section].concat()),
        "pubcomp" => (0x70, [&[0, 1, reason][..], &section].concat()),
        "subscribe" => (0x82, [&[0, 1][..], &section, &[0, 1, b't', *rng.pick(&[0u8, 1, 2, 0x2c, 0x14])]].concat()),
        "suback" => (0x90, [&[0, 1][..], &section, &[*rng.pick(&[0u8, 1, 2, 0x80, 0x87])]].concat()),
        "unsubscribe" => (0xa2, [&[0, 1][..], &section, &[0, 1, b't']].concat()),
        "unsuback" => (0xb0, [&[0, 1][..], &section, &[*rng.pick(&[0u8, 0x11, 0x80])]].concat()),
        "disconnect" => (0xe0, [&[reason][..], &section].concat()),
        _ => (0xf0, [&[reason][..], &section].concat()),
    };
    // a qos>0 PUBLISH needs its packet identifier between topic and properties
    let body = if host == "publish" && (first & 0x06) != 0 {
        let tl = 2 + (((body[0] as usize) << 8) | body[1] as usize);
        [&body[..tl], &[0, 7][..], &body[tl..]].concat()
    } else {
        body
    };
    let mut f = vec![first];
    put_varint(&mut f, body.len());
    f.extend_from_slice(&body);
    f
}

/// EXHAUSTIVE short streams under every placement of one Pending: all 1-byte and a fifth of the 2-byte
/// streams, and every control byte followed by each unfinished / over-long length-field shape, with a
/// Pending (or a Pending + drop of the future) before each read position.  Doubly malformed streams
/// (bad control byte AND bad length field) are exactly where "fail fast" shortcuts become
/// schedule-dependent.
pub fn short_poll_schedules(fam: &str) -> Vec<String> {
    let mut out = Vec::new();
    let mut emit = |bytes: &[u8]| {
        let h = hex(bytes);
        let n = bytes.len();
        for term in ["eof", "err:ConnectionReset"] {
            out.push(format!("poll {} {} - {}", fam, h, term));
            for at in 0..=n {
                for pend in ["p", "d"] {
                    let mut items: Vec<String> = Vec::new();
                    for k in 0..n {
                        if k == at {
                            items.push(pend.to_string());
                        }
                        items.push("c1".into());
                    }
                    if at == n {
                        items.push(pend.to_string());
                    }
                    out.push(format!("poll {} {} {} {}", fam, h, items.join(","), term));
                }
            }
        }
    };
    for a in 0..=255u8 {
        emit(&[a]);
        for tail in [&[0x80u8][..], &[0x80, 0x80], &[0xff, 0xff, 0xff], &[0xff, 0xff, 0xff, 0xff], &[0xff, 0xff, 0xff, 0xff, 0x7f], &[0xff, 0xff, 0xff, 0x7f], &[0x00], &[0x01], &[0x02, 0x00],
            // remaining length 0 / 2 spelled NON-MINIMALLY (padded with 80…00): body-less packets and acks
            &[0x80, 0x00], &[0x80, 0x80, 0x00], &[0x80, 0x80, 0x80, 0x00], &[0x82, 0x00, 0x00, 0x01], &[0x82, 0x80, 0x00, 0x00, 0x01]] {
            let mut v = vec![a];
            v.extend_from_slice(tail);
            emit(&v);
        }
    }
    for a in 0..=255u8 {
        for b in (0..=255u8).step_by(5) {
            emit(&[a, b]);
        }
    }
    out
}

/// TINY frames, exhaustively over a small byte alphabet: every plausible first byte × remaining length
/// 0..=4 × every body over {00 01 02 03 10 7f 80 92 ff} — all the doubly and triply malformed short packets
/// (zero pid AND bad reason code, bad flags AND bad length, …) that single substitutions never reach.
pub fn tiny_frames(fam: &str, thorough: bool) -> Vec<String> {
    let mut out = Vec::new();
    let alpha: &[u8] = if thorough { &[0x00, 0x01, 0x02, 0x03, 0x10, 0x7f, 0x80, 0x92, 0xff] } else { &[0x00, 0x01, 0x03, 0x10, 0x80, 0x92, 0xff] };
    let mut firsts: Vec<u8> = Vec::new();
    for t in 0..16u8 {
        for fl in [0u8, 2, 1, 0x0b] {
            firsts.push((t << 4) | fl);
        }
    }
    // the same first bytes with remaining length 0..=2 spelled with 1..3 padding bytes (non-minimal)
    for first in firsts.iter() {
        for rl in 0..=2usize {
            for pad in 1..=3usize {
                let total = (alpha.len() as u64).pow(rl as u32);
                for mut k in 0..total {
                    let mut f = vec![*first, rl as u8 | 0x80];
                    for j in 0..pad {
                        f.push(if j + 1 == pad { 0 } else { 0x80 });
                    }
                    for _ in 0..rl {
                        f.push(alpha[(k % alpha.len() as u64) as usize]);
                        k /= alpha.len() as u64;
                    }
                    let h = hex(&f);
                    out.push(format!("dec {} {}", fam, h));
                    out.push(format!("poll {} {} - eof", fam, h));
                }
            }
        }
    }
    for first in firsts {
        for rl in 0..=4usize {
            let total = (alpha.len() as u64).pow(rl as u32);
            for mut k in 0..total {
                let mut f = vec![first, rl as u8];
                for _ in 0..rl {
                    f.push(alpha[(k % alpha.len() as u64) as usize]);
                    k /= alpha.len() as u64;
                }
                let h = hex(&f);
                out.push(format!("dec {} {}", fam, h));
                out.push(format!("poll {} {} - eof", fam, h));
            }
        }
    }
    out
}

/// DICTIONARY frames: every string literal harvested from the code under test placed, one at a time, in every
/// text position of a v5 PUBLISH / CONNECT (content type, response topic, reason-like strings, user property
/// name and value, topic, client id, user name, will fields), each in two variants: well-formed, and with a
/// payload that is flagged as UTF-8 but is not.  A magic value that switches a check off is found by trying
/// the values the source itself mentions.
/// SUBSCRIBE / UNSUBSCRIBE lists whose SECOND filter is a one-edit neighbour of the first (a character inserted,
/// replaced or deleted at every position, from the syntax characters, NUL and a letter), in both orders and after
/// a repeated first element: a decoder that validates an element relative to its predecessor (shared prefix,
/// sibling fast path) must reach the same verdict as one that validates it alone.
/// the grid packets that go through the Lean model: without the code lists of more than 8,300 elements (the
/// model's list code is quadratic; `max` = 8,300 in the encoder streams, 4,200 in the decoder streams; the
/// implementation-side oracles take the whole grid)
/// beyond 4,200 elements only the lists of 8,191..8,194 codes (and only where `max` allows them)
fn too_long(n: usize, max: usize) -> bool {
    n > max || (n > 4_200 && !(8_191..=8_194).contains(&n))
}
fn model_sweep_v3(thorough: bool, max: usize) -> Vec<mqtt_proto::v3::Packet> {
    crate::pgen::sweep_v3(thorough).into_iter().filter(|p| !matches!(p, mqtt_proto::v3::Packet::Suback(s) if too_long(s.topics.len(), max))).collect()
}
fn model_sweep_v5(thorough: bool, max: usize) -> Vec<mqtt_proto::v5::Packet> {
    use mqtt_proto::v5::Packet;
    crate::pgen::sweep_v5(thorough).into_iter().filter(|p| !matches!(p, Packet::Suback(s) if too_long(s.topics.len(), max)) && !matches!(p, Packet::Unsuback(s) if too_long(s.topics.len(), max))).collect()
}

pub fn sibling_frames(v3: bool, thorough: bool) -> Vec<Vec<u8>> {
    let frame = |first: u8, body: Vec<u8>| {
        let mut f = vec![first];
        put_varint(&mut f, body.len());
        f.extend(body);
        f
    };
    let st = |b: &mut Vec<u8>, t: &[u8]| {
        b.extend_from_slice(&(t.len() as u16).to_be_bytes());
        b.extend_from_slice(t);
    };
    let mut bases: Vec<&str> = vec!["sensors/room1/temp", "a/b", "$share/g/sensors/room1/t", "aaaaaaaa/bbbbbbbb/c", "sensors/+/x", "sensors/#"];
    if thorough {
        bases.extend(["$SYS/broker/load/+", "/", "a//b/", "0123456/89abcdef/x/y", "+/+/+", "$share/grp/#"]);
    }
    let mut out = Vec::new();
    for base in bases {
        let b = base.as_bytes();
        let mut edits: Vec<Vec<u8>> = Vec::new();
        for p in 0..=b.len() {
            for c in [b'#', b'+', b'/', 0u8, b'x', b'$'] {
                let mut e = b.to_vec();
                e.insert(p, c);
                edits.push(e);
                if p < b.len() && b[p] != c {
                    let mut e = b.to_vec();
                    e[p] = c;
                    edits.push(e);
                }
            }
            if p < b.len() {
                let mut e = b.to_vec();
                e.remove(p);
                edits.push(e);
            }
        }
        // … and with the tail after the edit dropped ("sensors/room1#"), where the edit ends the text
        let more: Vec<Vec<u8>> = (1..b.len()).flat_map(|p| [b'#', b'+', 0u8].into_iter().map(move |c| { let mut e = b[..p].to_vec(); e.push(c); e })).collect();
        edits.extend(more);
        for e in edits {
            for lists in [vec![b, &e[..]], vec![&e[..], b], vec![b, b, &e[..]]] {
                let mut sub = vec![0, 5];
                let mut uns = vec![0, 6];
                if !v3 {
                    sub.push(0);
                    uns.push(0);
                }
                for t in &lists {
                    st(&mut sub, t);
                    sub.push(1);
                    st(&mut uns, t);
                }
                out.push(frame(0x82, sub));
                out.push(frame(0xa2, uns));
            }
        }
    }
    out
}

pub fn dictionary_frames() -> Vec<Vec<u8>> {
    let mut out = Vec::new();
    let st = |b: &mut Vec<u8>, t: &[u8]| {
        b.extend_from_slice(&(t.len() as u16).to_be_bytes());
        b.extend_from_slice(t);
    };
    let frame = |first: u8, body: Vec<u8>| {
        let mut f = vec![first];
        put_varint(&mut f, body.len());
        f.extend(body);
        f
    };
    for w in crate::pgen::dictionary().iter().filter(|w| w.len() <= 48) {
        let wb = w.as_bytes();
        for payload in [&b"ok"[..], &[0xff, 0xfe, 0x80][..]] {
            // PUBLISH: the word as content type / response topic / correlation data / user property name / value / topic
            for slot in 0..6 {
                let mut props = vec![0x01, 0x01];
                let mut topic: &[u8] = b"t";
                match slot {
                    0 => {
                        props.push(0x03);
                        st(&mut props, wb);
                    }
                    1 => {
                        props.push(0x08);
                        st(&mut props, wb);
                    }
                    2 => {
                        props.push(0x09);
                        st(&mut props, wb);
                    }
                    3 => {
                        props.push(0x26);
                        st(&mut props, wb);
                        st(&mut props, b"v");
                    }
                    4 => {
                        props.push(0x26);
                        st(&mut props, b"k");
                        st(&mut props, wb);
                    }
                    _ => topic = wb,
                }
                let mut body = Vec::new();
                st(&mut body, topic);
                put_varint(&mut body, props.len());
                body.extend_from_slice(&props);
                body.extend_from_slice(payload);
                out.push(frame(0x30, body));
            }
            // CONNECT with a will flagged as text: the word as client id / user name / will content type / will topic
            for slot in 0..4 {
                let mut wprops = vec![0x01, 0x01];
                if slot == 2 {
                    wprops.push(0x03);
                    st(&mut wprops, wb);
                }
                let mut body = vec![0, 4, b'M', b'Q', b'T', b'T', 5, 0x84, 0, 10, 0];
                st(&mut body, if slot == 0 { wb } else { b"c" });
                put_varint(&mut body, wprops.len());
                body.extend_from_slice(&wprops);
                st(&mut body, if slot == 3 { wb } else { b"w" });
                st(&mut body, payload);
                st(&mut body, if slot == 1 { wb } else { b"u" });
                out.push(frame(0x10, body));
            }
        }
    }
    // UTF-8 EDGE payloads under Payload Format Indicator = 1 (PUBLISH and will): every class of malformation —
    // a final character cut short by 1..3 bytes, overlong forms, surrogates, beyond U+10FFFF, lone continuation,
    // lead + non-continuation — after prefixes that put it on either side of 16/32/64-byte block boundaries,
    // at the very end and followed by one more ASCII byte; plus the valid neighbours of each
    let bads: [&[u8]; 25] = [
        // other encodings that pass for UTF-8 in the wild: CESU-8 / Java writeUTF surrogate PAIRS (high+low, byte by
        // byte), reversed pair, modified UTF-8 NUL, a UTF-16 BOM, Latin-1 é
        &[0xed, 0xa0, 0xbd, 0xed, 0xb8, 0x80], &[0xed, 0xaf, 0xbf, 0xed, 0xbf, 0xbf], &[0xed, 0xb8, 0x80, 0xed, 0xa0, 0xbd], &[0xc0, 0x80], &[0xff, 0xfe, 0x61, 0x00],
        &[0xc3], &[0xe2], &[0xe2, 0x82], &[0xf0], &[0xf0, 0x9f], &[0xf0, 0x9f, 0x98], &[0xdf], &[0xef, 0xbf], &[0xf4, 0x8f, 0xbf],
        &[0xc0, 0xaf], &[0xe0, 0x80, 0xaf], &[0xf0, 0x80, 0x80, 0xaf], &[0xed, 0xa0, 0x80], &[0xed, 0xbf, 0xbf], &[0xf4, 0x90, 0x80, 0x80], &[0xf5, 0x80, 0x80, 0x80],
        &[0x80], &[0xc3, 0x28], &[0xc3, 0xa9], &[0xf0, 0x9f, 0x98, 0x80],
    ];
    for pre in [0usize, 2, 13, 15, 16, 29, 31, 32, 61, 63, 64] {
        for bad in bads.iter() {
            for suffix in [&b""[..], &b"z"[..]] {
                let mut payload = vec![b'a'; pre];
                payload.extend_from_slice(bad);
                payload.extend_from_slice(suffix);
                // … alone, and with the Correlation Data EQUAL to the payload (an echoed request): a decoder that
                // shares one buffer between equal fields must still check the flagged one
                for echo in [false, true] {
                    let mut props = vec![0x01, 0x01];
                    if echo {
                        props.push(0x09);
                        st(&mut props, &payload);
                    }
                    for first in [0x30u8, 0x32] {
                        let mut body = Vec::new();
                        st(&mut body, b"t");
                        if first == 0x32 {
                            body.extend_from_slice(&[0, 7]);
                        }
                        put_varint(&mut body, props.len());
                        body.extend_from_slice(&props);
                        body.extend_from_slice(&payload);
                        out.push(frame(first, body));
                    }
                    let mut body = vec![0, 4, b'M', b'Q', b'T', b'T', 5, 0x04, 0, 10, 0];
                    st(&mut body, b"c");
                    put_varint(&mut body, props.len());
                    body.extend_from_slice(&props);
                    st(&mut body, b"w");
                    st(&mut body, &payload);
                    out.push(frame(0x10, body));
                }
            }
        }
    }
    out
}
