//! Generators of op streams for the correspondence check.  Every random choice
//! derives from one `Rng` seeded by VERIF_SEED.

use crate::fmt::*;
use crate::oracle::{interesting_varints, varint_patterns};
use crate::report::Rng;

pub fn gen(stream: &str, tier: &str, seed: u64) -> Vec<String> {
    let mut rng = Rng::new(seed ^ 0xC0FFEE);
    let thorough = tier == "thorough";
    let mut out = Vec::new();
    match stream {
        "vi" => {
            for n in interesting_varints() {
                out.push(format!("vi {}", n));
            }
            let k = if thorough { 200_000 } else { 20_000 };
            for _ in 0..k {
                let bits = 1 + rng.below(30);
                out.push(format!("vi {}", rng.next() & ((1u64 << bits) - 1)));
            }
        }
        "vib" => {
            for p in varint_patterns() {
                for cb in [0x30u8, 0x00, 0xc0] {
                    let mut f = vec![cb];
                    f.extend_from_slice(&p);
                    out.push(format!("vib {}", hex(&f)));
                }
            }
            out.push("vib -".into());
            let k = if thorough { 100_000 } else { 10_000 };
            for _ in 0..k {
                let len = rng.below(7) as usize;
                let bytes: Vec<u8> = (0..len).map(|_| rng.next() as u8).collect();
                out.push(format!("vib {}", hex_or_dash(&bytes)));
            }
        }
        "pid" => {
            let edge = [0u32, 1, 2, 3, 255, 256, 32767, 32768, 65533, 65534, 65535];
            for p in edge {
                for u in edge {
                    out.push(format!("pid {} {}", p, u));
                }
            }
            let k = if thorough { 300_000 } else { 30_000 };
            for _ in 0..k {
                out.push(format!("pid {} {}", rng.below(65536), rng.below(65536)));
            }
        }
        other => panic!("unknown stream {other}"),
    }
    out
}
