//! Oracle reports, printed as JSON for the check driver.

use std::collections::BTreeMap;

/// message and location of the most recent panic (set by the oracle's panic hook)
pub static LAST_PANIC: std::sync::Mutex<String> = std::sync::Mutex::new(String::new());

#[derive(Default)]
pub struct Report {
    pub property: String,
    pub cases: u64,
    pub distinct: u64,
    pub exhaustive: bool,
    pub rule: String,
    pub failures: Vec<Failure>,
    pub samples: Vec<String>,
    pub dist: BTreeMap<String, u64>,
    pub notes: Vec<String>,
}

pub struct Failure {
    /// stable key describing the *shape* of the failure (matched against known findings)
    pub key: String,
    /// the concrete input (op line(s) that replay it)
    pub input: String,
    pub detail: String,
}

pub fn jstr(s: &str) -> String {
    let mut o = String::with_capacity(s.len() + 2);
    o.push('"');
    for c in s.chars() {
        match c {
            '"' => o.push_str("\\\""),
            '\\' => o.push_str("\\\\"),
            '\n' => o.push_str("\\n"),
            '\t' => o.push_str("\\t"),
            c if (c as u32) < 0x20 => o.push_str(&format!("\\u{:04x}", c as u32)),
            c => o.push(c),
        }
    }
    o.push('"');
    o
}

impl Report {
    pub fn new(property: &str, rule: &str) -> Self {
        Report { property: property.into(), rule: rule.into(), ..Default::default() }
    }
    pub fn count(&mut self, key: &str) {
        *self.dist.entry(key.to_string()).or_insert(0) += 1;
    }
    pub fn sample(&mut self, s: String) {
        if self.samples.len() < 12 {
            self.samples.push(s);
        }
    }
    pub fn fail(&mut self, key: &str, input: String, detail: String) {
        if self.failures.len() < 50 {
            self.failures.push(Failure { key: key.into(), input, detail });
        }
    }
    pub fn merge(&mut self, other: Report) {
        self.cases += other.cases;
        self.distinct += other.distinct;
        for f in other.failures {
            if self.failures.len() < 50 {
                self.failures.push(f);
            }
        }
        for s in other.samples {
            self.sample(s);
        }
        for (k, v) in other.dist {
            *self.dist.entry(k).or_insert(0) += v;
        }
        self.notes.extend(other.notes);
    }
    pub fn to_json(&self) -> String {
        let fails: Vec<String> = self
            .failures
            .iter()
            .map(|f| format!("{{\"key\": {}, \"input\": {}, \"detail\": {}}}", jstr(&f.key), jstr(&f.input), jstr(&f.detail)))
            .collect();
        let samples: Vec<String> = self.samples.iter().map(|s| jstr(s)).collect();
        let dist: Vec<String> = self.dist.iter().map(|(k, v)| format!("{}: {}", jstr(k), v)).collect();
        let notes: Vec<String> = self.notes.iter().map(|s| jstr(s)).collect();
        format!(
            "{{\"property\": {}, \"cases\": {}, \"distinct\": {}, \"exhaustive\": {}, \"rule\": {}, \"failures\": [{}], \"samples\": [{}], \"dist\": {{{}}}, \"notes\": [{}]}}",
            jstr(&self.property),
            self.cases,
            self.distinct,
            self.exhaustive,
            jstr(&self.rule),
            fails.join(", "),
            samples.join(", "),
            dist.join(", "),
            notes.join(", ")
        )
    }
}

/// splitmix64: every random choice of the harness derives from one of these.
#[derive(Clone)]
pub struct Rng(pub u64);

impl Rng {
    pub fn new(seed: u64) -> Self {
        Rng(seed.wrapping_mul(0x9E3779B97F4A7C15).wrapping_add(0x1234567))
    }
    pub fn next(&mut self) -> u64 {
        self.0 = self.0.wrapping_add(0x9E3779B97F4A7C15);
        let mut z = self.0;
        z = (z ^ (z >> 30)).wrapping_mul(0xBF58476D1CE4E5B9);
        z = (z ^ (z >> 27)).wrapping_mul(0x94D049BB133111EB);
        z ^ (z >> 31)
    }
    pub fn below(&mut self, n: u64) -> u64 {
        if n == 0 {
            0
        } else {
            self.next() % n
        }
    }
    pub fn chance(&mut self, num: u64, den: u64) -> bool {
        self.below(den) < num
    }
    pub fn pick<'a, T>(&mut self, xs: &'a [T]) -> &'a T {
        &xs[self.below(xs.len() as u64) as usize]
    }
}
