//! C20: the malformation catalogue.  A field of a valid packet is located in its encoding
//! by re-encoding the packet with that one field changed (same length) and diffing; the bytes
//! there are then replaced by the malformed value.  Expected errors are written from the
//! doc-comments of `Error` / `ErrorV5`, not from the decoders.

use crate::fam::*;
use crate::fmt::*;
use crate::pgen::*;
use crate::report::*;
use crate::sio::Term;
use mqtt_proto::header_len;

#[derive(Clone, Debug)]
pub struct Malformed {
    pub kind: &'static str,
    pub frame: Vec<u8>,
    /// expected error text on every front-end
    pub expect: String,
    /// only the strict decoder is checked (lenient ones legitimately differ)
    pub poll_only: bool,
    /// "inner length runs past the frame": poll → InvalidRemainingLength, blocking → incomplete
    pub past_frame: bool,
}

fn reframe(control: u8, body: &[u8]) -> Vec<u8> {
    crate::pkt::frame(control, body)
}

fn first_diff(a: &[u8], b: &[u8]) -> Option<usize> {
    if a.len() != b.len() {
        return None;
    }
    (0..a.len()).find(|i| a[*i] != b[*i])
}

/// Re-encode `text` with token `idx` replaced; returns the new encoding.
fn enc_with<F: Fam>(toks: &[String], idx: usize, new_tok: String) -> Option<Vec<u8>> {
    let mut t: Vec<String> = toks.to_vec();
    t[idx] = new_tok;
    let refs: Vec<&str> = t.iter().map(|s| s.as_str()).collect();
    let p = F::parse(&refs)?;
    F::encode(&p).ok()
}

/// change the first byte of a hex token to another lowercase letter (token must start with [a-y])
fn tweak_hex(tok: &str) -> Option<String> {
    let b = unhex(tok)?;
    if b.is_empty() || !(b'a'..=b'y').contains(&b[0]) {
        return None;
    }
    let mut c = b.clone();
    c[0] += 1;
    Some(hex(&c))
}

fn locate_hex<F: Fam>(toks: &[String], idx: usize, enc: &[u8], sub: Option<(usize, char)>) -> Option<usize> {
    // sub: the token is composite (split by the char), tweak component k
    let new_tok = match sub {
        None => tweak_hex(&toks[idx])?,
        Some((k, sep)) => {
            let mut parts: Vec<String> = toks[idx].split(sep).map(|s| s.to_string()).collect();
            parts[k] = tweak_hex(&parts[k])?;
            parts.join(&sep.to_string())
        }
    };
    let e2 = enc_with::<F>(toks, idx, new_tok)?;
    first_diff(enc, &e2)
}

fn with_byte(enc: &[u8], off: usize, b: u8) -> Vec<u8> {
    let mut v = enc.to_vec();
    v[off] = b;
    v
}

fn str_bytes_at(enc: &[u8], off: usize) -> Option<Vec<u8>> {
    // off points at the first content byte of a length-prefixed string
    if off < 2 {
        return None;
    }
    let n = u16::from_be_bytes([enc[off - 2], enc[off - 1]]) as usize;
    enc.get(off..off + n).map(|s| s.to_vec())
}

fn ptype_of(enc: &[u8]) -> u8 {
    enc[0] >> 4
}

/// property tokens of a v5 props token `[id=val,...|n/v,...]`
fn split_props(tok: &str) -> (Vec<(u8, String)>, Vec<(String, String)>) {
    let inner = &tok[1..tok.len() - 1];
    let mut it = inner.split('|');
    let k = it.next().unwrap_or("");
    let u = it.next().unwrap_or("");
    let known = if k.is_empty() { vec![] } else { k.split(',').filter_map(|kv| kv.split_once('=')).map(|(a, b)| (a.parse().unwrap(), b.to_string())).collect() };
    let user = if u.is_empty() { vec![] } else { u.split(',').filter_map(|kv| kv.split_once('/')).map(|(a, b)| (a.to_string(), b.to_string())).collect() };
    (known, user)
}
fn join_props(known: &[(u8, String)], user: &[(String, String)]) -> String {
    format!("[{}|{}]", known.iter().map(|(a, b)| format!("{}={}", a, b)).collect::<Vec<_>>().join(","), user.iter().map(|(a, b)| format!("{}/{}", a, b)).collect::<Vec<_>>().join(","))
}

fn wire_kind(id: u8) -> char {
    match id {
        0x01 | 0x17 | 0x19 | 0x25 | 0x28 | 0x29 | 0x2a | 0x24 => 'b',
        0x13 | 0x21 | 0x22 | 0x23 => 'h',
        0x02 | 0x11 | 0x18 | 0x27 => 'w',
        0x03 | 0x12 | 0x15 | 0x1a | 0x1c | 0x1f | 0x08 => 's',
        0x09 | 0x16 => 'y',
        _ => 'v',
    }
}

/// all malformations of the catalogue applicable to packet `p`
pub fn malformations<F: Fam>(p: &F::P, rng: &mut Rng) -> Vec<Malformed> {
    let mut out = Vec::new();
    let enc = match F::encode(p) {
        Ok(e) => e,
        Err(_) => return out,
    };
    let v5 = F::NAME == "v5";
    let text = F::show(p);
    let toks: Vec<String> = text.split(' ').map(|s| s.to_string()).collect();
    let name = toks[0].as_str();
    let hl = header_len(enc.len());
    let t = ptype_of(&enc);
    let mut push = |kind: &'static str, frame: Vec<u8>, expect: String| out.push(Malformed { kind, frame, expect, poll_only: false, past_frame: false });

    // ---- fixed header
    if t != 3 {
        push("header-flags", with_byte(&enc, 0, enc[0] ^ (1 << rng.below(4))), "InvalidHeader".into());
    } else {
        push("publish-qos3", with_byte(&enc, 0, enc[0] | 0b110), "InvalidQos(3)".into());
    }
    push("reserved-type-0", with_byte(&enc, 0, enc[0] & 0x0f), "InvalidHeader".into());
    if !v5 {
        push("reserved-type-15", with_byte(&enc, 0, 0xf0), "InvalidHeader".into());
    }
    {
        let mut f = vec![enc[0], 0xff, 0xff, 0xff, 0xff, 0x01];
        f.extend_from_slice(&enc[hl..]);
        push("five-byte-remaining-length", f, "InvalidVarByteInt".into());
    }
    // ---- packet identifier
    let pid_off = match name {
        "puback" | "pubrec" | "pubrel" | "pubcomp" | "unsuback" | "subscribe" | "suback" | "unsubscribe" => Some(hl),
        "publish" if toks[3] != "0" => {
            // after the topic name
            let topic = unhex(&toks[5]).unwrap_or_default();
            Some(hl + 2 + topic.len())
        }
        _ => None,
    };
    if let Some(o) = pid_off {
        let mut f = enc.clone();
        f[o] = 0;
        f[o + 1] = 0;
        push("zero-pid", f, "ZeroPid".into());
    }
    // ---- codes
    match (name, v5) {
        ("connack", false) => {
            push("connack-return-code", with_byte(&enc, hl + 1, 6), "InvalidConnectReturnCode(6)".into());
            push("connack-flags", with_byte(&enc, hl, 2), "InvalidConnackFlags(2)".into());
        }
        ("connack", true) => {
            push("reason-code", with_byte(&enc, hl + 1, 3), format!("InvalidReasonCode({},3)", t));
            push("connack-flags", with_byte(&enc, hl, 2), "InvalidConnackFlags(2)".into());
        }
        ("suback", false) if enc.len() > hl + 2 => {
            push("suback-return-code", with_byte(&enc, enc.len() - 1, 3), "InvalidQos(3)".into());
        }
        ("suback", true) | ("unsuback", true) if toks[3] != "0" => {
            push("reason-code", with_byte(&enc, enc.len() - 1, 3), format!("InvalidReasonCode({},3)", t));
        }
        ("puback", true) | ("pubrec", true) | ("pubrel", true) | ("pubcomp", true) if enc.len() > hl + 2 => {
            push("reason-code", with_byte(&enc, hl + 2, 3), format!("InvalidReasonCode({},3)", t));
        }
        ("disconnect", true) | ("auth", true) if enc.len() > hl => {
            push("reason-code", with_byte(&enc, hl, 3), format!("InvalidReasonCode({},3)", t));
        }
        _ => {}
    }
    // ---- CONNECT
    if name == "connect" {
        let plen = 2 + enc[hl + 1] as usize + 1;
        let fo = hl + plen;
        let flags = enc[fo];
        push("connect-reserved-flag", with_byte(&enc, fo, flags | 1), format!("InvalidConnectFlags({})", flags | 1));
        let will_tok = if v5 { &toks[6] } else { &toks[5] };
        if will_tok == "~" {
            push("will-qos-without-will", with_byte(&enc, fo, flags | 0x08), format!("InvalidConnectFlags({})", flags | 0x08));
        } else {
            push("will-qos-3", with_byte(&enc, fo, flags | 0x18), "InvalidQos(3)".into());
        }
        // protocol level / name
        let lvl = enc[fo - 1];
        let name_bytes = enc[hl + 2..fo - 1].to_vec();
        push("protocol-level", with_byte(&enc, fo - 1, 9), format!("InvalidProtocol({},9)", hex(&name_bytes)));
        let mut nb = name_bytes.clone();
        nb[0] = b'm';
        push("protocol-name", with_byte(&enc, hl + 2, b'm'), format!("InvalidProtocol({},{})", hex(&nb), lvl));
        // the protocol name is a wire string like any other: ill-formed UTF-8 in it is InvalidString
        // (it is the one string that is not a String field of the packet value)
        let at = hl + 2 + rng.below(name_bytes.len() as u64) as usize;
        push("non-utf8-protocol-name", with_byte(&enc, at, *rng.pick(&[0xffu8, 0x80, 0xc3, 0xf8])), "InvalidString".into());
        let other = if v5 { 4 } else { 5 };
        if name_bytes == b"MQTT" {
            push("cross-family-level", with_byte(&enc, fo - 1, other), format!("UnexpectedProtocol({})", if v5 { "V311" } else { "V500" }));
        }
    }
    // ---- strings: every hex token that is a text / topic / filter
    // token classification per packet type (index → kind); composite tokens handled below
    let mut text_tokens: Vec<(usize, Option<(usize, char)>, &'static str)> = Vec::new();
    match (name, v5) {
        ("connect", false) => {
            text_tokens.push((4, None, "text"));
            text_tokens.push((6, None, "text"));
            if toks[5] != "~" {
                text_tokens.push((5, Some((3, ':')), "will-topic"));
            }
        }
        ("connect", true) => {
            text_tokens.push((5, None, "text"));
            text_tokens.push((7, None, "text"));
            if toks[6] != "~" {
                text_tokens.push((6, Some((3, ':')), "will-topic"));
            }
        }
        ("publish", false) => text_tokens.push((5, None, "topic")),
        ("publish", true) => text_tokens.push((5, None, "topic")),
        ("subscribe", false) => {
            for i in 3..toks.len() {
                text_tokens.push((i, Some((0, ':')), "filter"));
            }
        }
        ("subscribe", true) => {
            for i in 4..toks.len() {
                text_tokens.push((i, Some((0, ':')), "filter"));
            }
        }
        ("unsubscribe", false) => {
            for i in 3..toks.len() {
                text_tokens.push((i, None, "filter"));
            }
        }
        ("unsubscribe", true) => {
            for i in 4..toks.len() {
                text_tokens.push((i, None, "filter"));
            }
        }
        _ => {}
    }
    for (idx, sub, kind) in text_tokens {
        if toks[idx] == "~" {
            continue;
        }
        if let Some(off) = locate_hex::<F>(&toks, idx, &enc, sub) {
            push("non-utf8-string", with_byte(&enc, off, 0xff), "InvalidString".into());
            if let Some(s) = str_bytes_at(&enc, off) {
                match kind {
                    "topic" | "will-topic" => {
                        let mut s2 = s.clone();
                        s2[0] = b'+';
                        push("wildcard-in-topic-name", with_byte(&enc, off, b'+'), format!("InvalidTopicName({})", hex(&s2)));
                    }
                    "filter" if s.len() >= 2 && s[1] != b'/' => {
                        let mut s2 = s.clone();
                        s2[0] = b'#';
                        push("invalid-topic-filter", with_byte(&enc, off, b'#'), format!("InvalidTopicFilter({})", hex(&s2)));
                    }
                    _ => {}
                }
            }
        }
    }
    // ---- subscription options / requested QoS
    if name == "subscribe" {
        let last = enc.len() - 1;
        if !v5 {
            push("subscribe-qos-3", with_byte(&enc, last, 3), "InvalidQos(3)".into());
        } else {
            let b = enc[last];
            push("suboption-reserved-bits", with_byte(&enc, last, b | 0x40), format!("InvalidSubscriptionOption({})", b | 0x40));
            push("suboption-qos-3", with_byte(&enc, last, b | 0x03), format!("InvalidSubscriptionOption({})", b | 0x03));
            push("suboption-retain-handling-3", with_byte(&enc, last, b | 0x30), format!("InvalidSubscriptionOption({})", b | 0x30));
        }
    }
    // ---- empty subscription list
    if (name == "subscribe" || name == "unsubscribe") && !v5 {
        push("empty-subscription", reframe(enc[0], &enc[hl..hl + 2]), "EmptySubscription".into());
    }
    if (name == "subscribe" || name == "unsubscribe") && v5 {
        // keep pid and the property section, drop the topics: locate the end of the properties by
        // re-encoding with the first filter changed
        let first = 4;
        let sub = if name == "subscribe" { Some((0, ':')) } else { None };
        if let Some(off) = locate_hex::<F>(&toks, first, &enc, sub) {
            push("empty-subscription", reframe(enc[0], &enc[hl..off - 2]), "EmptySubscription".into());
        }
    }
    // ---- v5 properties
    if v5 {
        let pidx = match name {
            "connect" => Some(4),
            "connack" => Some(3),
            "publish" => Some(6),
            "puback" | "pubrec" | "pubrel" | "pubcomp" => Some(3),
            "subscribe" | "suback" | "unsubscribe" | "unsuback" => Some(2),
            "disconnect" | "auth" => Some(2),
            _ => None,
        };
        if let Some(pi) = pidx {
            let (known, user) = split_props(&toks[pi]);
            for (k, (id, val)) in known.iter().enumerate() {
                // locate the value by changing it
                let new_val = match wire_kind(*id) {
                    'b' => Some(if val == "0" { "1".to_string() } else { "0".to_string() }),
                    'h' | 'w' => val.parse::<u64>().ok().map(|v| (v ^ 1).to_string()),
                    's' | 'y' => tweak_hex(val),
                    _ => None,
                };
                let new_val = match new_val {
                    Some(v) => v,
                    None => continue,
                };
                let mut k2 = known.clone();
                k2[k].1 = new_val;
                let e2 = match enc_with::<F>(&toks, pi, join_props(&k2, &user)) {
                    Some(e) => e,
                    None => continue,
                };
                let voff = match first_diff(&enc, &e2) {
                    Some(o) => o,
                    None => continue,
                };
                // identifier position: directly before the value (fixed sizes) or before its 2-byte length
                let (id_off, vstart) = match wire_kind(*id) {
                    'b' => (voff - 1, voff),
                    'h' => {
                        let o = if enc[voff - 1] == *id { voff - 1 } else { voff - 2 };
                        (o, o + 1)
                    }
                    'w' => {
                        let mut o = voff;
                        while o > 0 && voff - o < 4 && enc[o - 1] != *id {
                            o -= 1;
                        }
                        (o - 1, o)
                    }
                    _ => (voff - 3, voff - 2),
                };
                if enc.get(id_off) != Some(id) {
                    continue;
                }
                let _ = vstart;
                push("unknown-property-id", with_byte(&enc, id_off, 0x7f), "InvalidPropertyId(127)".into());
                if wire_kind(*id) == 'b' {
                    push("bad-boolean-property", with_byte(&enc, voff, 2), format!("InvalidByteProperty({},2)", id));
                }
                // a property of the same wire type that this packet does not allow
                let foreign: Option<u8> = match (wire_kind(*id), name) {
                    ('b', "connack") => Some(0x17),
                    ('b', _) => Some(0x25),
                    ('h', "publish") => Some(0x21),
                    ('h', _) => Some(0x23),
                    ('w', "publish") => Some(0x11),
                    ('w', _) => Some(0x02),
                    ('s', "publish") => Some(0x1f),
                    ('s', "connack") => Some(0x03),
                    ('s', _) => Some(0x12),
                    ('y', "publish") => Some(0x16),
                    ('y', _) => Some(0x09),
                    _ => None,
                };
                if let Some(fid) = foreign {
                    if !(name == "connack" && (fid == 0x12)) && !(name != "publish" && fid == 0x03 && name == "publish") {
                        push("disallowed-property", with_byte(&enc, id_off, fid), format!("InvalidProperty({},{})", t, fid));
                    }
                }
                // duplicate: overwrite the NEXT property's identifier by this one if it has the same wire type
                if let Some((id2, _)) = known.get(k + 1) {
                    if wire_kind(*id2) == wire_kind(*id) && wire_kind(*id) != 's' && wire_kind(*id) != 'y' {
                        let size = match wire_kind(*id) {
                            'b' => 2,
                            'h' => 3,
                            _ => 5,
                        };
                        // only valid when the two are adjacent in the encoding (they are: encode order = list order)
                        if enc.get(id_off + size) == Some(id2) {
                            // (the encoder's list order may put another present property between them)
                            push("duplicated-property", with_byte(&enc, id_off + size, *id), format!("DuplicatedProperty({})", id));
                        }
                    }
                }
            }
        }
    }
    // ---- remaining length too short / too long (strict decoder)
    if enc.len() > hl + 1 && hl == 2 && enc[1] > 1 && enc[1] < 0x7e {
        let mut f = enc.clone();
        f[1] -= 1;
        f.pop();
        // an inner length (or fixed field) now runs past the end of the frame — unless the last field is a free-length payload
        // (v5 acknowledgements, DISCONNECT and AUTH have legal short/long forms one byte apart)
        let free_tail = name == "publish" || (name == "suback") || (name == "unsuback" && v5) || (v5 && matches!(name, "puback" | "pubrec" | "pubrel" | "pubcomp" | "disconnect" | "auth"));
        if !free_tail {
            out.push(Malformed { kind: "inner-length-past-frame", frame: f, expect: "InvalidRemainingLength".into(), poll_only: false, past_frame: true });
        }
        let mut g = enc.clone();
        g[1] += 1;
        g.push(0);
        if !free_tail && name != "connect" {
            out.push(Malformed { kind: "remaining-length-too-long", frame: g, expect: "InvalidRemainingLength".into(), poll_only: true, past_frame: false });
        }
    }
    out
}

fn check<F: Fam>(rep: &mut Report, m: &Malformed, from: &str) {
    rep.cases += 1;
    rep.count(&format!("{}:{}", F::NAME, m.kind));
    let op = format!("dec {} {}", F::NAME, hex(&m.frame));
    let r = std::panic::catch_unwind(|| (F::decode(&m.frame), F::decode_async(&m.frame, vec![], Term::Eof).0, F::poll(&m.frame, vec![], Term::Eof).res));
    let (b, a, p) = match r {
        Ok(x) => x,
        Err(_) => {
            rep.fail("decode-panic", op, format!("{}: a decoder panicked on a {} frame built from {}", F::NAME, m.kind, from));
            return;
        }
    };
    let pe = p.as_ref().err().map(|e| e.text.clone());
    if pe.as_deref() != Some(m.expect.as_str()) {
        rep.fail(&format!("classification:{}", m.kind), op.clone(), format!("poll decoder gave {:?}, documented error is {} (from {})", p.as_ref().map(|x| x.0).map_err(|e| e.text.clone()), m.expect, from));
    }
    if m.poll_only {
        return;
    }
    if m.past_frame {
        if !matches!(b, Ok(None)) {
            rep.fail(&format!("classification:{}", m.kind), op.clone(), format!("blocking decoder gave {:?}, expected incomplete", b.map(|o| o.map(|q| F::show(&q)))));
        }
        return;
    }
    let be = b.as_ref().err().map(|e| e.text.clone());
    let ae = a.as_ref().err().map(|e| e.text.clone());
    if be.as_deref() != Some(m.expect.as_str()) || ae.as_deref() != Some(m.expect.as_str()) {
        rep.fail(&format!("classification:{}", m.kind), op, format!("blocking gave {:?}, async gave {:?}, documented error is {} (from {})", b.map(|o| o.map(|q| F::show(&q))).map_err(|e| e.text), a.map(|q| F::show(&q)).map_err(|e| e.text), m.expect, from));
    }
}

/// v5 property malformations over their WHOLE finite domain, on hand-built minimal frames: at each of
/// the 14 property-carrying positions, every identifier the standard allows there twice (same value,
/// and two different values; the user property may repeat, and PUBLISH's Subscription Identifier is
/// known finding K1), and every identifier of the standard that does not belong there.
pub fn property_domain() -> Vec<(Malformed, String)> {
    use crate::tables::{host_frame, std_property, PROP_HOSTS};
    let allowed = |host: &str| -> &'static [u8] {
        match host {
            "connect" => &[0x11, 0x15, 0x16, 0x17, 0x19, 0x21, 0x22, 0x27],
            "will" => &[0x01, 0x02, 0x03, 0x08, 0x09, 0x18],
            "connack" => &[0x11, 0x12, 0x13, 0x15, 0x16, 0x1a, 0x1c, 0x1f, 0x21, 0x22, 0x24, 0x25, 0x27, 0x28, 0x29, 0x2a],
            "publish" => &[0x01, 0x02, 0x03, 0x08, 0x09, 0x0b, 0x23],
            "puback" | "pubrec" | "pubrel" | "pubcomp" | "suback" | "unsuback" => &[0x1f],
            "subscribe" => &[0x0b],
            "unsubscribe" => &[],
            "disconnect" => &[0x11, 0x1c, 0x1f],
            _ => &[0x15, 0x16, 0x1f],
        }
    };
    let mut out = Vec::new();
    // SUBSCRIBE / UNSUBSCRIBE without any filter, with and without a user property: EmptySubscription.
    // (Only the minimal spelling of the property length: a padded one is a second deviation from a valid
    // packet, and which of two malformations is reported is not specified — on the pinned tree SUBSCRIBE
    // answers InvalidRemainingLength there and UNSUBSCRIBE EmptySubscription; the model follows the code.)
    for (first, what) in [(0x82u8, "subscribe"), (0xa2u8, "unsubscribe")] {
        for props in [&[][..], &[0x26, 0, 1, b'k', 0, 1, b'v'][..]] {
            for pad in 0..=0usize {
                let mut body = vec![0, 1];
                let mut plen = vec![props.len() as u8];
                if pad > 0 {
                    plen[0] |= 0x80;
                    for k in 0..pad {
                        plen.push(if k + 1 == pad { 0 } else { 0x80 });
                    }
                }
                body.extend_from_slice(&plen);
                body.extend_from_slice(props);
                let mut frame = vec![first, body.len() as u8];
                frame.extend_from_slice(&body);
                out.push((
                    Malformed { kind: "empty-subscription-domain", frame, expect: "EmptySubscription".into(), poll_only: false, past_frame: false },
                    format!("{} with no filter, property length in {} byte(s), {} user properties", what, 1 + pad, props.len() / 7),
                ));
            }
        }
    }
    for host in PROP_HOSTS {
        let t = host_frame(host, &[])[0] >> 4;
        for id in 0..=255u8 {
            let one = match std_property(id) {
                Some(p) if id != 0x26 => p,
                _ => continue,
            };
            let mut other = one.clone();
            *other.last_mut().unwrap() ^= 0x02; // a different well-formed value of the same wire type
            if allowed(host).contains(&id) {
                if host == "publish" && id == 0x0b {
                    continue;
                }
                for (tag, second) in [("same value", &one), ("different value", &other)] {
                    let frame = host_frame(host, &[&one[..], &second[..]].concat());
                    out.push((
                        Malformed { kind: "duplicated-property-domain", frame, expect: format!("DuplicatedProperty({})", id), poll_only: false, past_frame: false },
                        format!("{} with property {} twice ({})", host, id, tag),
                    ));
                }
            } else {
                let expect = if host == "will" { format!("InvalidWillProperty({})", id) } else { format!("InvalidProperty({},{})", t, id) };
                out.push((Malformed { kind: "disallowed-property-domain", frame: host_frame(host, &one), expect, poll_only: false, past_frame: false }, format!("{} with foreign property {}", host, id)));
            }
        }
    }
    out
}

pub fn run<F: Fam>(rep: &mut Report, tier: &str, seed: u64, ops: Option<&[String]>) {
    if F::NAME == "v5" && ops.is_none() {
        for (m, from) in property_domain() {
            check::<F>(rep, &m, &from);
        }
    }
    let n = if tier == "thorough" { 20000 } else { 2500 };
    let inp = crate::poracle::inputs::<F>(tier, seed, ops, n, n, false);
    let mut rng = Rng::new(seed ^ 0x2020);
    for p in &inp.packets {
        let from = F::show(p);
        let from = if from.len() > 300 { format!("{}…", &from[..300]) } else { from };
        for m in malformations::<F>(p, &mut rng) {
            check::<F>(rep, &m, &from);
        }
    }
}

/// op lines (dec/deca/poll) for the correspondence stream
pub fn stream<F: Fam>(tier: &str, seed: u64) -> Vec<String> {
    let n = if tier == "thorough" { 6000 } else { 800 };
    let mut rng = Rng::new(seed ^ 0x2021);
    let mut out = Vec::new();
    if F::NAME == "v5" {
        for (m, _) in property_domain() {
            let h = hex(&m.frame);
            out.push(format!("dec v5 {}", h));
            out.push(format!("deca v5 {} eof", h));
            out.push(format!("poll v5 {} - eof", h));
        }
    }
    // mid-size packets (4–6 KB: beyond any "small body" fast path) with ONE and with every PAIR of same-length
    // malformations — which of two errors is reported must not depend on the size of the packet
    for (k, p) in F::sweep(false).iter().enumerate() {
        let enc = match F::encode(p) {
            Ok(e) if e.len() >= 4000 && e.len() <= 6000 && k % 3 == 0 => e,
            _ => continue,
        };
        let ms = malformations::<F>(p, &mut rng);
        let subs: Vec<&Malformed> = ms.iter().filter(|m| m.frame.len() == enc.len()).collect();
        for (a_i, a) in subs.iter().enumerate() {
            out.push(format!("dec {} {}", F::NAME, hex(&a.frame)));
            out.push(format!("poll {} {} - eof", F::NAME, hex(&a.frame)));
            for b in subs.iter().skip(a_i + 1) {
                let mut f = enc.clone();
                let mut both = 0;
                for i in 0..f.len() {
                    if a.frame[i] != enc[i] {
                        f[i] = a.frame[i];
                        both |= 1;
                    } else if b.frame[i] != enc[i] {
                        f[i] = b.frame[i];
                        both |= 2;
                    }
                }
                if both == 3 {
                    out.push(format!("dec {} {}", F::NAME, hex(&f)));
                    out.push(format!("poll {} {} - eof", F::NAME, hex(&f)));
                }
            }
        }
    }
    for i in 0..n {
        let p = F::gen(&mut rng, i, Sizes { big: false });
        let ms = malformations::<F>(&p, &mut rng);
        for m in &ms {
            let h = hex(&m.frame);
            out.push(format!("dec {} {}", F::NAME, h));
            out.push(format!("deca {} {} eof", F::NAME, h));
            out.push(format!("poll {} {} - eof", F::NAME, h));
        }
        // PREFIXES of malformed frames that still contain the malformation: an error that can already be
        // decided must be reported by the blocking and async decoders on the incomplete frame too (the
        // blocking front-end = async with EOF mapped to incomplete, errors untouched)
        if let Ok(enc) = F::encode(&p) {
            for m in ms.iter().filter(|m| m.frame.len() == enc.len() && !m.past_frame).take(6) {
                let last_diff = (0..enc.len()).rev().find(|k| m.frame[*k] != enc[*k]).unwrap_or(0);
                for cut in [last_diff + 1, (last_diff + 1 + enc.len()) / 2, enc.len() - 1] {
                    if cut > last_diff && cut < enc.len() {
                        let h = hex(&m.frame[..cut]);
                        out.push(format!("dec {} {}", F::NAME, h));
                        out.push(format!("deca {} {} eof", F::NAME, h));
                    }
                }
            }
        }
        // TWO malformations at once (which one is reported is part of the observable behaviour: the model
        // fixes the order of checks, the correspondence compares it): pairs of same-length byte-substitution
        // malformations touching different positions of the same packet
        if let Ok(enc) = F::encode(&p) {
            let subs: Vec<&Malformed> = ms.iter().filter(|m| m.frame.len() == enc.len()).collect();
            for _ in 0..(subs.len().min(8)) {
                if subs.len() < 2 {
                    break;
                }
                let a = *rng.pick(&subs);
                let b = *rng.pick(&subs);
                let mut f = enc.clone();
                let mut both = 0;
                for k in 0..f.len() {
                    if a.frame[k] != enc[k] {
                        f[k] = a.frame[k];
                        both |= 1;
                    } else if b.frame[k] != enc[k] {
                        f[k] = b.frame[k];
                        both |= 2;
                    }
                }
                if both == 3 {
                    let h = hex(&f);
                    out.push(format!("dec {} {}", F::NAME, h));
                    out.push(format!("poll {} {} - eof", F::NAME, h));
                }
            }
        }
    }
    out
}
