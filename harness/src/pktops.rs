//! Packet-level ops of the line protocol, real-code side.

use crate::fmt::*;
use crate::sio::*;
use crate::v3text;
use mqtt_proto::{v3, Encodable, Protocol};
use std::pin::Pin;

pub fn parse_term(s: &str) -> Option<Term> {
    if s == "eof" {
        return Some(Term::Eof);
    }
    let k = s.strip_prefix("err:")?;
    // `err:Kind+<hex>`: a ONE-SHOT fault; <hex> is what the transport would deliver afterwards
    let (k, after) = match k.split_once('+') {
        Some((k, h)) => (k, Some(crate::fmt::unhex(h)?)),
        None => (k, None),
    };
    crate::sio::AFTER_FAULT.with(|a| *a.borrow_mut() = after);
    io_kind_of(k).map(Term::Err)
}

pub fn parse_sched(s: &str) -> Option<Vec<Sched>> {
    if s == "-" {
        return Some(vec![]);
    }
    let mut v = Vec::new();
    for it in s.split(',') {
        if it == "p" {
            v.push(Sched::Pending);
        } else if it == "d" {
            v.push(Sched::PendingDrop);
        } else if let Some(n) = it.strip_prefix('c') {
            v.push(Sched::Chunk(n.parse().ok()?));
        } else if let Some(n) = it.strip_prefix('i') {
            v.push(Sched::InitChunk(n.parse().ok()?));
        } else {
            return None;
        }
    }
    Some(v)
}

/// End of the current frame as far as the stream determines it (same definition as `frameLimit` in the
/// Lean driver): header + remaining length when the length field is complete, 5 when it runs into a fifth
/// continuation byte, one past the stream when it is cut short.
pub fn frame_limit(bs: &[u8]) -> usize {
    if bs.is_empty() {
        return 1;
    }
    let (mut mul, mut val) = (1usize, 0usize);
    for k in 0..4 {
        match bs.get(1 + k) {
            None => return bs.len() + 1,
            Some(b) => {
                val += (*b as usize % 128) * mul;
                if *b < 128 {
                    return 1 + (k + 1) + val;
                }
                mul *= 128;
            }
        }
    }
    5
}

/// The property-relevant abstraction of the read requests: every offered buffer has room for at least one
/// byte and ends within the current frame (the exact read sizes are an implementation choice).
pub fn show_reqs(bs: &[u8], r: &[(usize, usize)]) -> String {
    let lim = frame_limit(bs);
    match r.iter().find(|(a, b)| *b == 0 || a + b > lim) {
        None => "ok".into(),
        Some((a, b)) => format!("bad({}:{})", a, b),
    }
}

fn enc_len_str<E>(r: Result<usize, E>, f: impl Fn(&E) -> String) -> String {
    match r {
        Ok(n) => n.to_string(),
        Err(e) => f(&e),
    }
}

fn part<E: Encodable>(e: &E) -> (String, usize) {
    let mut buf = Vec::new();
    e.encode(&mut buf).unwrap();
    (hex_or_dash(&buf), e.encode_len())
}

// ------------------------------------------------------------------ v3

pub fn v3_dec(bytes: &[u8]) -> String {
    match v3::Packet::decode(bytes) {
        Ok(Some(p)) => {
            // consumed: decode() does not report it; recover it through the async path on a slice
            let mut rd: &[u8] = bytes;
            let _ = futures_lite::future::block_on(v3::Packet::decode_async(&mut rd));
            format!("ok {} {}", bytes.len() - rd.len(), v3text::show(&p))
        }
        Ok(None) => "none".into(),
        Err(e) => format!("err {}", error(&e)),
    }
}

pub fn v3_deca(bytes: &[u8], term: Term, sched: Vec<Sched>) -> String {
    let mut rd = ScriptReader::new(bytes.to_vec(), sched, term);
    let res = {
        let fut = v3::Packet::decode_async(&mut rd);
        let mut fut = Box::pin(fut);
        drive(fut.as_mut()).0
    };
    match res {
        Ok(p) => format!("ok {} {}", rd.pos, v3text::show(&p)),
        Err(e) => format!("err {}", error(&e)),
    }
}

pub fn v3_hdr(bytes: &[u8]) -> String {
    let mut rd: &[u8] = bytes;
    let r = futures_lite::future::block_on(v3::Header::decode_async(&mut rd));
    let r2 = v3::Header::decode(bytes);
    assert_eq!(r, r2, "Header::decode differs from block_on(decode_async)");
    match r {
        Ok(h) => format!("ok {} {} {} {} {} {}", crate::tables::v3_type_nibble(h.typ), v3text::b01(h.dup), h.qos as u8, v3text::b01(h.retain), h.remaining_len, bytes.len() - rd.len()),
        Err(e) => format!("err {}", error(&e)),
    }
}

pub fn v3_parts(p: &v3::Packet) -> String {
    match p {
        v3::Packet::Connect(c) => {
            let (b, l) = part(c);
            let (pb, pl) = part(&c.protocol);
            let w = match &c.last_will {
                Some(w) => {
                    let (wb, wl) = part(w);
                    format!(" will={}/{}", wb, wl)
                }
                None => String::new(),
            };
            format!("body={} blen={} proto={}/{}{}", b, l, pb, pl, w)
        }
        v3::Packet::Publish(x) => {
            let (b, l) = part(x);
            format!("body={} blen={}", b, l)
        }
        v3::Packet::Subscribe(x) => {
            let (b, l) = part(x);
            format!("body={} blen={}", b, l)
        }
        v3::Packet::Suback(x) => {
            let (b, l) = part(x);
            format!("body={} blen={}", b, l)
        }
        v3::Packet::Unsubscribe(x) => {
            let (b, l) = part(x);
            format!("body={} blen={}", b, l)
        }
        _ => "body=~".into(),
    }
}

pub fn v3_enc(toks: &[&str]) -> String {
    match v3text::parse(toks) {
        v3text::Build::Syntax => "bad-op".into(),
        v3text::Build::Unconstructible(w) => format!("unconstructible {}", w),
        v3text::Build::Ok(p) => {
            let len = enc_len_str(p.encode_len(), error);
            match p.encode() {
                Ok(vb) => format!("ok {} len={} {}", hex(vb.as_ref()), len, v3_parts(&p)),
                Err(e) => format!("err {} len={}", error(&e), len),
            }
        }
    }
}

pub fn v3_poll(bytes: &[u8], sched: Vec<Sched>, term: Term) -> String {
    use mqtt_proto::v3::{PollPacket, PollPacketState};
    let mut state = PollPacketState::default();
    let mut rd = ScriptReader::new(bytes.to_vec(), sched, term);
    let (flag, waker) = crate::sio::task_waker();
    let mut cx = std::task::Context::from_waker(&waker);
    let mut pend = 0usize;
    let mut lost = false;
    let res = 'outer: loop {
        // (re-)create the future from the caller-held state
        let mut fut = PollPacket::new(&mut state, &mut rd);
        loop {
            match std::future::Future::poll(Pin::new(&mut fut), &mut cx) {
                std::task::Poll::Ready(r) => break 'outer r,
                std::task::Poll::Pending => {
                    pend += 1;
                    if pend > 1_000_000 {
                        panic!("poll spins");
                    }
                    if !crate::sio::woken(&flag) {
                        lost = true;
                    }
                    drop(fut);
                    if rd.drop_requested {
                        rd.drop_requested = false;
                        // the caller-held state is plain data (`Clone`): a caller may continue from a copy of it
                        // (not for declared bodies of many MB: the copy would dominate the run)
                        if crate::fam::state_is_small(&state) {
                            state = state.clone();
                        }
                    }
                    // whether or not a drop was requested, a fresh future over the same state must
                    // behave identically; for plain Pending we also re-create (borrowck), which is
                    // exactly the cancellation-safety contract
                    continue 'outer;
                }
            }
        }
    };
    let r = match res {
        _ if lost => format!("err {}", crate::sio::LOST_WAKEUP),
        Ok((total, body, p)) => {
            let body: Vec<u8> = body.into_iter().map(|b| unsafe { b.assume_init() }).collect();
            format!("ok total={} body={} {}", total, hex_or_dash(&body), v3text::show(&p))
        }
        Err(e) => format!("err {}", error(&e)),
    };
    format!("{} consumed={} pend={} reqs={}", r, rd.pos, rd.pendings, show_reqs(bytes, &rd.requests))
}

pub fn v3_cwp(proto: &str, bytes: &[u8]) -> String {
    let p = match proto {
        "3" => Protocol::V310,
        "4" => Protocol::V311,
        "5" => Protocol::V500,
        _ => return "bad-op".into(),
    };
    let mut rd: &[u8] = bytes;
    match futures_lite::future::block_on(v3::Connect::decode_with_protocol(&mut rd, p)) {
        Ok(c) => format!("ok {} {}", bytes.len() - rd.len(), v3text::show(&v3::Packet::Connect(c))),
        Err(e) if e.is_eof() => "more".into(),
        Err(e) => format!("err {}", error(&e)),
    }
}

pub fn op_proto(bytes: &[u8]) -> String {
    let mut rd: &[u8] = bytes;
    match futures_lite::future::block_on(Protocol::decode_async(&mut rd)) {
        Ok(p) => format!("ok {} {}", protocol(p), bytes.len() - rd.len()),
        Err(e) if e.is_eof() => "more".into(),
        Err(e) => format!("err {}", error(&e)),
    }
}

// ------------------------------------------------------------------ v5

use crate::v5text;
use mqtt_proto::v5;

pub fn v5_dec(bytes: &[u8]) -> String {
    match v5::Packet::decode(bytes) {
        Ok(Some(p)) => {
            let mut rd: &[u8] = bytes;
            let _ = futures_lite::future::block_on(v5::Packet::decode_async(&mut rd));
            format!("ok {} {}", bytes.len() - rd.len(), v5text::show(&p))
        }
        Ok(None) => "none".into(),
        Err(e) => format!("err {}", error_v5(&e)),
    }
}

pub fn v5_deca(bytes: &[u8], term: Term, sched: Vec<Sched>) -> String {
    let mut rd = ScriptReader::new(bytes.to_vec(), sched, term);
    let res = {
        let fut = v5::Packet::decode_async(&mut rd);
        let mut fut = Box::pin(fut);
        drive(fut.as_mut()).0
    };
    match res {
        Ok(p) => format!("ok {} {}", rd.pos, v5text::show(&p)),
        Err(e) => format!("err {}", error_v5(&e)),
    }
}

pub fn v5_hdr(bytes: &[u8]) -> String {
    let mut rd: &[u8] = bytes;
    let r = futures_lite::future::block_on(v5::Header::decode_async(&mut rd));
    let r2 = v5::Header::decode(bytes);
    assert_eq!(r, r2, "Header::decode differs from block_on(decode_async)");
    match r {
        Ok(h) => format!("ok {} {} {} {} {} {}", crate::tables::v5_type_nibble(h.typ), v3text::b01(h.dup), h.qos as u8, v3text::b01(h.retain), h.remaining_len, bytes.len() - rd.len()),
        Err(e) => format!("err {}", error_v5(&e)),
    }
}

fn part5<E: Encodable>(e: &E) -> String {
    let (b, l) = part(e);
    format!("{}/{}", b, l)
}

pub fn v5_parts(p: &v5::Packet) -> String {
    use v5::Packet::*;
    match p {
        Connect(c) => {
            let w = match &c.last_will {
                Some(w) => format!(" will={} wprops={}", part5(w), part5(&w.properties)),
                None => String::new(),
            };
            format!("body={} props={}{}", part5(c), part5(&c.properties), w)
        }
        Connack(x) => format!("body={} props={}", part5(x), part5(&x.properties)),
        Publish(x) => format!("body={} props={}", part5(x), part5(&x.properties)),
        Puback(x) => format!("body={} props={}", part5(x), part5(&x.properties)),
        Pubrec(x) => format!("body={} props={}", part5(x), part5(&x.properties)),
        Pubrel(x) => format!("body={} props={}", part5(x), part5(&x.properties)),
        Pubcomp(x) => format!("body={} props={}", part5(x), part5(&x.properties)),
        Subscribe(x) => format!("body={} props={}", part5(x), part5(&x.properties)),
        Suback(x) => format!("body={} props={}", part5(x), part5(&x.properties)),
        Unsubscribe(x) => format!("body={} props={}", part5(x), part5(&x.properties)),
        Unsuback(x) => format!("body={} props={}", part5(x), part5(&x.properties)),
        Disconnect(x) => format!("body={} props={}", part5(x), part5(&x.properties)),
        Auth(x) => format!("body={} props={}", part5(x), part5(&x.properties)),
        Pingreq | Pingresp => "body=~".into(),
    }
}

pub fn v5_enc(toks: &[&str]) -> String {
    match v5text::parse(toks) {
        v3text::Build::Syntax => "bad-op".into(),
        v3text::Build::Unconstructible(w) => format!("unconstructible {}", w),
        v3text::Build::Ok(p) => {
            let len = enc_len_str(p.encode_len(), error_v5);
            match p.encode() {
                Ok(vb) => format!("ok {} len={} {}", hex(vb.as_ref()), len, v5_parts(&p)),
                Err(e) => format!("err {} len={}", error(&e), len),
            }
        }
    }
}

pub fn v5_poll(bytes: &[u8], sched: Vec<Sched>, term: Term) -> String {
    use mqtt_proto::v5::{PollPacket, PollPacketState};
    let mut state = PollPacketState::default();
    let mut rd = ScriptReader::new(bytes.to_vec(), sched, term);
    let (flag, waker) = crate::sio::task_waker();
    let mut cx = std::task::Context::from_waker(&waker);
    let mut pend = 0usize;
    let mut lost = false;
    let res = 'outer: loop {
        let mut fut = PollPacket::new(&mut state, &mut rd);
        loop {
            match std::future::Future::poll(Pin::new(&mut fut), &mut cx) {
                std::task::Poll::Ready(r) => break 'outer r,
                std::task::Poll::Pending => {
                    pend += 1;
                    if pend > 1_000_000 {
                        panic!("poll spins");
                    }
                    if !crate::sio::woken(&flag) {
                        lost = true;
                    }
                    drop(fut);
                    if rd.drop_requested {
                        rd.drop_requested = false;
                        if crate::fam::state_is_small(&state) {
                            state = state.clone();
                        }
                    }
                    continue 'outer;
                }
            }
        }
    };
    let r = match res {
        _ if lost => format!("err {}", crate::sio::LOST_WAKEUP),
        Ok((total, body, p)) => {
            let body: Vec<u8> = body.into_iter().map(|b| unsafe { b.assume_init() }).collect();
            format!("ok total={} body={} {}", total, hex_or_dash(&body), v5text::show(&p))
        }
        Err(e) => format!("err {}", error_v5(&e)),
    };
    format!("{} consumed={} pend={} reqs={}", r, rd.pos, rd.pendings, show_reqs(bytes, &rd.requests))
}

pub fn v5_cwp(proto: &str, rl: u32, bytes: &[u8]) -> String {
    let p = match proto {
        "3" => Protocol::V310,
        "4" => Protocol::V311,
        "5" => Protocol::V500,
        _ => return "bad-op".into(),
    };
    let header = v5::Header::new_with(0x10, rl).unwrap();
    let mut rd: &[u8] = bytes;
    match futures_lite::future::block_on(v5::Connect::decode_with_protocol(&mut rd, header, p)) {
        Ok(c) => format!("ok {} {}", bytes.len() - rd.len(), v5text::show(&v5::Packet::Connect(c))),
        Err(e) if e.is_eof() => "more".into(),
        Err(e) => format!("err {}", error_v5(&e)),
    }
}
