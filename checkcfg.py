"""Per-property configuration of /verif/check."""

TRUSTED_BASE = [
    "Lean 4.33.0 kernel (thorough tier: leanchecker re-check of the property module)",
    "axioms allowed in any property theorem: propext, Classical.choice, Quot.sound (checked by Audit.lean on the compiled environment; no sorry/admit/native_decide/bv_decide/user axioms)",
    "statement files lean/Properties/C*.lean and lean/Spec/*.lean: what is proved is what they say",
    "Tie A extractor: harness gen-tables (runs the real functions over their whole finite domains and prints what they return)",
    "Tie B: differential harness /verif/harness (real crate in-process, path dependency on /repo) vs compiled Lean driver mqttmodel on identical op lines; bounds what is known about the hand-written part of the model",
]

ASSUMPTIONS = [
    "usize length arithmetic does not overflow (64-bit): lengths are Nat in the model",
    "Vec/Bytes/Arc<String>/String behave as immutable byte lists",
]

HOOK_COMMITS = []

PROPS = {
    "C15": {
        "lean": "Properties.C15",
        "level_text": "Machine-checked Lean 4 theorems over the model for ALL n < 2^28 and all byte strings: writer length = reported size in 1..4, reader inverts writer and ignores the suffix, consumed-byte count, minimality, shape, total/header/remaining identities, rejection of >= 2^28 and of 5-byte forms, code thresholds = MQTT table. The four length helpers are lookups in tables regenerated from the running code on every run (Tie A); write_var_int/decode_raw_header/poll header machine are tied by an exhaustive comparison over all 2^28+9 values on the real functions.",
        "streams": ["vi", "vib"],
        "rule": "correspondence: vi = every value within ±66 of each width threshold and of 2^28 plus random values up to 2^30; vib = all continuation-bit patterns of 1..5 bytes x 3 payload choices x 3 control bytes plus random short strings; a case is distinct if its op line is distinct. oracle: exhaustive over all 2^28+9 values on the real functions.",
        "explanation": "theorems over the model for all n < 2^28 and all byte strings; length helpers are lookups in tables regenerated from the running code; writer/reader model tied by exhaustive comparison on the implementation",
        "assumptions": ["`var_int |= (b & 0x7f) << 7i` is modelled additively (disjoint bit ranges); compared with the code on every op"],
    },
    "C19": {
        "lean": "Properties.C19",
        "level_text": "Machine-checked Lean 4 theorems for ALL (p,u): add/sub never panic, never give 0, equal u steps round the 1..65535 cycle of Spec.Pid, are mutually inverse, in-place = pure, try_from fails exactly for 0. The model is tied to the real operators exhaustively (all 65535 x 65536 pairs against the closed form the theorems prove equal to the model) and by the op-line correspondence in release and debug builds.",
        "streams": ["pid"],
        "rule": "correspondence: 11x11 edge pairs plus random (p,u); oracle: all 65535 x 65536 pairs and all 65536 raw values on the real operators against the closed form the theorems prove equal to the model and to the cycle",
        "explanation": "theorems for all (p,u); implementation = closed form checked exhaustively",
        "debug_streams": ["pid"],
        "oracle_debug": False,
    },
    "C18": {
        "lean": "Properties.C18",
        "level_text": "Machine-checked Lean 4 theorems for ALL texts (lists of Unicode scalar values): the model of TopicName::is_invalid accepts exactly texts of at most 65,535 UTF-8 bytes free of '+', '#', U+0000 (= Spec.validName), the compared length is the encoded byte length, text<->bytes is a bijection on valid UTF-8 (core Lean's verified decoder), is_shared/is_sys are exactly the $share/ and $SYS/ prefixes. Tied to the code by bounded-exhaustive correspondence (all strings up to length 5/6 over the distinguishing alphabet, 65,534..65,536-byte strings) and by the oracle, which also drives the PUBLISH / will / response-topic decode paths of both families with each string.",
        "streams": ["tn", "utf8"],
        "rule": "tn: all strings of length <= 5 (thorough 6) over {/ + # $ a NUL é 你 😀}, $share/$SYS prefix shapes, 65534/65535/65536-byte strings, random, invalid UTF-8; utf8: all 1- and 2-byte strings, 3-/4-byte boundaries, random (simdutf8 and std agree with the model's validity). distinct = distinct op lines / distinct strings.",
        "explanation": "theorem for all texts; packet paths call the same function in the model, tied by the oracle on the real decoders",
        "assumptions": ["simdutf8::basic::from_utf8 and str::chars() are modelled by core Lean's verified UTF-8 decoder (compared on every utf8 op)"],
    },
    "C16": {
        "lean": "Properties.C16",
        "level_text": "Machine-checked Lean 4 theorem for ALL texts: the model of TopicFilter::is_invalid (the single-pass state machine with its seven loop variables, the four post-checks and the debug_assert) returns `valid (Spec.sharedSep cs)` exactly when Spec.validFilter cs (MQTT 4.7.1/4.7.3/4.8.2 written declaratively by levels) and `invalid` otherwise; it never panics and does not depend on the build profile. The model is tied to the code by bounded-exhaustive correspondence (every string of length <= 5/6 over the 9 character classes the validator distinguishes, every $share prefix shape, 65,534..65,536-byte strings) in release and debug builds; the oracle checks the real validator, constructor and the SUBSCRIBE/UNSUBSCRIBE decode paths of both families against an independent Rust rendering of the rule.",
        "streams": ["tf"],
        "debug_streams": ["tf"],
        "rule": "tf: all strings of length <= 5 (thorough 6) over {/ + # $ a NUL é 你 😀}; 10 $share-prefix shapes x all strings of length <= 3 (4); 65534/65535/65536-byte strings (ascii, multibyte tail, shared); random; invalid UTF-8. distinct = distinct strings.",
        "explanation": "theorem for all texts (found and fixed F3: '+x' accepted); packet paths call the same function in the model, tied by the oracle on the real decoders",
        "assumptions": ["str::chars()/len() are modelled by core Lean's verified UTF-8 decoder over the byte string"],
    },
    "C17": {
        "lean": "Properties.C17",
        "level_text": "Machine-checked Lean 4 theorems for ALL accepted filters: a non-zero cached index means the text is $share/ ++ name ++ / ++ filter with non-empty name free of '/', non-empty filter, index = 7 + UTF-8 size of name; the byte slices the accessors take are exactly the encodings of name and filter and fall on character boundaries (no slice panic, multi-byte names included); the split is unique; index 0 iff the text does not start with $share/ (accessors then return None); constructed filters are equal iff their texts are. Eq/Ord/Hash looking only at the text is tied by the oracle (==, cmp, partial_cmp, hash of filters vs their strings).",
        "streams": ["tf"],
        "rule": "same tf stream as C16 restricted by the oracle to accepted filters; consecutive pairs for ==/cmp/hash",
        "explanation": "accessor theorems over the model; Eq/Ord/Hash are definitional in the model and observed on the implementation",
        "assumptions": ["Hash/Ord of str are the standard library's", "&s[a..b] panics exactly off char boundaries or out of range (modelled by strSlice)"],
    },
}
