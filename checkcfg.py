"""Per-property configuration of /verif/check."""

TRUSTED_BASE = [
    "Lean 4.33.0 kernel (thorough tier: leanchecker re-check of the property module)",
    "axioms allowed in any property theorem: propext, Classical.choice, Quot.sound (checked by Audit.lean on the compiled environment; no sorry/admit/native_decide/bv_decide/user axioms)",
    "statement files lean/Properties/C*.lean and lean/Spec/*.lean: what is proved is what they say",
    "Tie A extractor: harness gen-tables (runs the real functions over their whole finite domains and prints what they return)",
    "Tie B: differential harness /verif/harness (real crate in-process, path dependency on /repo) vs compiled Lean driver mqttmodel on identical op lines; bounds what is known about the hand-written part of the model",
]

ASSUMPTIONS = [
    "usize length arithmetic does not overflow (64-bit): lengths are Nat in the model",
    "Vec/Bytes/Arc<String>/String behave as immutable byte lists",
]

HOOK_COMMITS = []

PROPS = {
    "C15": {
        "lean": "Properties.C15",
        "level_text": "Machine-checked Lean 4 theorems over the model for ALL n < 2^28 and all byte strings: writer length = reported size in 1..4, reader inverts writer and ignores the suffix, consumed-byte count, minimality, shape, total/header/remaining identities, rejection of >= 2^28 and of 5-byte forms, code thresholds = MQTT table. The four length helpers are lookups in tables regenerated from the running code on every run (Tie A); write_var_int/decode_raw_header/poll header machine are tied by an exhaustive comparison over all 2^28+9 values on the real functions.",
        "streams": ["vi", "vib"],
        "rule": "correspondence: vi = every value within ±66 of each width threshold and of 2^28 plus random values up to 2^30; vib = all continuation-bit patterns of 1..5 bytes x 3 payload choices x 3 control bytes plus random short strings; a case is distinct if its op line is distinct. oracle: exhaustive over all 2^28+9 values on the real functions.",
        "explanation": "theorems over the model for all n < 2^28 and all byte strings; length helpers are lookups in tables regenerated from the running code; writer/reader model tied by exhaustive comparison on the implementation",
        "assumptions": ["`var_int |= (b & 0x7f) << 7i` is modelled additively (disjoint bit ranges); compared with the code on every op"],
    },
    "C19": {
        "lean": "Properties.C19",
        "level_text": "Machine-checked Lean 4 theorems for ALL (p,u): add/sub never panic, never give 0, equal u steps round the 1..65535 cycle of Spec.Pid, are mutually inverse, in-place = pure, try_from fails exactly for 0. The model is tied to the real operators exhaustively (all 65535 x 65536 pairs against the closed form the theorems prove equal to the model) and by the op-line correspondence in release and debug builds.",
        "streams": ["pid"],
        "rule": "correspondence: 11x11 edge pairs plus random (p,u); oracle: all 65535 x 65536 pairs and all 65536 raw values on the real operators against the closed form the theorems prove equal to the model and to the cycle",
        "explanation": "theorems for all (p,u); implementation = closed form checked exhaustively",
        "debug_streams": ["pid"],
        "oracle_debug": False,
    },
    "C18": {
        "lean": "Properties.C18",
        "level_text": "Machine-checked Lean 4 theorems for ALL texts (lists of Unicode scalar values): the model of TopicName::is_invalid accepts exactly texts of at most 65,535 UTF-8 bytes free of '+', '#', U+0000 (= Spec.validName), the compared length is the encoded byte length, text<->bytes is a bijection on valid UTF-8 (core Lean's verified decoder), is_shared/is_sys are exactly the $share/ and $SYS/ prefixes. Tied to the code by bounded-exhaustive correspondence (all strings up to length 5/6 over the distinguishing alphabet, 65,534..65,536-byte strings) and by the oracle, which also drives the PUBLISH / will / response-topic decode paths of both families with each string.",
        "streams": ["tn", "utf8"],
        "rule": "tn: all strings of length <= 5 (thorough 6) over {/ + # $ a NUL é 你 😀}, $share/$SYS prefix shapes, 65534/65535/65536-byte strings, random, invalid UTF-8; utf8: all 1- and 2-byte strings, 3-/4-byte boundaries, random (simdutf8 and std agree with the model's validity). distinct = distinct op lines / distinct strings.",
        "explanation": "theorem for all texts; packet paths call the same function in the model, tied by the oracle on the real decoders",
        "assumptions": ["simdutf8::basic::from_utf8 and str::chars() are modelled by core Lean's verified UTF-8 decoder (compared on every utf8 op)"],
    },
    "C16": {
        "lean": "Properties.C16",
        "level_text": "Machine-checked Lean 4 theorem for ALL texts: the model of TopicFilter::is_invalid (the single-pass state machine with its seven loop variables, the four post-checks and the debug_assert) returns `valid (Spec.sharedSep cs)` exactly when Spec.validFilter cs (MQTT 4.7.1/4.7.3/4.8.2 written declaratively by levels) and `invalid` otherwise; it never panics and does not depend on the build profile. The model is tied to the code by bounded-exhaustive correspondence (every string of length <= 5/6 over the 9 character classes the validator distinguishes, every $share prefix shape, 65,534..65,536-byte strings) in release and debug builds; the oracle checks the real validator, constructor and the SUBSCRIBE/UNSUBSCRIBE decode paths of both families against an independent Rust rendering of the rule.",
        "streams": ["tf"],
        "debug_streams": ["tf"],
        "rule": "tf: all strings of length <= 5 (thorough 6) over {/ + # $ a NUL é 你 😀}; 10 $share-prefix shapes x all strings of length <= 3 (4); 65534/65535/65536-byte strings (ascii, multibyte tail, shared); random; invalid UTF-8. distinct = distinct strings.",
        "explanation": "theorem for all texts (found and fixed F3: '+x' accepted); packet paths call the same function in the model, tied by the oracle on the real decoders",
        "assumptions": ["str::chars()/len() are modelled by core Lean's verified UTF-8 decoder over the byte string"],
    },
    "C17": {
        "lean": "Properties.C17",
        "level_text": "Machine-checked Lean 4 theorems for ALL accepted filters: a non-zero cached index means the text is $share/ ++ name ++ / ++ filter with non-empty name free of '/', non-empty filter, index = 7 + UTF-8 size of name; the byte slices the accessors take are exactly the encodings of name and filter and fall on character boundaries (no slice panic, multi-byte names included); the split is unique; index 0 iff the text does not start with $share/ (accessors then return None); constructed filters are equal iff their texts are. Eq/Ord/Hash looking only at the text is tied by the oracle (==, cmp, partial_cmp, hash of filters vs their strings).",
        "streams": ["tf"],
        "rule": "same tf stream as C16 restricted by the oracle to accepted filters; consecutive pairs for ==/cmp/hash",
        "explanation": "accessor theorems over the model; Eq/Ord/Hash are definitional in the model and observed on the implementation",
        "assumptions": ["Hash/Ord of str are the standard library's", "&s[a..b] panics exactly off char boundaries or out of range (modelled by strSlice)"],
    },
    "C05": {
        "lean": ["Properties.C05"],
        "level_text": "Machine-checked Lean 4 refinement theorem, generic in the codec family (v3 and v5 instantiate it): for EVERY stream, EVERY schedule (any chunk sizes, Pending before any read, future dropped and re-created at any Pending) and either terminal event, the poll state machine's result and byte consumption equal Poll.spec, a function of the stream alone (hence equal to one uninterrupted read, for well-formed, malformed and truncated streams); Pending only when the transport said so; every offered buffer has capacity >= 1 and ends within the current frame; on success consumed = reported total and the body handed back is the stream's body bytes; the machine itself never panics (fuel suffices, no zero-capacity read, debug_assert unreachable). The model of GenericPollPacket::poll is tied to the code by correspondence over generated and exhaustive (all compositions of <=9/11-byte packets of every type, with Pending/drop) schedules, which really drop and re-create the future, logging every requested capacity.",
        "streams": ["v3poll", "v5poll"],
        "rule": "poll ops: every generated valid packet of every type plus mutated encodings under random schedules with EOF and error terminals; all 2^(n-1) chunk compositions of a short packet of every type, each also with Pending / Pending+drop inserted; distinct = distinct op lines",
        "explanation": "drop/re-create is the identity on the caller-held state in the model (the future owns only borrows); the harness really drops the future after every Pending",
        "assumptions": ["the transport honours the AsyncRead contract (fills at most the offered capacity)"],
    },
    "C01": {
        "lean": ["Properties.C01V3", "Properties.C01V5"],
        "level_text": "Machine-checked Lean 4 theorems for ALL valid packets of BOTH families (14 v3 + 15 v5 types, unbounded field sizes and list lengths, every code from the regenerated code tables, every subset/order-independent property set through the generic property layer incl. user-property lists of any length, the PUBACK-family / DISCONNECT / AUTH short forms) and arbitrary trailing bytes: encode succeeds without error or panic in either build profile and the async, blocking and poll (exact total, raw body) front-ends return the original packet; wire numbers of every enum invert (the obligation F1 broke); the generic property-layer round trip is proved once for all nine identifier lists. Valid domain = Packet.valid (decidable) + property sets confined to their struct + encode_len succeeds. Model tied to the code by correspondence (enc/dec/deca/poll/hdr/valid ops) and C05 lifts the poll statement to every schedule.",
        "streams": ["v3enc", "v3dec", "v5enc", "v5dec", "valid"],
        "rule": "enc/dec/deca/poll/hdr ops on type-directed generated packets of both families (every optional field and property subset shape, every code, boundary lengths) and their mutations; `valid` ops check the model's Valid predicate and model round trip on every generated packet; distinct = distinct op lines",
        "explanation": "theorems for both families",
    },
    "C02": {
        "lean": ["Properties.C02V3", "Properties.C02V5"],
        "level_text": "Machine-checked Lean 4 theorems: v3 — for ALL packets (valid or not) every encodable part writes exactly what it reports, encode never panics and is independent of debug assertions, output = control byte ++ minimal remaining length ++ body with remaining length = bytes following, oversize refused with InvalidVarByteInt by encode and encode_len alike; v5 — every property set writes what it reports whenever its section fits a variable byte integer, for ALL packets a successful encode is profile-independent, has the size encode_len reports and the header/body shape (so the debug_assert in encode_packet cannot fire), valid packets never panic, oversize (incl. oversize property sections after fix F6) is refused by both entry points, and that is the only encode error. Width thresholds come from tables regenerated from the running code (C15). Tied by correspondence in release AND debug builds (enc ops print every separately encodable part) and by the oracle (width boundaries incl. 268,435,455/268,435,456, 275 MB declared property sections).",
        "streams": ["v3enc", "v5enc"],
        "debug_streams": ["v3enc", "v5enc"],
        "oracle_debug": True,
        "rule": "enc ops print bytes, encode_len, body bytes/len and every separately encodable part (protocol, will, property sets) for generated packets incl. just-outside-domain values; same ops through the debug-assertions build; oracle adds width-boundary sizes and 275 MB declared property sections",
        "explanation": "theorems for both families",
    },
    "C03": {
        "lean": ["Properties.C03", "Properties.C03V3", "Properties.C03V5"],
        "level_text": "Machine-checked Lean 4 theorems for ALL byte strings and BOTH families: no decoder entry point (async, blocking, header, poll under any schedule) reaches any of the Rust panic sites rendered in the model (expect/unreachable!/debug_assert/unchecked arithmetic/indexing), termination holds by construction (total functions; loops are well-founded recursions; poll fuel proved sufficient), the poll machine never offers a zero-capacity buffer and calls block_decode only on a completely filled buffer. PARTIAL by nature: memory-level safety of the two `unsafe` idioms cannot be exhibited by a model; their logical preconditions are proved and the real code is exercised under catch_unwind in release and debug builds on exhaustive <=2-byte strings, every 2-byte header with short bodies, and structure-aware corruptions..",
        "streams": ["v3short", "v5short", "v3dec", "v5dec"],
        "debug_streams": ["v3short", "v5short"],
        "oracle_debug": True,
        "rule": "all strings of length <= 2 through dec/poll(/hdr), every first byte x 8-10 short bodies x 3 declared lengths, generated packets with 3-4 structure-aware mutations each; distinct = distinct op lines",
        "explanation": "no-panic theorems over the model; unsafe blocks observed, not proved",
        "assumptions": ["allocation of a declared (<= 256 MB) body buffer succeeds", "memory-level soundness of from_utf8_unchecked-after-validation and of the MaybeUninit body buffer is outside the model (logical preconditions proved)"],
    },
    "C06": {
        "lean": ["Properties.C06V3", "Properties.C06V5"],
        "level_text": "Machine-checked Lean 4 theorems for ALL byte strings and BOTH families: whenever the strict poll decoder (as a function of the stream; C05 covers every schedule) accepts, the async and blocking decoders return the same packet having consumed exactly the reported total; whenever it rejects a complete frame with an error other than a remaining-length mismatch, they return that same error; blocking = async with EOF mapped to incomplete for packets and bare headers (incl. the invariant that no reader fabricates an I/O error of its own). Proof: parser algebra (every reader extends) + equality of the three dispatch tables. The model is tied to the code by correspondence (dec/deca/poll/hdr on identical bytes) and by the oracle.",
        "streams": ["v3dec", "v5dec", "v3short", "v5short"],
        "rule": "dec, deca, poll and hdr ops on identical byte strings: valid encodings, encodings with trailing bytes, 3-4 structure-aware mutations each, all <=2-byte strings, short bodies under every first byte; oracle tallies accepted-by-both / lenient-only / incomplete / rejected",
        "explanation": "theorems for both families",
    },
    "C07": {
        "lean": ["Properties.C07V3", "Properties.C07V5"],
        "level_text": "Machine-checked Lean 4 theorems for ALL valid packets of BOTH families and ALL cut positions: every strict prefix of the encoding is Ok(None) for the blocking decoder and an is_eof() error for the async decoder and for the poll decoder under EVERY delivery schedule, never another error or a packet; the encoding followed by arbitrary bytes decodes to the same packet on all three front-ends (poll: any schedule, any terminal event). From C01 + the prefix lemma of the parser algebra + C05. Tied by the fault streams and by the oracle (every cut of every generated packet).",
        "streams": ["v3fault", "v5fault"],
        "rule": "fault streams: for generated packets and mutations, a random cut with EOF/error terminals on deca/poll/dec; oracle: every cut position of every generated packet (all positions up to 400 bytes), random/adversarial suffixes",
        "explanation": "theorems for both families",
    },
    "C08": {
        "lean": ["Properties.C08V3", "Properties.C08V5"],
        "level_text": "Machine-checked Lean 4 theorem for ALL finite sequences of valid packets (each family): decoding the concatenation one packet at a time (async/blocking advancing by the bytes consumed; poll advancing by the reported total) returns exactly the sequence, each packet consuming exactly its own encoding, byte counts summing to the stream length, then end-of-input at a clean boundary. Induction on the sequence with C01 in its trailing-bytes form. Tied by the oracle (sequences of 1..20 mixed packets through one reader with random chunking) and C05 for delivery schedules.",
        "streams": ["v3dec", "v5dec"],
        "rule": "oracle: 1..20 generated packets back-to-back through blocking (advance by encode_len), async (reader position) and poll (reported total, random chunking); correspondence: encodings followed by another packet's bytes",
        "explanation": "theorems for both families",
    },
    "C14": {
        "lean": ["Properties.C14V3", "Properties.C14V5", "Properties.C14W"],
        "level_text": "Machine-checked Lean 4 theorems (read side, both families): for ALL valid packets, ALL positions inside the encoding and ALL error kinds, a transport error there makes the async decoder and the poll decoder under EVERY schedule return IoError of that kind, EOF there yields an is_eof() error, a fault after the packet is not seen; error conversions preserve the I/O kind and map every protocol error to InvalidData, ErrorV5 wraps the same. MODELLED, NOT VERIFIED: tokio's read_exact/write_all (documented behaviour recorded as the model of `take`/`writeAll`). Write side (both families, theorems): whatever the sink does the bytes it received are a prefix of the encoding; a write error or zero-length write reached after j < len accepted bytes (any j, any way of accepting them) surfaces as IoError of exactly that kind (WriteZero for a 0-byte write) with exactly the first j bytes delivered; success implies complete delivery; the streaming encoder (one write_all per piece, any piece boundaries) leaves a prefix of the concatenation.",
        "streams": ["v3fault", "v5fault", "enca"],
        "rule": "fault streams: random cut of generated/mutated encodings with one of 6 error kinds or EOF through deca and poll (random schedules); enca: encode_async into sinks with partial accepts, Pendings and a terminal zero-length write or error; oracle: every cut of every generated packet",
        "explanation": "theorems for both sides and both families; read_exact/write_all are assumptions",
        "assumptions": ["read_exact: fills the buffer across partial reads, UnexpectedEof on a 0-byte read, propagates errors and Pending (tokio)", "write_all: retries until all bytes are accepted, WriteZero on a 0-byte write, propagates errors and Pending (tokio/std)"],
    },
    "C09": {
        "lean": ["Properties.C09"],
        "level_text": "Machine-checked Lean 4 theorems (both families): under EVERY sink behaviour made of partial accepts (any sizes >= 1) and Pendings, write_all delivers exactly the buffer in order and succeeds, with no more Pendings than the sink produced; the async encoder therefore writes exactly the bytes of the blocking encoder (and fails with its error otherwise); the streaming encoder delivers exactly the concatenation of its pieces for every piece partition; the VarBytes container exposes exactly header ++ body for the Fixed2/Fixed4 fast paths as for dynamic ones (v3), and every v5 packet encoding is control byte ++ minimal remaining length ++ what the body encoder writes. Determinism of repeated calls is definitional in the pure model and observed on the implementation (oracle: encode twice). MODELLED, NOT VERIFIED: the write_all loops of tokio/std (their documented behaviour is the model IO.writeAll, tied by the enca ops).",
        "streams": ["enca", "v3enc", "v5enc"],
        "rule": "enca ops: encode_async of generated packets of both families into scripted sinks (accept 1..9 bytes, whole buffer, Pending, terminal zero/err); enc ops print the blocking encoder's bytes and the body encoder's bytes; oracle adds 1-byte sinks, random 1..7 with Pendings, chunking io::Write sink for the body",
        "explanation": "theorems over the IO model; write_all itself is an assumption",
        "assumptions": ["write_all: retries until all bytes are accepted, WriteZero on a 0-byte write, propagates errors and Pending (tokio/std)", "Encodable::encode issues one write_all per field piece (piece boundaries are universally quantified in the theorem)"],
    },
    "C13": {
        "lean": ["Properties.C13"],
        "level_text": "Machine-checked Lean 4 theorems: the v3 CONNECT reader told the protocol is v5.0 refuses with UnexpectedProtocol(V500) for ALL following bytes (nothing after the level byte is looked at) and the v5 reader refuses v3.1/v3.1.1 likewise; for EVERY valid v5 CONNECT the v3 async, blocking and poll decoders answer UnexpectedProtocol(V500), the answer is unchanged when everything after the level byte is replaced by arbitrary bytes, and continuing on the remaining bytes with the v5 known-protocol entry point yields the original CONNECT (and symmetrically for every valid v3.1/v3.1.1 CONNECT under the v5 decoders); Protocol::new accepts exactly (MQIsdp,3), (MQTT,4), (MQTT,5) and answers InvalidProtocol(name, level) for every other pair with a UTF-8 name, InvalidString otherwise. Tied by the `cross` and `proto` correspondence streams (6 names x 256 levels) and the oracle (reader position at the error).",
        "streams": ["cross", "proto"],
        "rule": "cross: every generated CONNECT of one family through dec/deca/poll of the other, the same with random bytes after the level byte, and cwp on the remainder; proto: 6 protocol names (correct, corrupted, empty, non-UTF-8) x all 256 levels",
        "explanation": "theorems for all CONNECTs; 'rejected as invalid protocol' is pinned as: InvalidProtocol(name, level) when the name is UTF-8, InvalidString when it is not",
    },
}
