"""Per-property configuration of /verif/check."""

TRUSTED_BASE = [
    "Lean 4.33.0 kernel (thorough tier: leanchecker re-check of the property module)",
    "axioms allowed in any property theorem: propext, Classical.choice, Quot.sound (checked by Audit.lean on the compiled environment; no sorry/admit/native_decide/bv_decide/user axioms)",
    "statement files lean/Properties/C*.lean and lean/Spec/*.lean: what is proved is what they say",
    "Tie A extractor: harness gen-tables (runs the real functions over their whole finite domains and prints what they return)",
    "Tie B: differential harness /verif/harness (real crate in-process, path dependency on /repo) vs compiled Lean driver mqttmodel on identical op lines; bounds what is known about the hand-written part of the model",
]

ASSUMPTIONS = [
    "usize length arithmetic does not overflow (64-bit): lengths are Nat in the model",
    "Vec/Bytes/Arc<String>/String behave as immutable byte lists",
]

PROPS = {
    "C15": {
        "lean": "Properties.C15",
        "streams": ["vi", "vib"],
        "rule": "correspondence: vi = every value within ±66 of each width threshold and of 2^28 plus random values up to 2^30; vib = all continuation-bit patterns of 1..5 bytes x 3 payload choices x 3 control bytes plus random short strings; a case is distinct if its op line is distinct. oracle: exhaustive over all 2^28+9 values on the real functions.",
        "explanation": "theorems over the model for all n < 2^28 and all byte strings; length helpers are lookups in tables regenerated from the running code; writer/reader model tied by exhaustive comparison on the implementation",
        "assumptions": ["`var_int |= (b & 0x7f) << 7i` is modelled additively (disjoint bit ranges); compared with the code on every op"],
    },
    "C19": {
        "lean": "Properties.C19",
        "streams": ["pid"],
        "rule": "correspondence: 11x11 edge pairs plus random (p,u); oracle: all 65535 x 65536 pairs and all 65536 raw values on the real operators against the closed form the theorems prove equal to the model and to the cycle",
        "explanation": "theorems for all (p,u); implementation = closed form checked exhaustively",
        "debug_streams": ["pid"],
        "oracle_debug": False,
    },
}
